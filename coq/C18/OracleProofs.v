(* C18: the replay plan satisfies the ORACLE (Spec_C18.replay_ok) when the two defect patterns are
   excluded -- the hypotheses whose negations are the classifiers of the known findings. *)
From Coq Require Import NArith ZArith List Bool Lia.
From F8 Require Import Sess.Bytes Sess.Msg Sess.Persist Sess.Session Sess.SessLemmas.
From F8 Require Import C18.Spec_C18 C18.Replay C18.ReplayProofs C18.PlanProofs.
Import ListNotations.
Local Open Scope N_scope.

(* how the oracle sees a plan item once it is on the wire *)
Definition abs1 (p : pitem) (i : item) : Prop :=
  match p with
  | PGap a ns => i = IGap a ns
  | PMsg k raw => exists t, i = IMsg t /\ faithful k (tokens raw) t = true
  end.

(* ---- store lookups ---------------------------------------------------------------------------------------- *)
Lemma store_get_some_in : forall st k raw, store_get k st = Some raw -> In (k, raw) st.
Proof.
  induction st as [|[a w] l IH]; intros k raw H; [discriminate|].
  cbn [store_get] in H. destruct (a =? k) eqn:E.
  - apply N.eqb_eq in E. inversion H; subst. left. reflexivity.
  - right. apply IH. exact H.
Qed.

Lemma store_get_in : forall st lo k raw, sorted_from lo st = true -> In (k, raw) st -> store_get k st = Some raw.
Proof.
  induction st as [|[a w] l IH]; intros lo k raw S I; [destruct I|].
  cbn [sorted_from] in S. apply andb_true_iff in S. destruct S as [S1 S2].
  cbn [store_get]. destruct I as [I|I].
  - inversion I; subst. rewrite N.eqb_refl. reflexivity.
  - pose proof (sorted_from_lt _ _ _ _ S2 I) as Q. replace (a =? k) with false by (symmetry; apply N.eqb_neq; lia).
    eapply IH; eauto.
Qed.

Lemma store_get_none : forall st k, (forall raw, ~ In (k, raw) st) -> store_get k st = None.
Proof.
  intros st k H. destruct (store_get k st) eqn:E; [|reflexivity]. apply store_get_some_in in E. destruct (H _ E).
Qed.

Lemma store_last_ge : forall st lo k raw, sorted_from lo st = true -> In (k, raw) st -> k <= store_last st.
Proof.
  induction st as [|[a w] l IH]; intros lo k raw S I; [destruct I|].
  cbn [sorted_from] in S. apply andb_true_iff in S. destruct S as [S1 S2].
  destruct l as [|[a' w'] l'].
  - destruct I as [I|[]]. inversion I; subst. cbn. lia.
  - change (store_last ((a, w) :: (a', w') :: l')) with (store_last ((a', w') :: l')).
    destruct I as [I|I].
    + inversion I; subst. assert (J : In (a', w') ((a', w') :: l')) by (left; reflexivity).
      pose proof (sorted_from_lt _ _ _ _ S2 J). specialize (IH k a' w' S2 J). lia.
    + eapply IH; eauto.
Qed.

(* ---- the plan when the stored numbers in the range are contiguous from Begin -------------------------------- *)
Definition pmsgs (recs : list (N * bytes)) : list pitem := map (fun kv => PMsg (fst kv) (snd kv)) recs.

Lemma plan_loop_contig : forall recs n b last from,
  contig from recs = true -> 0 < from ->
  (last = 0 -> from = b) -> (last <> 0 -> from = last + 1) ->
  plan_loop n b last recs =
  (pmsgs recs, match recs with [] => last | _ => from + N.of_nat (length recs) - 1 end).
Proof.
  induction recs as [|[k raw] r IH]; intros n b last from C F H0 H1; [reflexivity|].
  cbn [contig] in C. apply andb_true_iff in C. destruct C as [C1 C2]. apply N.eqb_eq in C1. subst k.
  cbn [plan_loop]. rewrite (IH n b from (from + 1)) by (try assumption; lia).
  assert (G : gap_before n b last from = []).
  { unfold gap_before. destruct (last =? 0) eqn:Z; cbn [negb].
    - apply N.eqb_eq in Z. rewrite (H0 Z). rewrite N.ltb_irrefl. reflexivity.
    - apply N.eqb_neq in Z. rewrite (H1 Z). rewrite N.ltb_irrefl. reflexivity. }
  rewrite G. cbn [app pmsgs map fst snd]. f_equal.
  destruct r as [|x r']; cbn [length]; [lia|]. rewrite !Nat2N.inj_succ. lia.
Qed.

Lemma contig_keys : forall recs from k raw, contig from recs = true -> In (k, raw) recs ->
  from <= k < from + N.of_nat (length recs).
Proof.
  induction recs as [|[a w] r IH]; intros from k raw C I; [destruct I|].
  cbn [contig] in C. apply andb_true_iff in C. destruct C as [C1 C2]. apply N.eqb_eq in C1. subst a.
  cbn [length]. rewrite Nat2N.inj_succ. destruct I as [I|I].
  - inversion I; subst. lia.
  - specialize (IH _ _ _ C2 I). lia.
Qed.

Lemma contig_all_le : forall recs from hi, contig from recs = true -> recs <> [] ->
  (forall k raw, In (k, raw) recs -> k <= hi) -> from + N.of_nat (length recs) <= hi + 1.
Proof.
  induction recs as [|[a w] r IH]; intros from hi C NE H; [congruence|].
  cbn [contig] in C. apply andb_true_iff in C. destruct C as [C1 C2]. apply N.eqb_eq in C1. subst a.
  cbn [length]. rewrite Nat2N.inj_succ. destruct r as [|x r'].
  - cbn [length]. specialize (H from w ltac:(left; reflexivity)). lia.
  - specialize (IH (from + 1) hi C2 ltac:(discriminate) ltac:(intros; eapply H; right; eassumption)). lia.
Qed.

(* ---- the oracle's walk ---------------------------------------------------------------------------------------- *)
Lemma walk_stored : forall st lo recs from cnt its rest,
  sorted_from lo st = true ->
  contig from recs = true -> (forall k raw, In (k, raw) recs -> In (k, raw) st) ->
  (length recs <= cnt)%nat ->
  Forall2 abs1 (pmsgs recs) its ->
  walk st (nrange from cnt) 0 false (its ++ rest) =
  walk st (nrange (from + N.of_nat (length recs)) (cnt - length recs)) 0 false rest.
Proof.
  intros st lo. induction recs as [|[k raw] r IH]; intros from cnt its rest S C SUB L F.
  - inversion F; subst. cbn [length app]. rewrite N.add_0_r, Nat.sub_0_r. reflexivity.
  - cbn [contig] in C. apply andb_true_iff in C. destruct C as [C1 C2]. apply N.eqb_eq in C1. subst k.
    cbn [pmsgs map fst snd] in F. inversion F as [|p i ps is A1 A2]; subst.
    destruct A1 as (t & -> & FT).
    cbn [length] in L. destruct cnt as [|cnt]; [lia|].
    cbn [nrange walk app]. rewrite (store_get_in st lo from raw S) by (apply SUB; left; reflexivity).
    cbn [N.ltb N.compare]. replace (from <? 0) with false by (symmetry; apply N.ltb_ge; lia).
    rewrite FT. rewrite (IH (from + 1) cnt is rest S C2) by (try assumption; try lia; intros; apply SUB; right; assumption).
    cbn [length]. rewrite Nat2N.inj_succ. replace (from + 1 + N.of_nat (length r)) with (from + N.succ (N.of_nat (length r))) by lia.
    reflexivity.
Qed.

Lemma walk_covered : forall st cnt from cover,
  (forall k, from <= k < from + N.of_nat cnt -> store_get k st = None /\ k < cover) ->
  walk st (nrange from cnt) cover true [] = Some [].
Proof.
  intros st. induction cnt as [|cnt IH]; intros from cover H; [reflexivity|].
  cbn [nrange walk]. rewrite Nat2N.inj_succ in H.
  destruct (H from ltac:(lia)) as [H1 H2]. rewrite H1. replace (from <? cover) with true by (symmetry; apply N.ltb_lt; exact H2).
  apply IH. intros k K. apply H. lia.
Qed.

Lemma last_newseq_app : forall a b d, last_newseq (a ++ b) d = last_newseq b (last_newseq a d).
Proof. induction a as [|x a IH]; intros b d; [reflexivity|]. cbn [app last_newseq]. destruct x; apply IH. Qed.

Lemma last_newseq_msgs : forall recs its d, Forall2 abs1 (pmsgs recs) its -> last_newseq its d = d.
Proof.
  induction recs as [|[k raw] r IH]; intros its d F; inversion F; subst; [reflexivity|].
  match goal with H : abs1 _ _ |- _ => destruct H as (t & -> & _) end. cbn [last_newseq]. apply IH. assumption.
Qed.

Lemma skips_msgs : forall st recs its, Forall2 abs1 (pmsgs recs) its -> forallb (gap_skips_nothing st) its = true.
Proof.
  induction recs as [|[k raw] r IH]; intros its F; inversion F; subst; [reflexivity|].
  match goal with H : abs1 _ _ |- _ => destruct H as (t & -> & _) end. cbn [forallb gap_skips_nothing]. apply IH. assumption.
Qed.

(* ---- the theorem ------------------------------------------------------------------------------------------------ *)
Theorem plan_replay_ok : forall st n b e items,
  store_wf st = true -> keys_below n st = true ->
  0 < b -> (e = 0 \/ b <= e) ->
  no_gap_before_stored st b e = true ->
  nothing_stored_beyond st n e = true ->
  Forall2 abs1 (fst (plan st n b e)) items ->
  replay_ok st n b e items (snd (plan st n b e)) = true.
Proof.
  intros st n b e items WF KB B0 RNG NG NB AB.
  unfold no_gap_before_stored in NG.
  set (finish := finish_of st e) in *. set (recs := after (b - 1) finish st) in *.
  set (len := N.of_nat (length recs)).
  set (last := match recs with [] => 0 | _ => b + N.of_nat (length recs) - 1 end).
  assert (KBf : forall k raw, In (k, raw) st -> k < n).
  { intros k raw I. unfold keys_below in KB. rewrite forallb_forall in KB. specialize (KB _ I). cbn [fst] in KB. apply N.ltb_lt. exact KB. }
  assert (INR : forall k raw, In (k, raw) recs <-> In (k, raw) st /\ b <= k <= finish).
  { intros. unfold recs. rewrite after_in. split; intros (A & C); (split; [exact A|lia]). }
  assert (CK : forall k raw, In (k, raw) recs -> b <= k < b + len) by (intros; eapply contig_keys; eauto).
  set (hi := if (e =? 0) || (n <=? e) then n - 1 else e).
  assert (FIN : forall k raw, In (k, raw) st -> b <= k -> k <= hi -> k <= finish).
  { intros k raw I K1 K2. unfold finish, finish_of, hi in *. destruct (e =? 0) eqn:Z.
    - eapply store_last_ge; eauto.
    - cbn [orb] in K2. destruct (n <=? e) eqn:Q; [apply N.leb_le in Q; specialize (KBf _ _ I); lia|exact K2]. }
  (* x = the first number after the resent block; ns = the NewSeqNo of the final gap fill *)
  set (x := b + len).
  assert (LX : last = 0 /\ recs = [] /\ x = b \/ last <> 0 /\ x = last + 1 /\ recs <> []).
  { unfold last, x, len. destruct recs as [|r0 r']; [left; cbn; repeat split; lia|right].
    cbn [length]. rewrite Nat2N.inj_succ. repeat split; try lia. discriminate. }
  assert (PF : plan_final n b last = (PGap x (if n <=? x then x + 1 else n), if n <=? x then x + 1 else n)).
  { unfold plan_final. destruct LX as [(L0 & _ & XB)|(L1 & XL & _)].
    - rewrite L0, XB. reflexivity.
    - replace (last =? 0) with false by (symmetry; apply N.eqb_neq; exact L1). rewrite XL.
      replace (last + 2) with (last + 1 + 1) by lia. reflexivity. }
  set (ns := if n <=? x then x + 1 else n) in *.
  assert (XNS : x < ns) by (unfold ns; destruct (n <=? x) eqn:Q; [lia|apply N.leb_gt in Q; lia]).
  assert (PE : plan st n b e = ((pmsgs recs ++ [PGap x ns])%list, ns)).
  { unfold plan. fold finish. fold recs.
    rewrite (plan_loop_contig recs n b 0 b NG B0 (fun _ => eq_refl) ltac:(congruence)).
    fold last. rewrite PF. reflexivity. }
  rewrite PE in *. cbn [fst snd] in *.
  apply Forall2_app_inv_l in AB. destruct AB as (its & gl & AB1 & AB2 & ->).
  inversion AB2 as [|p i ps is G1 G2]; subst. inversion G2; subst. cbn [abs1] in G1. subst i.
  (* every record is at most hi *)
  assert (RHI : forall k raw, In (k, raw) recs -> k <= hi).
  { intros k raw I. apply INR in I. destruct I as (I1 & I2 & I3). specialize (KBf _ _ I1).
    unfold hi, finish, finish_of in *. destruct (e =? 0); cbn [orb]; [lia|]. destruct (n <=? e); lia. }
  assert (XHI : recs <> [] -> x <= hi + 1).
  { intro NE. unfold x, len. eapply contig_all_le; eauto. }
  assert (HIN : hi < n \/ hi = 0).
  { unfold hi. destruct ((e =? 0) || (n <=? e)) eqn:Q; [lia|]. apply orb_false_iff in Q. destruct Q as [_ Q]. apply N.leb_gt in Q. lia. }
  assert (UNS : forall k, x <= k -> k <= hi -> store_get k st = None).
  { intros k K1 K2. apply store_get_none. intros raw I.
    assert (K3 : b <= k) by (unfold x in K1; lia).
    pose proof (FIN _ _ I K3 K2) as K4. assert (J : In (k, raw) recs) by (apply INR; split; [exact I|lia]).
    specialize (CK _ _ J). unfold x in K1. lia. }
  assert (SKIP : gap_skips_nothing st (IGap x ns) = true).
  { cbn [gap_skips_nothing]. apply forallb_forall. intros [k raw] I. cbn [fst]. apply negb_true_iff. apply andb_false_iff.
    destruct (x <=? k) eqn:Q1; [right|left; reflexivity]. apply N.leb_le in Q1. apply N.ltb_ge.
    destruct (N.le_gt_cases ns k) as [|Q2]; [assumption|exfalso].
    pose proof (KBf _ _ I) as KN.
    assert (K3 : b <= k) by (unfold x in Q1; lia).
    destruct (N.le_gt_cases k hi) as [K2|K2].
    - pose proof (FIN _ _ I K3 K2) as K4. assert (J : In (k, raw) recs) by (apply INR; split; [exact I|lia]).
      specialize (CK _ _ J). unfold x in Q1. lia.
    - unfold hi in K2. unfold nothing_stored_beyond in NB. destruct (e =? 0) eqn:Z; cbn [orb] in *; [lia|].
      destruct (n <=? e) eqn:Q; [lia|]. rewrite forallb_forall in NB. specialize (NB _ I). cbn [fst] in NB.
      apply negb_true_iff in NB. apply andb_false_iff in NB. destruct NB as [NB|NB]; [apply N.ltb_ge in NB|apply N.ltb_ge in NB]; lia. }
  unfold replay_ok. fold hi.
  rewrite forallb_app, (skips_msgs st recs its AB1). cbn [forallb andb]. rewrite SKIP. cbn [andb].
  rewrite last_newseq_app, (last_newseq_msgs recs its n AB1). cbn [last_newseq]. rewrite N.eqb_refl, andb_true_r.
  assert (LEN2 : length its = length recs).
  { clear - AB1. revert its AB1. induction recs as [|r0 r IH]; intros its F; inversion F; subst; [reflexivity|].
    cbn [length]. f_equal. apply IH. assumption. }
  destruct (b <=? hi) eqn:BH.
  - apply N.leb_le in BH.
    assert (LC : (length recs <= N.to_nat (hi + 1 - b))%nat).
    { destruct recs as [|r0 r'] eqn:RE; [cbn; lia|]. assert (NE : r0 :: r' <> []) by discriminate.
      specialize (XHI NE). unfold x, len in XHI. lia. }
    rewrite (walk_stored st 0 recs b (N.to_nat (hi + 1 - b)) its [IGap x ns] WF NG) by (try assumption; intros k raw I; apply INR in I; tauto).
    fold len. fold x.
    destruct (N.to_nat (hi + 1 - b) - length recs)%nat as [|c] eqn:CE.
    + cbn [nrange walk forallb tail_ok]. 
      assert (XE : hi < x) by (unfold x, len; lia).
      replace (hi <? x) with true by (symmetry; apply N.ltb_lt; exact XE).
      replace (x <? ns) with true by (symmetry; apply N.ltb_lt; exact XNS). reflexivity.
    + assert (XL : x <= hi) by (unfold x, len; lia).
      cbn [nrange walk]. rewrite (UNS x) by lia. replace (x <? 0) with false by (symmetry; apply N.ltb_ge; lia).
      rewrite N.eqb_refl. replace (x <? ns) with true by (symmetry; apply N.ltb_lt; exact XNS). cbn [andb].
      rewrite walk_covered; [reflexivity|].
      intros k K. split; [apply UNS; unfold x, len in *; lia|].
      assert (KH : k <= hi) by (unfold x, len in *; lia).
      unfold ns. destruct (n <=? x) eqn:Q; [apply N.leb_le in Q|apply N.leb_gt in Q]; lia.
  - apply N.leb_gt in BH.
    assert (RE : recs = []).
    { destruct recs as [|[k0 raw0] r']; [reflexivity|]. exfalso.
      assert (I0 : In (k0, raw0) ((k0, raw0) :: r')) by (left; reflexivity).
      pose proof (RHI _ _ I0). pose proof (CK _ _ I0). lia. }
    rewrite RE in *. inversion AB1; subst. cbn [app walk forallb tail_ok].
    assert (XB : x = b) by (unfold x, len; rewrite RE; cbn; lia). rewrite XB in *.
    replace (hi <? b) with true by (symmetry; apply N.ltb_lt; exact BH).
    replace (b <? ns) with true by (symmetry; apply N.ltb_lt; exact XNS). reflexivity.
Qed.
