(* C18: the replay plan satisfies the ORACLE (Spec_C18.replay_ok) for every store and range, provided that
   End = 0 or nothing is stored beyond End (the remaining defect: the final gap fill overreaches). *)
From Coq Require Import NArith ZArith List Bool Lia.
From F8 Require Import Sess.Bytes Sess.Msg Sess.Persist Sess.Session Sess.SessLemmas.
From F8 Require Import C18.Spec_C18 C18.Replay C18.ReplayProofs C18.PlanProofs.
Import ListNotations.
Local Open Scope N_scope.

(* how the oracle sees a plan item once it is on the wire *)
Definition abs1 (p : pitem) (i : item) : Prop :=
  match p with
  | PGap a ns => i = IGap a ns
  | PMsg k raw => exists t, i = IMsg t /\ faithful k (tokens raw) t = true
  end.

(* ---- store lookups ---------------------------------------------------------------------------------------- *)
Lemma store_get_some_in : forall st k raw, store_get k st = Some raw -> In (k, raw) st.
Proof.
  induction st as [|[a w] l IH]; intros k raw H; [discriminate|].
  cbn [store_get] in H. destruct (a =? k) eqn:E.
  - apply N.eqb_eq in E. inversion H; subst. left. reflexivity.
  - right. apply IH. exact H.
Qed.

Lemma store_get_in : forall st lo k raw, sorted_from lo st = true -> In (k, raw) st -> store_get k st = Some raw.
Proof.
  induction st as [|[a w] l IH]; intros lo k raw S I; [destruct I|].
  cbn [sorted_from] in S. apply andb_true_iff in S. destruct S as [S1 S2].
  cbn [store_get]. destruct I as [I|I].
  - inversion I; subst. rewrite N.eqb_refl. reflexivity.
  - pose proof (sorted_from_lt _ _ _ _ S2 I) as Q. replace (a =? k) with false by (symmetry; apply N.eqb_neq; lia).
    eapply IH; eauto.
Qed.

Lemma store_get_none : forall st k, (forall raw, ~ In (k, raw) st) -> store_get k st = None.
Proof.
  intros st k H. destruct (store_get k st) eqn:E; [|reflexivity]. apply store_get_some_in in E. destruct (H _ E).
Qed.

Lemma store_last_ge : forall st lo k raw, sorted_from lo st = true -> In (k, raw) st -> k <= store_last st.
Proof.
  induction st as [|[a w] l IH]; intros lo k raw S I; [destruct I|].
  cbn [sorted_from] in S. apply andb_true_iff in S. destruct S as [S1 S2].
  destruct l as [|[a' w'] l'].
  - destruct I as [I|[]]. inversion I; subst. cbn. lia.
  - change (store_last ((a, w) :: (a', w') :: l')) with (store_last ((a', w') :: l')).
    destruct I as [I|I].
    + inversion I; subst. assert (J : In (a', w') ((a', w') :: l')) by (left; reflexivity).
      pose proof (sorted_from_lt _ _ _ _ S2 J). specialize (IH k a' w' S2 J). lia.
    + eapply IH; eauto.
Qed.

(* ---- the oracle's walk ---------------------------------------------------------------------------------------- *)
Lemma walk_covered : forall st cnt from cover,
  (forall k, from <= k < from + N.of_nat cnt -> store_get k st = None /\ k < cover) ->
  walk st (nrange from cnt) cover true [] = Some [].
Proof.
  intros st. induction cnt as [|cnt IH]; intros from cover H; [reflexivity|].
  cbn [nrange walk]. rewrite Nat2N.inj_succ in H.
  destruct (H from ltac:(lia)) as [H1 H2]. rewrite H1. replace (from <? cover) with true by (symmetry; apply N.ltb_lt; exact H2).
  apply IH. intros k K. apply H. lia.
Qed.

Lemma last_newseq_app : forall a b d, last_newseq (a ++ b) d = last_newseq b (last_newseq a d).
Proof. induction a as [|x a IH]; intros b d; [reflexivity|]. cbn [app last_newseq]. destruct x; apply IH. Qed.


(* numbers covered by the gap fill seen last are skipped *)
Lemma walk_skip : forall st d c from cover its,
  (forall x, from <= x < from + N.of_nat d -> store_get x st = None /\ x < cover) ->
  walk st (nrange from (d + c)) cover true its = walk st (nrange (from + N.of_nat d) c) cover true its.
Proof.
  intros st. induction d as [|d IH]; intros c from cover its H.
  - cbn [plus N.of_nat]. rewrite N.add_0_r. reflexivity.
  - cbn [plus nrange walk]. rewrite Nat2N.inj_succ in H.
    destruct (H from ltac:(lia)) as [H1 H2]. rewrite H1.
    replace (from <? cover) with true by (symmetry; apply N.ltb_lt; exact H2).
    rewrite IH by (intros x X; apply H; lia). f_equal. f_equal. rewrite Nat2N.inj_succ. lia.
Qed.

(* a run of d+1 numbers without stored message, announced by one gap fill from its first number *)
Lemma walk_gap_run : forall st d c from cover its,
  (forall x, from <= x < from + N.of_nat (S d) -> store_get x st = None) -> cover <= from ->
  walk st (nrange from (S d + c)) cover false (IGap from (from + N.of_nat (S d)) :: its) =
  walk st (nrange (from + N.of_nat (S d)) c) (from + N.of_nat (S d)) true its.
Proof.
  intros st d c from cover its H C. cbn [plus nrange walk].
  rewrite (H from) by (rewrite Nat2N.inj_succ; lia).
  replace (from <? cover) with false by (symmetry; apply N.ltb_ge; exact C).
  rewrite N.eqb_refl. replace (from <? from + N.of_nat (S d)) with true by (symmetry; apply N.ltb_lt; rewrite Nat2N.inj_succ; lia).
  cbn [andb]. rewrite walk_skip.
  - f_equal. f_equal. rewrite Nat2N.inj_succ. lia.
  - intros x X. split; [apply H; rewrite Nat2N.inj_succ; lia|rewrite Nat2N.inj_succ; lia].
Qed.

(* where the replay stands after the loop, and every record lies below it *)
Lemma from_after_loop : forall recs b last,
  0 < from_of b last -> sorted_from (from_of b last - 1) recs = true ->
  from_of b last <= from_of b (snd (plan_loop b last recs)) /\
  (forall k raw, In (k, raw) recs -> from_of b last <= k < from_of b (snd (plan_loop b last recs))).
Proof.
  induction recs as [|[k0 raw0] r IH]; intros b last F S.
  - cbn [plan_loop snd]. split; [lia|]. intros k raw [].
  - cbn [sorted_from] in S. apply andb_true_iff in S. destruct S as [S1 S2]. apply N.ltb_lt in S1.
    cbn [plan_loop]. specialize (IH b k0). destruct (plan_loop b k0 r) as [items last']. cbn [snd] in *.
    assert (F' : from_of b k0 = k0 + 1).
    { unfold from_of. replace (k0 =? 0) with false by (symmetry; apply N.eqb_neq; lia). reflexivity. }
    rewrite F' in IH. replace (k0 + 1 - 1) with k0 in IH by lia.
    destruct (IH ltac:(lia) S2) as [A B]. split; [lia|].
    intros k raw [I|I]; [inversion I; subst; lia|]. specialize (B _ _ I). lia.
Qed.

(* the loop's items are consumed by the walk; the end point from + cnt is preserved *)
Lemma walk_loop : forall st lo recs b last cnt cover its rest,
  sorted_from lo st = true ->
  0 < from_of b last -> sorted_from (from_of b last - 1) recs = true -> cover <= from_of b last ->
  (forall k raw, In (k, raw) recs -> In (k, raw) st /\ k < from_of b last + N.of_nat cnt) ->
  (forall x k raw, In (k, raw) recs -> from_of b last <= x < k -> (forall raw', ~ In (x, raw') recs) -> store_get x st = None) ->
  Forall2 abs1 (fst (plan_loop b last recs)) its ->
  exists cover' c',
    walk st (nrange (from_of b last) cnt) cover false (its ++ rest) =
    walk st (nrange (from_of b (snd (plan_loop b last recs))) c') cover' false rest /\
    cover' <= from_of b (snd (plan_loop b last recs)) /\
    from_of b (snd (plan_loop b last recs)) + N.of_nat c' = from_of b last + N.of_nat cnt.
Proof.
  intros st lo. induction recs as [|[k0 raw0] r IH]; intros b last cnt cover its rest SST F S C SUB UNS AB.
  - cbn [plan_loop fst snd] in *. inversion AB; subst. exists cover, cnt. cbn [app]. auto.
  - cbn [sorted_from] in S. apply andb_true_iff in S. destruct S as [S1 S2]. apply N.ltb_lt in S1.
    set (from := from_of b last) in *.
    cbn [plan_loop] in *. specialize (IH b k0).
    destruct (plan_loop b k0 r) as [items last'] eqn:PL. cbn [fst snd] in *.
    assert (F' : from_of b k0 = k0 + 1).
    { unfold from_of. replace (k0 =? 0) with false by (symmetry; apply N.eqb_neq; lia). reflexivity. }
    rewrite F' in IH. replace (k0 + 1 - 1) with k0 in IH by lia.
    apply Forall2_app_inv_l in AB. destruct AB as (gi & mi & AG & AM & ->).
    inversion AM as [|p i ps is A1 A2]; subst. destruct A1 as (t & -> & FT).
    destruct (SUB k0 raw0 ltac:(left; reflexivity)) as [IN0 LT0].
    assert (NOTIN : forall x, from <= x < k0 -> forall raw', ~ In (x, raw') ((k0, raw0) :: r)).
    { intros x X raw' [J|J]; [inversion J; lia|]. pose proof (sorted_from_lt _ _ _ _ S2 J). lia. }
    (* the step over the record itself, from a state (cover0, pg) with cover0 <= k0 *)
    assert (STEP : forall c cover0 pg, cover0 <= k0 ->
              walk st (nrange k0 (S c)) cover0 pg (IMsg t :: (is ++ rest)) = walk st (nrange (k0 + 1) c) cover0 false (is ++ rest)).
    { intros c cover0 pg C0. cbn [nrange walk]. rewrite (store_get_in st lo k0 raw0 SST IN0).
      replace (k0 <? cover0) with false by (symmetry; apply N.ltb_ge; exact C0). rewrite FT. reflexivity. }
    assert (SUB' : forall c, k0 + 1 + N.of_nat c = from + N.of_nat cnt ->
              forall k raw, In (k, raw) r -> In (k, raw) st /\ k < k0 + 1 + N.of_nat c).
    { intros c EQ k raw J. destruct (SUB k raw (or_intror J)) as [J1 J2]. split; [exact J1|lia]. }
    assert (UNS' : forall x k raw, In (k, raw) r -> k0 + 1 <= x < k -> (forall raw', ~ In (x, raw') r) -> store_get x st = None).
    { intros x k raw J X NI. apply (UNS x k raw (or_intror J)); [lia|].
      intros raw' [Q|Q]; [inversion Q; lia|]. eapply NI; eauto. }
    rewrite gap_before_from in AG. fold from in AG.
    destruct (from <? k0) eqn:G.
    + apply N.ltb_lt in G. inversion AG as [|p i ps is' G1 G2]; subst. inversion G2; subst. cbn [abs1] in G1. subst i.
      (* d+1 = k0 - from numbers without stored message, then the record *)
      set (d := (N.to_nat (k0 - from) - 1)%nat).
      assert (DE : from + N.of_nat (S d) = k0) by (unfold d; lia).
      assert (CE : exists c, cnt = (S d + S c)%nat).
      { exists (cnt - S d - 1)%nat. unfold d. lia. }
      destruct CE as (c & ->).
      cbn [app].
      replace (IGap from k0) with (IGap from (from + N.of_nat (S d))) by (rewrite DE; reflexivity).
      rewrite walk_gap_run; [|intros x X; apply (UNS x k0 raw0 ltac:(left; reflexivity)); [lia|apply NOTIN; lia]|exact C].
      rewrite DE. rewrite (STEP c k0 true) by lia.
      destruct (IH c k0 is rest SST ltac:(lia) S2 ltac:(lia) (SUB' c ltac:(lia)) UNS' A2) as (cover' & c' & E & C' & EQ).
      exists cover', c'. split; [exact E|]. split; [exact C'|]. lia.
    + apply N.ltb_ge in G. assert (FE : from = k0) by lia. inversion AG; subst gi. cbn [app].
      assert (CE : exists c, cnt = S c) by (exists (cnt - 1)%nat; lia). destruct CE as (c & ->).
      rewrite FE. rewrite (STEP c cover false) by lia.
      destruct (IH c cover is rest SST ltac:(lia) S2 ltac:(lia) (SUB' c ltac:(lia)) UNS' A2) as (cover' & c' & E & C' & EQ).
      exists cover', c'. split; [exact E|]. split; [exact C'|]. lia.
Qed.

(* gap fills of the loop skip nothing that is stored *)
Lemma loop_items_skip : forall st pits its,
  (forall a k, In (PGap a k) pits -> forall k' raw', In (k', raw') st -> ~ (a <= k' < k)) ->
  Forall2 abs1 pits its -> forallb (gap_skips_nothing st) its = true.
Proof.
  intros st pits its H F. induction F as [|p i ps is A F IH]; [reflexivity|].
  cbn [forallb]. rewrite IH by (intros; eapply H; [right|]; eassumption). rewrite andb_true_r.
  destruct p as [a k|k raw]; cbn [abs1] in A.
  - subst i. cbn [gap_skips_nothing]. apply forallb_forall. intros [k' raw'] I. cbn [fst].
    apply negb_true_iff. specialize (H a k ltac:(left; reflexivity) k' raw' I).
    destruct (a <=? k') eqn:Q1; [|reflexivity]. apply N.leb_le in Q1. cbn [andb]. apply N.ltb_ge. lia.
  - destruct A as (t & -> & _). reflexivity.
Qed.

(* ---- the theorem ------------------------------------------------------------------------------------------------ *)
Theorem plan_replay_ok : forall st n b e items,
  store_wf st = true -> keys_below n st = true ->
  0 < b -> (e = 0 \/ b <= e) ->
  nothing_stored_beyond st n e = true ->
  Forall2 abs1 (fst (plan st n b e)) items ->
  replay_ok st n b e items (snd (plan st n b e)) = true.
Proof.
  intros st n b e items WF KB B0 RNG NB AB.
  set (finish := finish_of st e) in *. set (recs := after (b - 1) finish st) in *.
  assert (F0 : from_of b 0 = b) by reflexivity.
  assert (SR : sorted_from (b - 1) recs = true).
  { pose proof (after_sorted st 0 (b - 1) finish WF) as S. replace (N.max 0 (b - 1)) with (b - 1) in S by lia. exact S. }
  set (last := snd (plan_loop b 0 recs)).
  set (x := from_of b last).
  destruct (from_after_loop recs b 0 ltac:(rewrite F0; exact B0) ltac:(rewrite F0; exact SR)) as [XB XK]. rewrite F0 in XB, XK.
  fold last in XB, XK. fold x in XB, XK.
  assert (KBf : forall k raw, In (k, raw) st -> k < n).
  { intros k raw I. unfold keys_below in KB. rewrite forallb_forall in KB. specialize (KB _ I). cbn [fst] in KB. apply N.ltb_lt. exact KB. }
  assert (INR : forall k raw, In (k, raw) recs <-> In (k, raw) st /\ b <= k <= finish).
  { intros. unfold recs. rewrite after_in. split; intros (A & C); (split; [exact A|lia]). }
  set (hi := if (e =? 0) || (n <=? e) then n - 1 else e).
  assert (FIN : forall k raw, In (k, raw) st -> b <= k -> k <= hi -> k <= finish).
  { intros k raw I K1 K2. unfold finish, finish_of, hi in *. destruct (e =? 0) eqn:Z.
    - eapply store_last_ge; eauto.
    - cbn [orb] in K2. destruct (n <=? e) eqn:Q; [apply N.leb_le in Q; specialize (KBf _ _ I); lia|exact K2]. }
  assert (RHI : forall k raw, In (k, raw) recs -> k <= hi).
  { intros k raw I. apply INR in I. destruct I as (I1 & I2 & I3). specialize (KBf _ _ I1).
    unfold hi, finish, finish_of in *. destruct (e =? 0); cbn [orb]; [lia|]. destruct (n <=? e); lia. }
  assert (HIN : hi < n \/ hi = 0).
  { unfold hi. destruct ((e =? 0) || (n <=? e)) eqn:Q; [lia|]. apply orb_false_iff in Q. destruct Q as [_ Q]. apply N.leb_gt in Q. lia. }
  (* numbers of the range that are not records hold nothing *)
  assert (UNSALL : forall y, b <= y -> y <= hi -> (forall raw, ~ In (y, raw) recs) -> store_get y st = None).
  { intros y Y1 Y2 NI. apply store_get_none. intros raw I. apply (NI raw). apply INR. split; [exact I|].
    split; [exact Y1|]. eapply FIN; eauto. }
  set (ns := if n <=? x then x + 1 else n).
  assert (XNS : x < ns) by (unfold ns; destruct (n <=? x) eqn:Q; [lia|apply N.leb_gt in Q; lia]).
  assert (PF : plan_final n b last = (PGap x ns, ns)).
  { unfold plan_final, ns, x, from_of. destruct (last =? 0) eqn:Z; [reflexivity|].
    replace (last + 2) with (last + 1 + 1) by lia. reflexivity. }
  assert (PE : plan st n b e = ((fst (plan_loop b 0 recs) ++ [PGap x ns])%list, ns)).
  { unfold plan. fold finish. fold recs. unfold last in PF. destruct (plan_loop b 0 recs) as [li la] eqn:PL. cbn [fst snd] in *.
    rewrite PF. reflexivity. }
  rewrite PE in *. cbn [fst snd] in *.
  apply Forall2_app_inv_l in AB. destruct AB as (its & gl & AB1 & AB2 & ->).
  inversion AB2 as [|p i ps is G1 G2]; subst. inversion G2; subst. cbn [abs1] in G1. subst i.
  (* no gap fill skips a stored message *)
  assert (SKL : forallb (gap_skips_nothing st) its = true).
  { apply (loop_items_skip st (fst (plan_loop b 0 recs))); [|exact AB1].
    intros a k I k' raw' J [Q1 Q2].
    destruct (loop_gaps_exact recs b 0 a k ltac:(rewrite F0; exact B0) ltac:(rewrite F0; exact SR) I) as (A1 & A2 & (raw & A3) & A4 & _).
    rewrite F0 in A1. apply INR in A3. destruct A3 as (A3 & A3' & A3'').
    apply (A4 k' raw'); [|lia]. apply INR. split; [exact J|lia]. }
  assert (SKIP : gap_skips_nothing st (IGap x ns) = true).
  { cbn [gap_skips_nothing]. apply forallb_forall. intros [k raw] I. cbn [fst]. apply negb_true_iff. apply andb_false_iff.
    destruct (x <=? k) eqn:Q1; [right|left; reflexivity]. apply N.leb_le in Q1. apply N.ltb_ge.
    destruct (N.le_gt_cases ns k) as [|Q2]; [assumption|exfalso].
    pose proof (KBf _ _ I) as KN.
    destruct (N.le_gt_cases k hi) as [K2|K2].
    - pose proof (FIN _ _ I ltac:(lia) K2) as K4. assert (J : In (k, raw) recs) by (apply INR; split; [exact I|lia]).
      specialize (XK _ _ J). lia.
    - unfold hi in K2. unfold nothing_stored_beyond in NB. destruct (e =? 0) eqn:Z; cbn [orb] in *; [lia|].
      destruct (n <=? e) eqn:Q; [lia|]. rewrite forallb_forall in NB. specialize (NB _ I). cbn [fst] in NB.
      apply negb_true_iff in NB. apply andb_false_iff in NB. destruct NB as [NB|NB]; apply N.ltb_ge in NB; lia. }
  unfold replay_ok. fold hi.
  rewrite forallb_app, SKL. cbn [forallb andb]. rewrite SKIP. cbn [andb].
  rewrite last_newseq_app. cbn [last_newseq]. rewrite N.eqb_refl, andb_true_r.
  destruct (b <=? hi) eqn:BH.
  - apply N.leb_le in BH.
    set (cnt := N.to_nat (hi + 1 - b)).
    destruct (walk_loop st 0 recs b 0 cnt 0 its [IGap x ns] WF ltac:(rewrite F0; exact B0) ltac:(rewrite F0; exact SR) ltac:(lia))
      as (cover' & c' & E & C' & EQ); try exact AB1.
    + rewrite F0. intros k raw I. split; [apply INR in I; tauto|]. specialize (RHI _ _ I). unfold cnt. lia.
    + rewrite F0. intros y k raw I Y NI. apply UNSALL; try lia; [|exact NI]. specialize (RHI _ _ I). lia.
    + rewrite F0 in E, EQ. fold last in E, C', EQ. fold x in E, C', EQ. rewrite E.
      assert (XE : x + N.of_nat c' = hi + 1) by (unfold cnt in EQ; lia).
      destruct c' as [|c].
      * cbn [nrange walk forallb tail_ok].
        replace (hi <? x) with true by (symmetry; apply N.ltb_lt; cbn in XE; lia).
        replace (x <? ns) with true by (symmetry; apply N.ltb_lt; exact XNS). reflexivity.
      * rewrite Nat2N.inj_succ in XE.
        assert (UX : forall y, x <= y -> y <= hi -> store_get y st = None).
        { intros y Y1 Y2. apply UNSALL; [lia|exact Y2|]. intros raw I. specialize (XK _ _ I). lia. }
        cbn [nrange walk]. rewrite (UX x) by lia.
        replace (x <? cover') with false by (symmetry; apply N.ltb_ge; exact C').
        rewrite N.eqb_refl. replace (x <? ns) with true by (symmetry; apply N.ltb_lt; exact XNS). cbn [andb].
        rewrite walk_covered; [reflexivity|].
        intros k K. split; [apply UX; lia|].
        unfold ns. destruct (n <=? x) eqn:Q; [apply N.leb_le in Q|apply N.leb_gt in Q]; lia.
  - apply N.leb_gt in BH.
    assert (RE : recs = []).
    { destruct recs as [|[k0 raw0] r'] eqn:RQ; [reflexivity|]. exfalso.
      pose proof (RHI k0 raw0 (or_introl eq_refl)). pose proof (XK k0 raw0 (or_introl eq_refl)). lia. }
    assert (XB' : x = b) by (unfold x, last; rewrite RE; reflexivity).
    rewrite RE in AB1. cbn [plan_loop fst] in AB1. inversion AB1; subst its. cbn [app walk forallb tail_ok].
    rewrite XB' in *.
    replace (hi <? b) with true by (symmetry; apply N.ltb_lt; exact BH).
    replace (b <? ns) with true by (symmetry; apply N.ltb_lt; exact XNS). reflexivity.
Qed.
