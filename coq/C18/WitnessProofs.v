(* C18: concrete witnesses (computed with the full session model on the schema of Witness.v). *)
From Coq Require Import NArith ZArith List Bool Lia.
From F8 Require Import Sess.Bytes Sess.Msg Sess.Persist Sess.Session Sess.SimpleCodec Sess.Wire Sess.SessLemmas.
From F8 Require Import C18.Spec_C18 C18.Replay C18.ReplayProofs C18.PlanProofs C18.FaithProofs C18.C18Proofs C18.Witness C18.Exact.
Import ListNotations.
Local Open Scope N_scope.

(* the judged items of the last step of the model's trace *)
Definition answer_items (sc : schema) (line : bytes) : list item :=
  outs (st_events (last (run_history sc (parse_history line)) (mkStep [] None))).

Definition brief (it : item) : item :=
  match it with IMsg t => IMsg (filter (fun tv => beq (fst tv) (dec T_MsgSeqNum) || beq (fst tv) (dec T_MsgType)) t) | x => x end.

(* F22 repaired (/repo 930506b): store {3}, next_send 4, request [1,0]: the gap 1..2 is announced as 34=1 36=3,
   and the oracle accepts the trace *)
Theorem gapfill_seq_repaired :
  c18_ok_line line_f22 (run_line schema0 line_f22) = true /\
  c18_judged_line line_f22 (run_line schema0 line_f22) = 1 /\
  map brief (answer_items schema0 line_f22) =
    [IGap 1 3; IMsg [(dec T_MsgType, [68]); (dec T_MsgSeqNum, dec 3)]; IGap 4 5].
Proof. repeat split; vm_compute; reflexivity. Qed.

(* store {2,4}, next_send 5, request [2,3]: the final gap fill announces 5 and thereby skips the stored 4 *)
Theorem overreach_refuted :
  c18_ok_line line_overreach (run_line schema0 line_overreach) = false /\
  map brief (answer_items schema0 line_overreach) =
    [IMsg [(dec T_MsgType, [68]); (dec T_MsgSeqNum, dec 2)]; IGap 3 5].
Proof. split; vm_compute; reflexivity. Qed.

(* always_seqnum_assign on: store {2}, next_send 3, request [2,6]: the one stored message goes out five
   times, numbered 3..7, and the final gap fill re-uses 7 (each copy is stored under its new number and found again by the live iteration) *)
Theorem asa_refuted :
  map brief (answer_items schema0 line_asa) =
    [IMsg [(dec T_MsgType, [68]); (dec T_MsgSeqNum, dec 3)]; IMsg [(dec T_MsgType, [68]); (dec T_MsgSeqNum, dec 4)];
     IMsg [(dec T_MsgType, [68]); (dec T_MsgSeqNum, dec 5)]; IMsg [(dec T_MsgType, [68]); (dec T_MsgSeqNum, dec 6)];
     IMsg [(dec T_MsgType, [68]); (dec T_MsgSeqNum, dec 7)]; IGap 7 8].
Proof. vm_compute. reflexivity. Qed.

(* the oracle accepts a complete replay *)
Theorem good_accepted :
  c18_ok_line line_good (run_line schema0 line_good) = true /\
  c18_judged_line line_good (run_line schema0 line_good) = 1.
Proof. split; vm_compute; reflexivity. Qed.

(* ---- the hypotheses of the general theorems are met by a non-trivial state ------------------------------- *)
Definition world_after (sc : schema) (ops : list op) : world :=
  fold_left (fun w o => fst (snapshot (fst (run_op sc w o)))) ops world0.

Definition w_f22 : world := world_after schema0 (parse_history line_f22_prefix).
Definition s_f22 : sess :=
  match w_sess w_f22 with Some s => s | None => new_session default_sp (p_empty PNone) end.
Definition m_f22 : msg :=
  match dec_fn schema0 req_f22 with DecOk m => m | DecExc _ _ => new_msg [] end.

Theorem nonvacuous :
  schema_ok schema0 = true /\ nosoh (s_snd s_f22) = true /\ nosoh (s_tgt s_f22) = true /\
  ready schema0 (dec_fn schema0) (w_now w_f22) s_f22 2 m_f22 /\
  ready_store (dec_fn schema0) s_f22 /\
  forallb (record_ok (dec_fn schema0)) (p_store (s_per s_f22)) = true /\
  range_bad (req_begin m_f22) (req_end m_f22) = false /\
  map fst (p_store (s_per s_f22)) = [3] /\ s_next_send s_f22 = 4 /\ req_begin m_f22 = 1 /\ req_end m_f22 = 0 /\
  gaps (fst (plan (p_store (s_per s_f22)) (s_next_send s_f22) (req_begin m_f22) (req_end m_f22))) = [(1, 3); (4, 5)] /\
  map fst (resent (fst (plan (p_store (s_per s_f22)) (s_next_send s_f22) (req_begin m_f22) (req_end m_f22)))) = [3].
Proof.
  split; [vm_compute; reflexivity|]. split; [vm_compute; reflexivity|]. split; [vm_compute; reflexivity|].
  split.
  { unfold ready. split; [exists false; vm_compute; reflexivity|]. repeat split; vm_compute; reflexivity. }
  split.
  { unfold ready_store. repeat split; try (vm_compute; reflexivity). vm_compute. discriminate. }
  repeat split; vm_compute; reflexivity.
Qed.

(* ... and those of the oracle-level theorem answer_ok_partial, by a state with two stored messages *)
Definition w_good : world := world_after schema0 (parse_history line_good_prefix).
Definition s_good : sess :=
  match w_sess w_good with Some s => s | None => new_session default_sp (p_empty PNone) end.
Definition m_good : msg :=
  match dec_fn schema0 req_good with DecOk m => m | DecExc _ _ => new_msg [] end.

Theorem nonvacuous_oracle :
  schema_ok schema0 = true /\ nosoh (s_snd s_good) = true /\ nosoh (s_tgt s_good) = true /\
  (exists r, enforce schema0 (w_now w_good) 2 m_good s_good = (inl r, s_good, [])) /\
  (s_state s_good =? st_resend_request_received) = false /\ s_closed s_good = false /\ s_batch s_good = [] /\
  pr_asa (s_par s_good) = false /\ p_attached (s_per s_good) = true /\
  store_wf (p_store (s_per s_good)) = true /\
  forallb (record_ok (dec_fn schema0)) (p_store (s_per s_good)) = true /\
  forallb (Exact.exact_ok schema0 (dec_fn schema0)) (p_store (s_per s_good)) = true /\
  keys_below (s_next_send s_good) (p_store (s_per s_good)) = true /\
  range_bad (req_begin m_good) (req_end m_good) = false /\
  nothing_stored_beyond (p_store (s_per s_good)) (s_next_send s_good) (req_end m_good) = true /\
  map fst (p_store (s_per s_good)) = [2; 3] /\ s_next_send s_good = 4 /\ req_begin m_good = 2 /\ req_end m_good = 0.
Proof.
  split; [vm_compute; reflexivity|]. split; [vm_compute; reflexivity|]. split; [vm_compute; reflexivity|].
  split; [exists false; vm_compute; reflexivity|].
  repeat split; vm_compute; reflexivity.
Qed.

(* ---- requests that arrive in a state other than continuous ---------------------------------------------------- *)
(* the states after each operation *)
Definition states_of (line : bytes) : list N :=
  map (fun s => match st_snap s with Some sn => sn_state sn | None => 0 end) (run_history schema0 (parse_history line)).
(* the same trace with the OUT events of the last step removed: what a session that silently drops the request prints *)
Definition drop_answer (tr : trace) : trace :=
  match rev tr with
  | l :: r => rev (mkStep (filter (fun e => match e with EOut _ => false | _ => true end) (st_events l)) (st_snap l) :: r)
  | [] => []
  end.
Definition judged_ok_dropped_bad (line : bytes) : bool * N * bool :=
  (c18_ok_line line (run_line schema0 line), c18_judged_line line (run_line schema0 line),
   c18_ok (parse_history line) (drop_answer (run_history schema0 (parse_history line)))).

(* store {2,3}, request [2,0] delivered (a) with its own number ahead of the expected one, (b) while a
   TestRequest is pending (state 9), (c) while our ResendRequest is pending (state 12): the model answers in
   full, the oracle judges the step and accepts it, and rejects the same trace with the answer left out *)
Theorem states_judged :
  judged_ok_dropped_bad line_ahead = (true, 1, false) /\
  judged_ok_dropped_bad line_testreq = (true, 1, false) /\ nth 7 (states_of line_testreq) 0 = st_test_request_sent /\
  judged_ok_dropped_bad line_sent = (true, 1, false) /\ nth 7 (states_of line_sent) 0 = st_resend_request_sent /\
  map brief (answer_items schema0 line_ahead) =
    [IMsg [(dec T_MsgType, [50]); (dec T_MsgSeqNum, dec 4)];
     IMsg [(dec T_MsgType, [68]); (dec T_MsgSeqNum, dec 2)]; IMsg [(dec T_MsgType, [68]); (dec T_MsgSeqNum, dec 3)];
     IGap 4 5].
Proof. repeat split; vm_compute; reflexivity. Qed.

(* F22 before the repair, on Session.retrans_record_orig in the same state (store {3}, next_send 4, request
   [1,0]): the callback for record 3 first emits a gap fill that the oracle's parser reads as 34=4 36=3 *)
Definition orig_first_item : item :=
  match p_store (s_per s_f22) with
  | (k, raw) :: _ =>
    match retrans_record_orig schema0 (dec_fn schema0) (w_now w_f22) (req_begin m_f22) 0 k raw s_f22 with
    | (_, _, EOut w :: _) => parse_out w
    | _ => IBad
    end
  | [] => IBad
  end.
Theorem gapfill_seq_orig_witness : orig_first_item = IGap 4 3.
Proof. vm_compute. reflexivity. Qed.
