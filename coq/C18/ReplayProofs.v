(* C18: the session model executes the replay plan -- proofs. *)
From Coq Require Import NArith ZArith List Bool Lia.
From F8 Require Import Sess.Bytes Sess.Msg Sess.Persist Sess.Session Sess.SessLemmas C18.Replay.
Import ListNotations.
Local Open Scope N_scope.

(* ---- projections through add_hdr' / add_body' / set_custom ------------------------------------------ *)
Lemma add_hdr'_type : forall sc t v m, m_type (add_hdr' sc t v m) = m_type m.
Proof. intros. unfold add_hdr', add_hdr. destruct (assoc t (sc_hdr sc)); reflexivity. Qed.
Lemma add_hdr'_body : forall sc t v m, m_body (add_hdr' sc t v m) = m_body m.
Proof. intros. unfold add_hdr', add_hdr. destruct (assoc t (sc_hdr sc)); reflexivity. Qed.
Lemma add_hdr'_custom : forall sc t v m, m_custom (add_hdr' sc t v m) = m_custom m.
Proof. intros. unfold add_hdr', add_hdr. destruct (assoc t (sc_hdr sc)); reflexivity. Qed.
Lemma add_hdr'_noinc : forall sc t v m, m_noinc (add_hdr' sc t v m) = m_noinc m.
Proof. intros. unfold add_hdr', add_hdr. destruct (assoc t (sc_hdr sc)); reflexivity. Qed.
Lemma add_hdr'_eob : forall sc t v m, m_eob (add_hdr' sc t v m) = m_eob m.
Proof. intros. unfold add_hdr', add_hdr. destruct (assoc t (sc_hdr sc)); reflexivity. Qed.

Lemma add_body'_type : forall sc t v m, m_type (add_body' sc t v m) = m_type m.
Proof.
  intros. unfold add_body', add_body. destruct (find_def (m_type m) (sc_msgs sc)); [|reflexivity].
  destruct (assoc t (d_pos m0)); reflexivity.
Qed.
Lemma add_body'_hdr : forall sc t v m, m_hdr (add_body' sc t v m) = m_hdr m.
Proof.
  intros. unfold add_body', add_body. destruct (find_def (m_type m) (sc_msgs sc)); [|reflexivity].
  destruct (assoc t (d_pos m0)); reflexivity.
Qed.
Lemma add_body'_custom : forall sc t v m, m_custom (add_body' sc t v m) = m_custom m.
Proof.
  intros. unfold add_body', add_body. destruct (find_def (m_type m) (sc_msgs sc)); [|reflexivity].
  destruct (assoc t (d_pos m0)); reflexivity.
Qed.
Lemma add_body'_noinc : forall sc t v m, m_noinc (add_body' sc t v m) = m_noinc m.
Proof.
  intros. unfold add_body', add_body. destruct (find_def (m_type m) (sc_msgs sc)); [|reflexivity].
  destruct (assoc t (d_pos m0)); reflexivity.
Qed.
Lemma add_body'_eob : forall sc t v m, m_eob (add_body' sc t v m) = m_eob m.
Proof.
  intros. unfold add_body', add_body. destruct (find_def (m_type m) (sc_msgs sc)); [|reflexivity].
  destruct (assoc t (d_pos m0)); reflexivity.
Qed.

Lemma get_hdr_add_other : forall sc t v m t', t' <> t ->
  get_field t' (m_hdr (add_hdr' sc t v m)) = get_field t' (m_hdr m).
Proof.
  intros. unfold add_hdr', add_hdr. destruct (assoc t (sc_hdr sc)); [|reflexivity].
  cbn [m_hdr]. apply get_add_other. assumption.
Qed.
Lemma has_hdr_add_other : forall sc t v m t', t' <> t ->
  has_field t' (m_hdr (add_hdr' sc t v m)) = has_field t' (m_hdr m).
Proof. intros. unfold has_field. rewrite get_hdr_add_other by assumption. reflexivity. Qed.

(* the generated gap fill *)
Lemma gsr_type : forall sc ns g, m_type (generate_sequence_reset sc ns g) = mt_sequence_reset.
Proof. intros. unfold generate_sequence_reset. destruct g; rewrite ?add_body'_type; reflexivity. Qed.
Lemma gsr_hdr : forall sc ns g, m_hdr (generate_sequence_reset sc ns g) = [].
Proof. intros. unfold generate_sequence_reset. destruct g; rewrite ?add_body'_hdr; reflexivity. Qed.
Lemma gsr_custom : forall sc ns g, m_custom (generate_sequence_reset sc ns g) = 0.
Proof. intros. unfold generate_sequence_reset. destruct g; rewrite ?add_body'_custom; reflexivity. Qed.
Lemma gsr_eob : forall sc ns g, m_eob (generate_sequence_reset sc ns g) = true.
Proof. intros. unfold generate_sequence_reset. destruct g; rewrite ?add_body'_eob; reflexivity. Qed.
Lemma gsr_noinc : forall sc ns g, m_noinc (generate_sequence_reset sc ns g) = false.
Proof. intros. unfold generate_sequence_reset. destruct g; rewrite ?add_body'_noinc; reflexivity. Qed.

(* ---- the live iteration over a sorted store ---------------------------------------------------------------- *)
Lemma sorted_from_lt : forall l lo k v, sorted_from lo l = true -> In (k, v) l -> lo < k.
Proof.
  induction l as [|[a w] l IH]; intros lo k v S I; [destruct I|].
  cbn [sorted_from] in S. apply andb_true_iff in S. destruct S as [S1 S2]. apply N.ltb_lt in S1.
  destruct I as [I|I]; [inversion I; subst; exact S1|]. specialize (IH _ _ _ S2 I). lia.
Qed.

Lemma sorted_from_weaken : forall l lo lo', sorted_from lo l = true -> lo' <= lo -> sorted_from lo' l = true.
Proof.
  destruct l as [|[a w] l]; intros lo lo' S L; [reflexivity|].
  cbn [sorted_from] in *. apply andb_true_iff in S. destruct S as [S1 S2]. apply N.ltb_lt in S1.
  apply andb_true_iff. split; [apply N.ltb_lt; lia|exact S2].
Qed.

Lemma after_nil_above : forall l lo cur finish, sorted_from lo l = true -> finish <= lo -> after cur finish l = [].
Proof.
  intros l lo cur finish S L. unfold after.
  induction l as [|[a w] l IH] in lo, S, L |- *; [reflexivity|].
  cbn [filter fst]. cbn [sorted_from] in S. apply andb_true_iff in S. destruct S as [S1 S2]. apply N.ltb_lt in S1.
  replace (a <=? finish) with false by (symmetry; apply N.leb_gt; lia). rewrite andb_false_r.
  apply (IH a); [exact S2|lia].
Qed.

Lemma after_shift : forall l lo cur cur' finish, sorted_from lo l = true -> cur <= lo -> cur' <= lo ->
  after cur finish l = after cur' finish l.
Proof.
  intros l lo cur cur' finish S L L'. unfold after. apply filter_ext_in. intros [k v] I. cbn [fst].
  pose proof (sorted_from_lt _ _ _ _ S I) as Q.
  replace (cur <? k) with true by (symmetry; apply N.ltb_lt; lia).
  replace (cur' <? k) with true by (symmetry; apply N.ltb_lt; lia). reflexivity.
Qed.

Lemma store_next_after : forall l lo cur finish, sorted_from lo l = true ->
  match store_next cur l with
  | None => after cur finish l = []
  | Some (k, raw) => cur < k /\ In (k, raw) l /\
      (if finish <? k then after cur finish l = [] else after cur finish l = (k, raw) :: after k finish l)
  end.
Proof.
  induction l as [|[a w] l IH]; intros lo cur finish S; [reflexivity|].
  cbn [store_next]. cbn [sorted_from] in S. apply andb_true_iff in S. destruct S as [S1 S2].
  destruct (cur <? a) eqn:C.
  - apply N.ltb_lt in C. split; [exact C|]. split; [left; reflexivity|].
    unfold after at 1 2. cbn [filter fst]. replace (cur <? a) with true by (symmetry; apply N.ltb_lt; lia).
    destruct (finish <? a) eqn:F.
    + apply N.ltb_lt in F. replace (a <=? finish) with false by (symmetry; apply N.leb_gt; lia). cbn [andb].
      apply (after_nil_above l a); [exact S2|lia].
    + apply N.ltb_ge in F. replace (a <=? finish) with true by (symmetry; apply N.leb_le; lia). cbn [andb].
      f_equal. fold (after cur finish l).
      transitivity (after a finish l); [apply (after_shift l a); [exact S2|lia|lia]|].
      unfold after. cbn [filter fst]. rewrite N.ltb_irrefl. reflexivity.
  - apply N.ltb_ge in C. specialize (IH a cur finish S2).
    destruct (store_next cur l) as [[k raw]|].
    + destruct IH as (I1 & I2 & I3). split; [exact I1|]. split; [right; exact I2|].
      unfold after at 1 2. cbn [filter fst]. replace (cur <? a) with false by (symmetry; apply N.ltb_ge; lia). cbn [andb].
      fold (after cur finish l).
      destruct (finish <? k); [exact I3|]. rewrite I3. f_equal.
      unfold after. cbn [filter fst].
      pose proof (sorted_from_lt _ _ _ _ S2 I2) as Q.
      replace (k <? a) with false by (symmetry; apply N.ltb_ge; lia). reflexivity.
    + unfold after. cbn [filter fst]. replace (cur <? a) with false by (symmetry; apply N.ltb_ge; lia). exact IH.
Qed.

(* number of records with keys in (cur, finish] *)
Lemma after_length : forall l lo cur finish, sorted_from lo l = true ->
  N.of_nat (length (after cur finish l)) <= finish - cur.
Proof.
  induction l as [|[a w] l IH]; intros lo cur finish S; [cbn; lia|].
  cbn [sorted_from] in S. apply andb_true_iff in S. destruct S as [S1 S2]. apply N.ltb_lt in S1.
  unfold after. cbn [filter fst]. fold (after cur finish l).
  destruct ((cur <? a) && (a <=? finish)) eqn:C.
  - apply andb_true_iff in C. destruct C as [C1 C2]. apply N.ltb_lt in C1. apply N.leb_le in C2.
    cbn [length]. rewrite Nat2N.inj_succ.
    rewrite (after_shift l a cur a finish S2) by lia.
    specialize (IH a a finish S2). lia.
  - apply (IH a cur finish S2).
Qed.

Lemma after_length_le : forall l cur finish, (length (after cur finish l) <= length l)%nat.
Proof.
  intros. unfold after. induction l as [|x l IH]; [apply le_n|]. cbn [filter length].
  destruct ((cur <? fst x) && (fst x <=? finish)); cbn [length]; lia.
Qed.

Lemma after_empty_range : forall l b finish, 0 < b -> finish < b -> after (b - 1) finish l = [].
Proof.
  intros l b finish B F. unfold after. induction l as [|[k v] l IH]; [reflexivity|].
  cbn [filter fst]. rewrite IH.
  destruct (b - 1 <? k) eqn:C1; [|reflexivity]. apply N.ltb_lt in C1.
  replace (k <=? finish) with false by (symmetry; apply N.leb_gt; lia). reflexivity.
Qed.

Lemma store_next_least : forall l lo cur a raw, sorted_from lo l = true -> store_next cur l = Some (a, raw) ->
  forall k v, In (k, v) l -> cur < k -> a <= k.
Proof.
  induction l as [|[x w] l IH]; intros lo cur a raw S E k v I C; [destruct I|].
  cbn [sorted_from] in S. apply andb_true_iff in S. destruct S as [S1 S2].
  cbn [store_next] in E. destruct (cur <? x) eqn:Q.
  - inversion E; subst. destruct I as [I|I]; [inversion I; lia|].
    pose proof (sorted_from_lt _ _ _ _ S2 I). lia.
  - apply N.ltb_ge in Q. destruct I as [I|I]; [inversion I; subst; lia|].
    eapply IH; eauto.
Qed.

Section P.
Variable sc : schema.
Variable now : Z.
Definition touch (s : sess) : sess := w_batch [] (w_last_sent now s).

Lemma out_events_encode : forall m, nosoh (sc_begin sc) = true -> out_events (encode sc m) = [EOut (encode sc m)].
Proof.
  intros m W. unfold out_events.
  pose proof (frames_encodes sc [m] W) as F. cbn [map concat] in F. rewrite app_nil_r in F. rewrite F. reflexivity.
Qed.

Lemma send_process_open : forall s m,
  s_closed s = false -> s_batch s = [] -> m_eob m = true -> nosoh (sc_begin sc) = true ->
  send_process sc now s m =
  let enc := encode sc (fst (stamp sc now s m)) in
  let s1 := touch s in
  if snd (stamp sc now s m) then (true, s1, [EOut enc])
  else
    let increment := (m_custom m =? 0) && negb (m_noinc m) && negb (beq (m_type m) mt_sequence_reset) in
    let per1 := if p_attached (s_per s1) then
        let p0 := if is_admin sc (m_type m) then s_per s1 else p_put (s_per s1) (s_next_send s1) enc in
        p_put_ctrl p0 (if increment then s_next_send s1 + 1 else s_next_send s1) (s_next_recv s1) else s_per s1 in
    let s2 := w_per per1 s1 in
    let s3 := if increment then w_next_send (s_next_send s2 + 1) s2 else s2 in
    (true, s3, [EOut enc]).
Proof.
  intros s m Hc Hb He W. unfold send_process, stamp.
  set (m1 := if has_field T_SenderCompID (m_hdr m) then m else _).
  set (m2 := if has_field T_TargetCompID (m_hdr m1) then m1 else _).
  clearbody m2. clear m1.
  destruct (has_field T_MsgSeqNum (m_hdr m2));
  destruct (has_field T_PossDupFlag (m_hdr m)); destruct (pr_asa (s_par s));
  lazy beta iota zeta; cbn [fst snd]; rewrite He, Hb, Hc; rewrite out_events_encode by exact W; try reflexivity.
Qed.

Definition same_wire (m m' : msg) : Prop := m_type m = m_type m' /\ m_hdr m = m_hdr m' /\ m_body m = m_body m'.
Lemma same_wire_encode : forall m m', same_wire m m' -> encode sc m = encode sc m'.
Proof. intros m m' (A & B & C). unfold encode. rewrite A, B, C. reflexivity. Qed.
Lemma same_wire_add_hdr' : forall t v m m', same_wire m m' -> same_wire (add_hdr' sc t v m) (add_hdr' sc t v m').
Proof.
  intros t v m m' (A & B & C). unfold add_hdr', add_hdr. destruct (assoc t (sc_hdr sc)); unfold same_wire; cbn [m_type m_hdr m_body]; rewrite ?A, ?B, ?C; auto.
Qed.
Lemma same_wire_del_hdr : forall t m m', same_wire m m' -> same_wire (del_hdr t m) (del_hdr t m').
Proof. intros t m m' (A & B & C). unfold del_hdr, same_wire; cbn [m_type m_hdr m_body]; rewrite ?A, ?B, ?C; auto. Qed.

Lemma stamp_same_wire : forall s m m',
  same_wire m m' ->
  (if m_custom m =? 0 then s_next_send s else m_custom m) = (if m_custom m' =? 0 then s_next_send s else m_custom m') ->
  same_wire (fst (stamp sc now s m)) (fst (stamp sc now s m')) /\ snd (stamp sc now s m) = snd (stamp sc now s m').
Proof.
  intros s m m' R Q. unfold stamp. rewrite <- Q.
  assert (H0 : m_hdr m = m_hdr m') by apply R. rewrite <- H0.
  set (m1 := if has_field T_SenderCompID (m_hdr m) then m else _).
  set (m1' := if has_field T_SenderCompID (m_hdr m) then m' else _).
  assert (R1 : same_wire m1 m1').
  { subst m1 m1'. destruct (has_field T_SenderCompID (m_hdr m)); [exact R|apply same_wire_add_hdr'; exact R]. }
  clearbody m1 m1'.
  assert (H1 : m_hdr m1 = m_hdr m1') by apply R1. rewrite <- H1.
  set (m2 := if has_field T_TargetCompID (m_hdr m1) then m1 else _).
  set (m2' := if has_field T_TargetCompID (m_hdr m1) then m1' else _).
  assert (R2 : same_wire m2 m2').
  { subst m2 m2'. destruct (has_field T_TargetCompID (m_hdr m1)); [exact R1|apply same_wire_add_hdr'; exact R1]. }
  clearbody m2 m2'.
  assert (H2 : m_hdr m2 = m_hdr m2') by apply R2. rewrite <- H2.
  destruct (has_field T_MsgSeqNum (m_hdr m2)); destruct (has_field T_PossDupFlag (m_hdr m)); destruct (pr_asa (s_par s));
    lazy beta iota zeta; cbn [fst snd]; (split; [|reflexivity]);
    repeat first [ apply same_wire_add_hdr' | apply same_wire_del_hdr | exact R2 ];
    match goal with |- same_wire (add_hdr' _ _ ?v ?a) (add_hdr' _ _ ?v' ?b) =>
      assert (Rab : same_wire a b) by (repeat first [ apply same_wire_add_hdr' | apply same_wire_del_hdr | exact R2 ]);
      replace v' with v by (destruct Rab as (_ & Hh & _); rewrite Hh; reflexivity);
      apply same_wire_add_hdr'; exact Rab end.
Qed.

(* ---- what the replay leaves untouched ------------------------------------------------------------------- *)
Definition core (s : sess) :=
  (s_par s, s_snd s, s_tgt s, s_closed s, s_batch s, s_next_send s, s_next_recv s, p_store (s_per s), p_kind (s_per s)).

Lemma stamp_core : forall s s' m, core s' = core s -> stamp sc now s' m = stamp sc now s m.
Proof.
  intros s s' m H. unfold core in H. injection H as H1 H2 H3 H4 H5 H6 H7 H8 H9.
  unfold stamp. rewrite H1, H2, H3, H6. reflexivity.
Qed.

Lemma core_touch : forall s, s_batch s = [] -> core (touch s) = core s.
Proof. intros s H. unfold core, touch. cbn. rewrite H. reflexivity. Qed.

Lemma p_put_ctrl_store : forall p a b, p_store (p_put_ctrl p a b) = p_store p.
Proof. intros. unfold p_put_ctrl. destruct (p_kind p); reflexivity. Qed.
Lemma p_put_ctrl_kind : forall p a b, p_kind (p_put_ctrl p a b) = p_kind p.
Proof. intros. unfold p_put_ctrl. destruct (p_kind p) eqn:E; [exact E|reflexivity|reflexivity]. Qed.

Definition after_gap (s : sess) : sess :=
  let s1 := touch s in
  w_per (p_put_ctrl (s_per s1) (s_next_send s1) (s_next_recv s1)) s1.

Lemma core_after_gap : forall s, s_batch s = [] -> core (after_gap s) = core s.
Proof.
  intros s H. unfold core, after_gap, touch. cbn. rewrite H, p_put_ctrl_store, p_put_ctrl_kind. reflexivity.
Qed.

(* ---- is_dup of the two kinds of messages the replay sends ---------------------------------------------- *)
Lemma stamp_dup_resend : forall s m,
  pr_asa (s_par s) = false -> has_field T_MsgSeqNum (m_hdr m) = true -> snd (stamp sc now s m) = true.
Proof.
  intros s m A H. unfold stamp.
  set (m1 := if has_field T_SenderCompID (m_hdr m) then m else _).
  set (m2 := if has_field T_TargetCompID (m_hdr m1) then m1 else _).
  assert (H2 : has_field T_MsgSeqNum (m_hdr m2) = true).
  { subst m2 m1. destruct (has_field T_SenderCompID (m_hdr m)); destruct (has_field T_TargetCompID _);
      rewrite ?has_hdr_add_other by discriminate; exact H. }
  rewrite H2, A. destruct (has_field T_PossDupFlag (m_hdr m)); reflexivity.
Qed.

Lemma stamp_dup_gap : forall s c ns, snd (stamp sc now s (gap_msg sc c ns)) = false.
Proof.
  intros s c ns. unfold stamp.
  assert (Hh : m_hdr (gap_msg sc c ns) = []).
  { unfold gap_msg. destruct (c =? 0); [apply gsr_hdr|]. unfold set_custom. cbn [m_hdr]. apply gsr_hdr. }
  rewrite Hh.
  set (m1 := if has_field T_SenderCompID [] then _ else _).
  set (m2 := if has_field T_TargetCompID (m_hdr m1) then m1 else _).
  assert (H2 : has_field T_MsgSeqNum (m_hdr m2) = false).
  { subst m2 m1. cbn [has_field get_field]. destruct (has_field T_TargetCompID _);
      rewrite ?has_hdr_add_other by discriminate; rewrite Hh; reflexivity. }
  rewrite H2. reflexivity.
Qed.

Lemma gap_msg_type : forall c ns, m_type (gap_msg sc c ns) = mt_sequence_reset.
Proof. intros. unfold gap_msg. destruct (c =? 0); [apply gsr_type|]. unfold set_custom. cbn [m_type]. apply gsr_type. Qed.
Lemma gap_msg_eob : forall c ns, m_eob (gap_msg sc c ns) = true.
Proof. intros. unfold gap_msg. destruct (c =? 0); [apply gsr_eob|]. unfold set_custom. cbn [m_eob]. apply gsr_eob. Qed.

Section Inb.
Variable decode : bytes -> decode_result.

(* the standing hypotheses about the session while it replays *)
Definition replaying (s : sess) : Prop :=
  s_closed s = false /\ s_batch s = [] /\ pr_asa (s_par s) = false /\ p_attached (s_per s) = true.

Lemma replaying_core : forall s s', core s' = core s -> replaying s -> replaying s'.
Proof.
  intros s s' H (A & B & C & D). unfold core in H. injection H as H1 H2 H3 H4 H5 H6 H7 H8 H9.
  unfold replaying. rewrite H1, H4, H5. repeat split; try assumption.
  unfold p_attached in *. rewrite H9. exact D.
Qed.

Hypothesis W : nosoh (sc_begin sc) = true.
Hypothesis ADM : is_admin sc mt_sequence_reset = true.

Lemma do_send_resend : forall s m,
  replaying s -> has_field T_MsgSeqNum (m_hdr m) = true -> m_eob m = true ->
  do_send sc now m 0 false s = (inl true, touch s, [EOut (encode sc (fst (stamp sc now s m)))]).
Proof.
  intros s m (A & B & C & D) H E. unfold do_send, send. cbn [N.eqb].
  rewrite send_process_open by assumption. cbv zeta. rewrite stamp_dup_resend by assumption. reflexivity.
Qed.

Lemma do_send_gap : forall s c ns,
  replaying s ->
  do_send sc now (generate_sequence_reset sc ns true) c false s =
  (inl true, after_gap s, [EOut (encode sc (fst (stamp sc now s (gap_msg sc c ns))))]).
Proof.
  intros s c ns (A & B & C & D). unfold do_send, send. fold (gap_msg sc c ns).
  rewrite send_process_open by (try assumption; apply gap_msg_eob). cbv zeta.
  rewrite stamp_dup_gap. rewrite gap_msg_type, ADM.
  assert (D' : p_attached (s_per (touch s)) = true) by exact D. rewrite D'.
  unfold mt_sequence_reset at 1. rewrite beq_refl. rewrite !andb_false_r. reflexivity.
Qed.

Lemma wire_core : forall s s' it, core s' = core s -> wire sc decode now s' it = wire sc decode now s it.
Proof. intros s s' it H. unfold wire. destruct it; [|destruct (decode raw)]; rewrite ?(stamp_core s s') by exact H; reflexivity. Qed.

Lemma gap_wire_nocustom : forall s k,
  encode sc (fst (stamp sc now s (gap_msg sc 0 k))) = encode sc (fst (stamp sc now s (gap_msg sc (s_next_send s) k))).
Proof.
  intros s k. unfold gap_msg. cbn [N.eqb]. destruct (s_next_send s =? 0) eqn:Z; [reflexivity|].
  apply same_wire_encode. apply stamp_same_wire.
  - unfold same_wire, set_custom. cbn [m_type m_hdr m_body]. auto.
  - unfold set_custom. cbn [m_custom]. rewrite gsr_custom, Z. reflexivity.
Qed.

Definition out (s : sess) (l : list pitem) : list event := map EOut (map (wire sc decode now s) l).

Lemma retrans_record_plan : forall s b last k raw,
  replaying s -> resendable decode (k, raw) = true ->
  exists s', retrans_record sc decode now b last k raw s =
             (inl true, s', out s (gap_before b last k ++ [PMsg k raw]))
             /\ core s' = core s.
Proof.
  intros s b last k raw R D. unfold resendable in D. cbn [snd] in D.
  destruct (decode raw) as [m|] eqn:DE; [|discriminate]. apply andb_true_iff in D. destruct D as [D1 D2].
  assert (Rb : s_batch s = []) by apply R.
  unfold retrans_record, gap_before, out.
  destruct (negb (last =? 0)) eqn:L.
  - destruct (last + 1 <? k) eqn:G.
    + unfold bind. rewrite do_send_gap by exact R. unfold ret. rewrite DE.
      assert (R' : replaying (after_gap s)) by (eapply replaying_core; [apply core_after_gap; exact Rb|exact R]).
      rewrite do_send_resend by assumption.
      exists (touch (after_gap s)). split.
      * cbn [app map wire]. rewrite DE. rewrite (stamp_core s (after_gap s)) by (apply core_after_gap; exact Rb). reflexivity.
      * rewrite core_touch by apply R'. apply core_after_gap; exact Rb.
    + unfold bind, ret. rewrite DE. rewrite do_send_resend by assumption.
      exists (touch s). split; [cbn [app map wire]; rewrite DE; reflexivity|apply core_touch; exact Rb].
  - destruct (b <? k) eqn:G.
    + unfold bind. rewrite do_send_gap by exact R. unfold ret. rewrite DE.
      assert (R' : replaying (after_gap s)) by (eapply replaying_core; [apply core_after_gap; exact Rb|exact R]).
      rewrite do_send_resend by assumption.
      exists (touch (after_gap s)). split.
      * cbn [app map wire]. rewrite DE. rewrite (stamp_core s (after_gap s)) by (apply core_after_gap; exact Rb).
        reflexivity.
      * rewrite core_touch by apply R'. apply core_after_gap; exact Rb.
    + unfold bind, ret. rewrite DE. rewrite do_send_resend by assumption.
      exists (touch s). split; [cbn [app map wire]; rewrite DE; reflexivity|apply core_touch; exact Rb].
Qed.

(* the callback as it was before /repo 930506b (F22): both gap fills carry next_send *)
Lemma retrans_record_orig_plan : forall s b last k raw,
  replaying s -> resendable decode (k, raw) = true ->
  exists s', retrans_record_orig sc decode now b last k raw s =
             (inl true, s', out s (gap_before_orig (s_next_send s) b last k ++ [PMsg k raw]))
             /\ core s' = core s.
Proof.
  intros s b last k raw R D. unfold resendable in D. cbn [snd] in D.
  destruct (decode raw) as [m|] eqn:DE; [|discriminate]. apply andb_true_iff in D. destruct D as [D1 D2].
  assert (Rb : s_batch s = []) by apply R.
  unfold retrans_record_orig, gap_before_orig, out. unfold bind at 1. unfold get at 1.
  destruct (negb (last =? 0)) eqn:L.
  - destruct (last + 1 <? k) eqn:G.
    + unfold bind. rewrite do_send_gap by exact R. unfold ret. rewrite DE.
      assert (R' : replaying (after_gap s)) by (eapply replaying_core; [apply core_after_gap; exact Rb|exact R]).
      rewrite do_send_resend by assumption.
      exists (touch (after_gap s)). split.
      * cbn [app map wire]. rewrite DE. rewrite (stamp_core s (after_gap s)) by (apply core_after_gap; exact Rb). reflexivity.
      * rewrite core_touch by apply R'. apply core_after_gap; exact Rb.
    + unfold bind, ret. rewrite DE. rewrite do_send_resend by assumption.
      exists (touch s). split; [cbn [app map wire]; rewrite DE; reflexivity|apply core_touch; exact Rb].
  - destruct (b <? k) eqn:G.
    + unfold bind. rewrite do_send_gap by exact R. unfold ret. rewrite DE.
      assert (R' : replaying (after_gap s)) by (eapply replaying_core; [apply core_after_gap; exact Rb|exact R]).
      rewrite do_send_resend by assumption.
      exists (touch (after_gap s)). split.
      * cbn [app map wire]. rewrite DE. rewrite (stamp_core s (after_gap s)) by (apply core_after_gap; exact Rb).
        rewrite gap_wire_nocustom. reflexivity.
      * rewrite core_touch by apply R'. apply core_after_gap; exact Rb.
    + unfold bind, ret. rewrite DE. rewrite do_send_resend by assumption.
      exists (touch s). split; [cbn [app map wire]; rewrite DE; reflexivity|apply core_touch; exact Rb].
Qed.

Lemma out_core : forall s s' l, core s' = core s -> out s' l = out s l.
Proof. intros. unfold out. f_equal. apply map_ext. intro it. apply wire_core. assumption. Qed.
Lemma out_app : forall s a b, out s (a ++ b) = (out s a ++ out s b)%list.
Proof. intros. unfold out. rewrite !map_app. reflexivity. Qed.

Lemma core_store : forall s s', core s' = core s -> p_store (s_per s') = p_store (s_per s).
Proof. intros s s' H. unfold core in H. injection H as H1 H2 H3 H4 H5 H6 H7 H8 H9. exact H8. Qed.
Lemma core_send : forall s s', core s' = core s -> s_next_send s' = s_next_send s.
Proof. intros s s' H. unfold core in H. injection H as H1 H2 H3 H4 H5 H6 H7 H8 H9. exact H6. Qed.

Section Loop.
Variable s0 : sess.
Variable lo b finish : N.
Hypothesis R0 : replaying s0.
Hypothesis SORT : sorted_from lo (p_store (s_per s0)) = true.
Hypothesis DEC : forallb (resendable decode) (p_store (s_per s0)) = true.

Lemma retrans_loop_plan : forall fuel s last cur,
  core s = core s0 ->
  (length (after cur finish (p_store (s_per s0))) < fuel)%nat ->
  exists s', retrans_loop sc decode now fuel b finish last cur s =
             (inl (snd (plan_loop b last (after cur finish (p_store (s_per s0))))), s',
              out s0 (fst (plan_loop b last (after cur finish (p_store (s_per s0))))))
             /\ core s' = core s0.
Proof.
  induction fuel as [|f IH]; intros s last cur C F; [lia|].
  cbn [retrans_loop]. unfold bind at 1. unfold get at 1.
  unfold p_next_after. rewrite (core_store _ _ C).
  pose proof (store_next_after (p_store (s_per s0)) lo cur finish SORT) as SN.
  destruct (store_next cur (p_store (s_per s0))) as [[k raw]|].
  - destruct SN as (S1 & S2 & S3). destruct (finish <? k).
    + rewrite S3. cbn [plan_loop fst snd]. unfold ret. exists s. split; [reflexivity|exact C].
    + rewrite S3 in *. cbn [length] in F.
      assert (RS : replaying s) by (eapply replaying_core; [exact C|exact R0]).
      assert (RK : resendable decode (k, raw) = true).
      { rewrite forallb_forall in DEC. apply DEC. exact S2. }
      destruct (retrans_record_plan s b last k raw RS RK) as (s1 & E1 & C1).
      unfold bind. rewrite E1.
      assert (C1' : core s1 = core s0) by (rewrite C1; exact C).
      destruct (IH s1 k k C1' ltac:(lia)) as (s2 & E2 & C2). rewrite E2.
      exists s2. split; [|exact C2].
      cbn [plan_loop]. destruct (plan_loop b k (after k finish (p_store (s_per s0)))) as [items last'].
      cbn [fst snd]. f_equal.
      rewrite (out_core s0 s) by exact C.
      rewrite <- out_app. rewrite <- app_assoc. reflexivity.
  - rewrite SN. cbn [plan_loop fst snd]. unfold ret. exists s. split; [reflexivity|exact C].
Qed.
End Loop.

Lemma retrans_final_plan : forall s b n last,
  replaying s ->
  retrans_final sc now b n last s =
  (inl tt, w_state st_continuous (w_next_send (snd (plan_final n b last)) (after_gap s)),
   out s [fst (plan_final n b last)]).
Proof.
  intros s b n last R. unfold retrans_final, plan_final. destruct (last =? 0); cbv zeta.
  - unfold bind. rewrite do_send_gap by exact R. unfold set_state, modify. cbn [fst snd app out map wire]. reflexivity.
  - unfold bind. rewrite do_send_gap by exact R. unfold set_state, modify. cbn [fst snd app out map wire]. reflexivity.
Qed.

(* ---- the whole answer ------------------------------------------------------------------------------------ *)
Definition req_begin (m : msg) : N := int_field (get_field T_BeginSeqNo (m_body m)).
Definition req_end (m : msg) : N := int_field (get_field T_EndSeqNo (m_body m)).
Definition range_bad (b e : N) : bool := ((e <? b) && negb (e =? 0)) || (b =? 0).

(* what handle_resend_request does after enforce(seqnum, msg): the same text as in Sess.Session *)
Definition resend_body (seqnum : N) (m : msg) : M bool :=
  bind get (fun s =>
  if negb (s_state s =? st_resend_request_received) then
    let b := int_field (get_field T_BeginSeqNo (m_body m)) in
    let e := int_field (get_field T_EndSeqNo (m_body m)) in
    bind
    (if ((e <? b) && negb (e =? 0)) || (b =? 0) then
       bind (handle_outbound_reject sc now seqnum (Some (m_type m)) txt_badrange) (fun _ => ret tt)
     else if negb (p_attached (s_per s)) then
       let nxt := s_next_send s in
       let nseq := if nxt <=? b then b + 1 else nxt in
       bind (do_send sc now (generate_sequence_reset sc nseq true) b false) (fun _ =>
       modify (w_next_send nseq))
     else
       bind (set_state st_resend_request_received) (fun _ =>
       let interrupted := s_next_send s in
       let last_seq := p_last (s_per s) in
       let finish := if e =? 0 then last_seq else e in
       match p_first_from (s_per s) b with
       | None => retrans_final sc now b interrupted 0
       | Some start =>
         if finish <? b then retrans_final sc now b interrupted 0
         else
           bind (retrans_loop sc decode now (S (N.to_nat (N.min (finish + 1 - start) 100000))) b finish 0 (start - 1)) (fun last =>
           retrans_final sc now b interrupted last)
       end))
    (fun _ => ret true)
  else ret true).

Lemma handle_is_enforce_then_body : forall seqnum m,
  handle_resend_request sc decode now seqnum m = bind (enforce sc now seqnum m) (fun _ => resend_body seqnum m).
Proof. reflexivity. Qed.

(* enforce lets the request through (it may have sent our own ResendRequest and changed the state): the
   answer is whatever enforce emitted followed by the body's answer in the state enforce left *)
Lemma handle_after_enforce : forall seqnum m s r s1 e1,
  enforce sc now seqnum m s = (inl r, s1, e1) ->
  handle_resend_request sc decode now seqnum m s =
  let '(x, s2, e2) := resend_body seqnum m s1 in (x, s2, (e1 ++ e2)%list).
Proof.
  intros seqnum m s r s1 e1 ENF. rewrite handle_is_enforce_then_body. unfold bind at 1. rewrite ENF.
  destruct (resend_body seqnum m s1) as [[x s2] e2]. reflexivity.
Qed.

Theorem body_plan : forall s seqnum m,
  (s_state s =? st_resend_request_received) = false ->
  range_bad (req_begin m) (req_end m) = false ->
  replaying s ->
  store_wf (p_store (s_per s)) = true ->
  forallb (resendable decode) (p_store (s_per s)) = true ->
  N.of_nat (length (p_store (s_per s))) <= 100000 ->
  exists s',
    resend_body seqnum m s =
      (inl true, s', out s (fst (plan (p_store (s_per s)) (s_next_send s) (req_begin m) (req_end m)))) /\
    s_next_send s' = snd (plan (p_store (s_per s)) (s_next_send s) (req_begin m) (req_end m)) /\
    s_state s' = st_continuous /\
    p_store (s_per s') = p_store (s_per s).
Proof.
  intros s seqnum m ST RB R WF DEC LEN.
  unfold resend_body. unfold bind at 1. unfold get at 1.
  rewrite ST. cbn [negb]. fold (req_begin m). fold (req_end m).
  set (b := req_begin m) in *. set (e := req_end m) in *.
  unfold range_bad in RB. rewrite RB.
  assert (ATT : p_attached (s_per s) = true) by apply R. rewrite ATT. cbn [negb].
  assert (B0 : 0 < b).
  { apply orb_false_iff in RB. destruct RB as [_ RB]. apply N.eqb_neq in RB. lia. }
  set (s1 := w_state st_resend_request_received s).
  assert (C1 : core s1 = core s) by reflexivity.
  assert (R1 : replaying s1) by (eapply replaying_core; [exact C1|exact R]).
  set (st := p_store (s_per s)) in *. set (n := s_next_send s) in *.
  unfold plan. fold st. unfold finish_of. fold st.
  change (p_last (s_per s)) with (store_last st).
  set (finish := if e =? 0 then store_last st else e).
  unfold bind at 1. unfold bind at 1. unfold set_state at 1. unfold modify at 1. fold s1.
  unfold p_first_from. replace (b =? 0) with false by (symmetry; apply N.eqb_neq; lia).
  change (p_store (s_per s)) with st.
  pose proof (store_next_after st 0 (b - 1) finish WF) as SN.
  destruct (store_next (b - 1) st) as [[a raw]|] eqn:NX.
  - destruct SN as (S1 & S2 & S3).
    destruct (finish <? b) eqn:FB.
    + apply N.ltb_lt in FB. rewrite (after_empty_range st b finish B0 FB). cbn [plan_loop].
      rewrite retrans_final_plan by exact R1.
      destruct (plan_final n b 0) as [g nseq] eqn:PF. cbn [fst snd].
      eexists. split; [unfold ret; cbn [app]; rewrite app_nil_r; rewrite (out_core s s1) by exact C1; reflexivity|].
      cbn. rewrite p_put_ctrl_store. auto.
    + apply N.ltb_ge in FB.
      assert (SH : after (a - 1) finish st = after (b - 1) finish st).
      { unfold after. apply filter_ext_in. intros [k v] I. cbn [fst]. f_equal.
        pose proof (store_next_least st 0 (b - 1) a raw WF NX k v I) as Q.
        destruct (b - 1 <? k) eqn:C.
        - apply N.ltb_lt in C. specialize (Q C). apply N.ltb_lt. lia.
        - apply N.ltb_ge in C. apply N.ltb_ge. lia. }
      assert (FU : (length (after (a - 1) finish st) < S (N.to_nat (N.min (finish + 1 - a) 100000)))%nat).
      { pose proof (after_length st 0 (a - 1) finish WF) as L1.
        pose proof (after_length_le st (a - 1) finish) as L2. lia. }
      destruct (retrans_loop_plan s 0 b finish R WF DEC _ s1 0 (a - 1) C1 FU) as (s2 & E2 & C2).
      change (p_store (s_per s)) with st in E2. change (s_next_send s) with n in E2. rewrite SH in E2.
      unfold bind at 1. rewrite E2. destruct (plan_loop b 0 (after (b - 1) finish st)) as [items last] eqn:PL. cbn [fst snd].
      assert (R2 : replaying s2) by (eapply replaying_core; [exact C2|exact R]).
      rewrite retrans_final_plan by exact R2.
      destruct (plan_final n b last) as [g nseq] eqn:PF. cbn [fst snd].
      eexists. split.
      * unfold ret. cbn [app]. rewrite app_nil_r. rewrite (out_core s s2) by exact C2. rewrite <- out_app. reflexivity.
      * cbn. rewrite p_put_ctrl_store. split; [reflexivity|]. split; [reflexivity|]. apply (core_store _ _ C2).
  - rewrite SN. cbn [plan_loop].
    rewrite retrans_final_plan by exact R1.
    destruct (plan_final n b 0) as [g nseq] eqn:PF. cbn [fst snd].
    eexists. split; [unfold ret; cbn [app]; rewrite app_nil_r; rewrite (out_core s s1) by exact C1; reflexivity|].
    cbn. rewrite p_put_ctrl_store. auto.
Qed.

(* ---- without a persister (scenarios #7/#8) ------------------------------------------------------------------ *)
Lemma do_send_gap_np : forall s c ns,
  s_closed s = false -> s_batch s = [] -> p_attached (s_per s) = false ->
  do_send sc now (generate_sequence_reset sc ns true) c false s =
  (inl true, w_per (s_per (touch s)) (touch s), [EOut (encode sc (fst (stamp sc now s (gap_msg sc c ns))))]).
Proof.
  intros s c ns A B D. unfold do_send, send. fold (gap_msg sc c ns).
  rewrite send_process_open by (try assumption; apply gap_msg_eob). cbv zeta.
  rewrite stamp_dup_gap. rewrite gap_msg_type.
  assert (D' : p_attached (s_per (touch s)) = false) by exact D. rewrite D'.
  unfold mt_sequence_reset at 1. rewrite beq_refl. rewrite !andb_false_r. reflexivity.
Qed.

Theorem body_nopersister : forall s seqnum m,
  (s_state s =? st_resend_request_received) = false ->
  range_bad (req_begin m) (req_end m) = false ->
  s_closed s = false -> s_batch s = [] -> p_attached (s_per s) = false ->
  exists s',
    resend_body seqnum m s =
      (inl true, s', out s (fst (plan_nopersister (s_next_send s) (req_begin m)))) /\
    s_next_send s' = snd (plan_nopersister (s_next_send s) (req_begin m)) /\
    s_state s' = s_state s.
Proof.
  intros s seqnum m ST RB A B D.
  unfold resend_body. unfold bind at 1. unfold get at 1.
  rewrite ST. cbn [negb]. fold (req_begin m). fold (req_end m).
  unfold range_bad in RB. rewrite RB. rewrite D. cbn [negb].
  unfold bind. rewrite do_send_gap_np by assumption. unfold modify, ret. unfold plan_nopersister. cbn [fst snd].
  eexists. split; [cbn [app out map wire]; reflexivity|]. split; reflexivity.
Qed.

(* ---- invalid ranges are rejected ----------------------------------------------------------------------------- *)
Definition reject_msg (seqnum : N) (m : msg) : msg :=
  generate_reject sc seqnum (Some txt_badrange) (match m_type m with [] => None | x => Some x end).

Lemma reject_msg_props : forall seqnum m,
  m_type (reject_msg seqnum m) = mt_reject /\ m_hdr (reject_msg seqnum m) = [] /\ m_eob (reject_msg seqnum m) = true /\
  m_custom (reject_msg seqnum m) = 0 /\ m_noinc (reject_msg seqnum m) = false.
Proof.
  intros. unfold reject_msg, generate_reject. destruct (m_type m);
    rewrite ?add_body'_type, ?add_body'_hdr, ?add_body'_eob, ?add_body'_custom, ?add_body'_noinc; cbn; auto.
Qed.

Theorem body_reject : forall s seqnum m,
  (s_state s =? st_resend_request_received) = false ->
  range_bad (req_begin m) (req_end m) = true ->
  s_closed s = false -> s_batch s = [] ->
  exists s',
    resend_body seqnum m s =
      (inl true, s', [EOut (encode sc (fst (stamp sc now s (reject_msg seqnum m))))]) /\
    s_next_send s' = s_next_send s + 1 /\
    s_state s' = s_state s.
Proof.
  intros s seqnum m ST RB A B.
  destruct (reject_msg_props seqnum m) as (P1 & P2 & P3 & P4 & P5).
  unfold resend_body. unfold bind at 1. unfold get at 1.
  rewrite ST. cbn [negb]. fold (req_begin m). fold (req_end m).
  unfold range_bad in RB. rewrite RB.
  unfold handle_outbound_reject.
  match goal with |- context [generate_reject sc seqnum (Some txt_badrange) ?x] =>
    replace (generate_reject sc seqnum (Some txt_badrange) x) with (reject_msg seqnum m)
      by (unfold reject_msg; destruct (m_type m); reflexivity) end.
  unfold bind, do_send, send. cbn [N.eqb]. rewrite send_process_open by assumption. cbv zeta.
  assert (ND : snd (stamp sc now s (reject_msg seqnum m)) = false).
  { unfold stamp. rewrite P2.
    set (m1 := if has_field T_SenderCompID [] then _ else _).
    set (m2 := if has_field T_TargetCompID (m_hdr m1) then m1 else _).
    assert (H2 : has_field T_MsgSeqNum (m_hdr m2) = false).
    { subst m2 m1. cbn [has_field get_field]. destruct (has_field T_TargetCompID _);
        rewrite ?has_hdr_add_other by discriminate; rewrite P2; reflexivity. }
    rewrite H2. reflexivity. }
  rewrite ND. rewrite P1, P4, P5. cbn [N.eqb negb andb beq mt_reject mt_sequence_reset].
  unfold ret. eexists. split; [cbn [app]; reflexivity|].
  destruct (p_attached (s_per (touch s))); split; reflexivity.
Qed.

(* ---- through enforce: in EVERY state other than resend_request_received ------------------------------------ *)
(* s1, e1 = the state and the events enforce leaves (e.g. our own ResendRequest and resend_request_sent when
   the request's number is ahead); the hypotheses are about s1 *)
Theorem resend_plan_any : forall s seqnum m r s1 e1,
  enforce sc now seqnum m s = (inl r, s1, e1) ->
  (s_state s1 =? st_resend_request_received) = false ->
  range_bad (req_begin m) (req_end m) = false ->
  replaying s1 ->
  store_wf (p_store (s_per s1)) = true ->
  forallb (resendable decode) (p_store (s_per s1)) = true ->
  N.of_nat (length (p_store (s_per s1))) <= 100000 ->
  exists s',
    handle_resend_request sc decode now seqnum m s =
      (inl true, s', (e1 ++ out s1 (fst (plan (p_store (s_per s1)) (s_next_send s1) (req_begin m) (req_end m))))%list) /\
    s_next_send s' = snd (plan (p_store (s_per s1)) (s_next_send s1) (req_begin m) (req_end m)) /\
    s_state s' = st_continuous /\
    p_store (s_per s') = p_store (s_per s1).
Proof.
  intros s seqnum m r s1 e1 ENF ST RB R WF DEC LEN.
  destruct (body_plan s1 seqnum m ST RB R WF DEC LEN) as (s' & E & REST).
  exists s'. split; [|exact REST]. rewrite (handle_after_enforce seqnum m s r s1 e1 ENF). rewrite E. reflexivity.
Qed.

Theorem resend_plan : forall s seqnum m r,
  enforce sc now seqnum m s = (inl r, s, []) ->
  (s_state s =? st_resend_request_received) = false ->
  range_bad (req_begin m) (req_end m) = false ->
  replaying s ->
  store_wf (p_store (s_per s)) = true ->
  forallb (resendable decode) (p_store (s_per s)) = true ->
  N.of_nat (length (p_store (s_per s))) <= 100000 ->
  exists s',
    handle_resend_request sc decode now seqnum m s =
      (inl true, s', out s (fst (plan (p_store (s_per s)) (s_next_send s) (req_begin m) (req_end m)))) /\
    s_next_send s' = snd (plan (p_store (s_per s)) (s_next_send s) (req_begin m) (req_end m)) /\
    s_state s' = st_continuous /\
    p_store (s_per s') = p_store (s_per s).
Proof. intros s seqnum m r ENF. apply (resend_plan_any s seqnum m r s [] ENF). Qed.

Theorem resend_nopersister_any : forall s seqnum m r s1 e1,
  enforce sc now seqnum m s = (inl r, s1, e1) ->
  (s_state s1 =? st_resend_request_received) = false ->
  range_bad (req_begin m) (req_end m) = false ->
  s_closed s1 = false -> s_batch s1 = [] -> p_attached (s_per s1) = false ->
  exists s',
    handle_resend_request sc decode now seqnum m s =
      (inl true, s', (e1 ++ out s1 (fst (plan_nopersister (s_next_send s1) (req_begin m))))%list) /\
    s_next_send s' = snd (plan_nopersister (s_next_send s1) (req_begin m)) /\
    s_state s' = s_state s1.
Proof.
  intros s seqnum m r s1 e1 ENF ST RB A B D.
  destruct (body_nopersister s1 seqnum m ST RB A B D) as (s' & E & REST).
  exists s'. split; [|exact REST]. rewrite (handle_after_enforce seqnum m s r s1 e1 ENF). rewrite E. reflexivity.
Qed.

Theorem resend_nopersister : forall s seqnum m r,
  enforce sc now seqnum m s = (inl r, s, []) ->
  (s_state s =? st_resend_request_received) = false ->
  range_bad (req_begin m) (req_end m) = false ->
  s_closed s = false -> s_batch s = [] -> p_attached (s_per s) = false ->
  exists s',
    handle_resend_request sc decode now seqnum m s =
      (inl true, s', out s (fst (plan_nopersister (s_next_send s) (req_begin m)))) /\
    s_next_send s' = snd (plan_nopersister (s_next_send s) (req_begin m)) /\
    s_state s' = s_state s.
Proof. intros s seqnum m r ENF. apply (resend_nopersister_any s seqnum m r s [] ENF). Qed.

Theorem resend_reject_any : forall s seqnum m r s1 e1,
  enforce sc now seqnum m s = (inl r, s1, e1) ->
  (s_state s1 =? st_resend_request_received) = false ->
  range_bad (req_begin m) (req_end m) = true ->
  s_closed s1 = false -> s_batch s1 = [] ->
  exists s',
    handle_resend_request sc decode now seqnum m s =
      (inl true, s', (e1 ++ [EOut (encode sc (fst (stamp sc now s1 (reject_msg seqnum m))))])%list) /\
    s_next_send s' = s_next_send s1 + 1 /\
    s_state s' = s_state s1.
Proof.
  intros s seqnum m r s1 e1 ENF ST RB A B.
  destruct (body_reject s1 seqnum m ST RB A B) as (s' & E & REST).
  exists s'. split; [|exact REST]. rewrite (handle_after_enforce seqnum m s r s1 e1 ENF). rewrite E. reflexivity.
Qed.

Theorem resend_reject : forall s seqnum m r,
  enforce sc now seqnum m s = (inl r, s, []) ->
  (s_state s =? st_resend_request_received) = false ->
  range_bad (req_begin m) (req_end m) = true ->
  s_closed s = false -> s_batch s = [] ->
  exists s',
    handle_resend_request sc decode now seqnum m s =
      (inl true, s', [EOut (encode sc (fst (stamp sc now s (reject_msg seqnum m))))]) /\
    s_next_send s' = s_next_send s + 1 /\
    s_state s' = s_state s.
Proof. intros s seqnum m r ENF. apply (resend_reject_any s seqnum m r s [] ENF). Qed.

(* ---- the request's own number is ahead: enforce first asks for OUR gap -------------------------------------- *)
Lemma grr_props : forall b e,
  m_type (generate_resend_request sc b e) = mt_resend_request /\ m_hdr (generate_resend_request sc b e) = [] /\
  m_eob (generate_resend_request sc b e) = true /\ m_custom (generate_resend_request sc b e) = 0 /\
  m_noinc (generate_resend_request sc b e) = false.
Proof.
  intros. unfold generate_resend_request.
  rewrite ?add_body'_type, ?add_body'_hdr, ?add_body'_eob, ?add_body'_custom, ?add_body'_noinc. cbn. auto.
Qed.

Definition after_new (s : sess) : sess :=
  let s1 := touch s in
  let s2 := w_per (if p_attached (s_per s1) then p_put_ctrl (s_per s1) (s_next_send s1 + 1) (s_next_recv s1) else s_per s1) s1 in
  w_next_send (s_next_send s2 + 1) s2.

Theorem enforce_ahead : forall s seqnum m,
  s_state s = st_continuous ->
  compid_check m s = (inl tt, s, []) ->
  beq (m_type m) mt_sequence_reset = false ->
  s_next_recv s < seqnum ->
  s_closed s = false -> s_batch s = [] ->
  is_admin sc mt_resend_request = true ->
  enforce sc now seqnum m s =
    (inl true, w_state st_resend_request_sent (after_new s),
     [EOut (encode sc (fst (stamp sc now s (generate_resend_request sc (s_next_recv s) 0))))]).
Proof.
  intros s seqnum m ST CC NT LT CL BA ADM2.
  destruct (grr_props (s_next_recv s) 0) as (P1 & P2 & P3 & P4 & P5).
  unfold enforce. unfold bind at 1. unfold get at 1. rewrite ST.
  replace (is_established st_continuous) with true by reflexivity.
  replace (st_continuous =? st_logon_received) with false by reflexivity. cbn [negb].
  unfold bind at 1. unfold bind at 1. rewrite CC.
  rewrite NT. cbn [negb].
  unfold sequence_check. unfold bind, get.
  replace (s_next_recv s <? seqnum) with true by (symmetry; apply N.ltb_lt; exact LT).
  rewrite ST. replace (st_continuous =? st_continuous) with true by reflexivity.
  unfold do_send, send. cbn [N.eqb].
  rewrite send_process_open by assumption. cbv zeta.
  assert (ND : snd (stamp sc now s (generate_resend_request sc (s_next_recv s) 0)) = false).
  { unfold stamp. rewrite P2.
    set (m1 := if has_field T_SenderCompID [] then _ else _).
    set (m2 := if has_field T_TargetCompID (m_hdr m1) then m1 else _).
    assert (H2 : has_field T_MsgSeqNum (m_hdr m2) = false).
    { subst m2 m1. cbn [has_field get_field]. destruct (has_field T_TargetCompID _);
        rewrite ?has_hdr_add_other by discriminate; rewrite P2; reflexivity. }
    rewrite H2. reflexivity. }
  rewrite ND. rewrite P1, P4, P5, ADM2. cbn [N.eqb negb andb beq mt_resend_request mt_sequence_reset].
  unfold set_state, modify, ret, after_new. cbn [app fst snd negb]. reflexivity.
Qed.

Lemma after_new_facts : forall s, s_batch s = [] ->
  s_par (after_new s) = s_par s /\ s_snd (after_new s) = s_snd s /\ s_tgt (after_new s) = s_tgt s /\
  s_closed (after_new s) = s_closed s /\ s_batch (after_new s) = [] /\
  s_next_send (after_new s) = s_next_send s + 1 /\ s_next_recv (after_new s) = s_next_recv s /\
  p_store (s_per (after_new s)) = p_store (s_per s) /\ p_attached (s_per (after_new s)) = p_attached (s_per s).
Proof.
  intros s B. unfold after_new, touch. cbn.
  destruct (p_attached (s_per s)) eqn:A; cbn; rewrite ?p_put_ctrl_store; repeat split; try reflexivity; try assumption.
  unfold p_attached in *. rewrite p_put_ctrl_kind. exact A.
Qed.

(* the answer to a request whose own number is ahead: our ResendRequest, then the replay planned from
   next_send + 1 -- in particular never an empty answer *)
Theorem resend_plan_ahead : forall s seqnum m,
  s_state s = st_continuous ->
  compid_check m s = (inl tt, s, []) ->
  beq (m_type m) mt_sequence_reset = false ->
  s_next_recv s < seqnum ->
  is_admin sc mt_resend_request = true ->
  range_bad (req_begin m) (req_end m) = false ->
  replaying s ->
  store_wf (p_store (s_per s)) = true ->
  forallb (resendable decode) (p_store (s_per s)) = true ->
  N.of_nat (length (p_store (s_per s))) <= 100000 ->
  exists s' s1,
    s_state s1 = st_resend_request_sent /\ s_next_send s1 = s_next_send s + 1 /\
    handle_resend_request sc decode now seqnum m s =
      (inl true, s',
       (EOut (encode sc (fst (stamp sc now s (generate_resend_request sc (s_next_recv s) 0)))) ::
        out s1 (fst (plan (p_store (s_per s)) (s_next_send s + 1) (req_begin m) (req_end m))))) /\
    s_next_send s' = snd (plan (p_store (s_per s)) (s_next_send s + 1) (req_begin m) (req_end m)) /\
    s_state s' = st_continuous /\
    p_store (s_per s') = p_store (s_per s).
Proof.
  intros s seqnum m ST CC NT LT ADM2 RB R WF DEC LEN.
  destruct R as (CL & BA & ASA & ATT).
  pose proof (enforce_ahead s seqnum m ST CC NT LT CL BA ADM2) as ENF.
  destruct (after_new_facts s BA) as (F1 & F2 & F3 & F4 & F5 & F6 & F7 & F8 & F9).
  assert (R1 : replaying (w_state st_resend_request_sent (after_new s))).
  { unfold replaying. unfold w_state at 1 2 3 4. cbn [s_closed s_batch s_par s_per].
    rewrite F1, F4, F5, F9. repeat split; assumption. }
  set (s1 := w_state st_resend_request_sent (after_new s)) in *.
  assert (ST1 : (s_state s1 =? st_resend_request_received) = false) by reflexivity.
  assert (PS : p_store (s_per s1) = p_store (s_per s)) by exact F8.
  assert (NS : s_next_send s1 = s_next_send s + 1) by exact F6.
  destruct (resend_plan_any s seqnum m true s1 _ ENF ST1 RB R1) as (s' & E & A1 & A2 & A3);
    try (rewrite PS; assumption).
  rewrite PS, NS in *.
  exists s', s1. split; [reflexivity|]. split; [exact NS|]. split; [exact E|]. repeat split; assumption.
Qed.

(* the one state in which a request goes unanswered: a replay is already running *)
Theorem body_busy : forall s seqnum m,
  (s_state s =? st_resend_request_received) = true -> resend_body seqnum m s = (inl true, s, []).
Proof. intros s seqnum m ST. unfold resend_body. unfold bind, get. rewrite ST. reflexivity. Qed.

End Inb.

End P.
