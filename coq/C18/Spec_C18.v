(* Property C18 "Resend requests are answered with a complete, faithful replay" as an executable
   predicate on observables: the history (case line) and the trace (result line) of either side.
   Written from the property text; it does not call the session model (only the concrete syntax of
   histories/traces and the tag=value scanner are shared).

   A step of the trace is JUDGED when its operation feeds exactly one well-framed ResendRequest to a
   session that is ESTABLISHED in whatever sub-state other than "a replay is running" (continuous,
   test_request_sent, resend_request_sent, ...: an unanswered valid request is a failure in all of them) and
   still reading (the step reports the return value of Session::process), with the session's CompIDs and
   either the expected MsgSeqNum or, from state continuous, a MsgSeqNum above it (then the session's own
   ResendRequest for its gap precedes the answer and takes the number next_send), and
   always_seqnum_assign is off (with that option fix8 renumbers what it resends by design: outside the
   property, see the suite's ASSUMPTIONS).  Known before the step: which numbers are stored (the
   concatenation of the STORE deltas of the previous snapshots), next_send = N, the persister kind, and for
   every number the message ORIGINALLY TRANSMITTED with it (the first new message carrying that MsgSeqNum among
   the earlier OUT events): a resent message is judged against that original, not against what the persister
   reads back later.

   Invalid range ((End < Begin and End <> 0) or Begin = 0):
     the answer is exactly one Reject (35=3) carrying RefSeqNum = the request's number, RefMsgType = 2
     and MsgSeqNum = N; nothing is replayed; next_send = N + 1.
   Otherwise, with hi = N-1 if End = 0 or End >= N, else End (the part of the range that was ever sent):
     the OUT events are walked against the numbers Begin, Begin+1, .., hi:
       * a number with a stored message  : the next OUT is that message again -- MsgSeqNum = the number,
         PossDupFlag=Y, OrigSendingTime = the stored SendingTime, and all other fields (apart from
         BodyLength, CheckSum, SendingTime) equal to the stored ones, in the stored order;
       * a number without a stored message that no gap fill has covered yet: the next OUT is a
         SequenceReset with GapFillFlag=Y whose MsgSeqNum is this number (the first of its gap); it
         covers the numbers below its NewSeqNo; a gap must not be split over two gap fills
         ("NewSeqNo is the number after the gap");
       * no gap fill may cover a number that has a stored message (inside or beyond the range).
     After the last number only further gap fills may follow, with MsgSeqNum > hi (the text says
     nothing about numbers beyond the range: a gap fill over numbers that hold no stored message is
     tolerated there).
     Afterwards next_send = the NewSeqNo of the last gap fill sent (N if none was sent), and the next
     new message put on the wire carries exactly that number. *)
From Coq Require Import NArith ZArith List Bool.
From F8 Require Import Sess.Bytes Sess.Msg Sess.Persist Sess.Session Sess.Wire.
Import ListNotations.
Local Open Scope N_scope.

Definition toks := list (bytes * bytes).

Definition tagb (n : N) : bytes := dec n.
Definition flag_set (v : option bytes) : bool :=
  match v with Some (c :: _) => c =? 89 | _ => false end.
Definition num_tok (tag : N) (t : toks) : option N :=
  match tok_get (tagb tag) t with Some v => undec v | None => None end.

(* ---- one outbound message as the receiver classifies it ------------------------------------------- *)
Inductive item :=
| IGap (seq newseq : N)          (* SequenceReset, GapFillFlag=Y *)
| IMsg (t : toks)                (* anything else *)
| IBad.                          (* unparsable, or a SequenceReset without GapFillFlag *)

Definition item_of_toks (t : toks) : item :=
  match tok_get (tagb T_MsgType) t with
  | Some ty =>
    if beq ty [52] then
      if flag_set (tok_get (tagb T_GapFillFlag) t) then
        match num_tok T_MsgSeqNum t, num_tok T_NewSeqNo t with
        | Some a, Some b => IGap a b
        | _, _ => IBad
        end
      else IBad
    else IMsg t
  | None => IBad
  end.
Definition parse_out (raw : bytes) : item := item_of_toks (tokens raw).

(* ---- faithfulness of one resent message -------------------------------------------------------------- *)
Definition tag_in (tags : list N) (tv : bytes * bytes) : bool :=
  existsb (fun g => beq (fst tv) (tagb g)) tags.
Definition drop_tags (tags : list N) (t : toks) : toks := filter (fun tv => negb (tag_in tags tv)) t.

Fixpoint toks_eq (a b : toks) : bool :=
  match a, b with
  | [], [] => true
  | (t, v) :: a', (t', v') :: b' => beq t t' && beq v v' && toks_eq a' b'
  | _, _ => false
  end.

Definition volatile_resent : list N := [9; 10; T_SendingTime; T_PossDupFlag; T_OrigSendingTime].
Definition volatile_stored : list N := [9; 10; T_SendingTime].

(* t = tokens of the message on the wire; ts = tokens of the stored message with number n *)
Definition faithful (n : N) (ts t : toks) : bool :=
  match tok_get (tagb T_MsgSeqNum) t, tok_get (tagb T_SendingTime) ts, tok_get (tagb T_OrigSendingTime) t with
  | Some s, Some st, Some ost =>
    beq s (dec n) && beq ost st && flag_set (tok_get (tagb T_PossDupFlag) t) &&
    toks_eq (drop_tags volatile_resent t) (drop_tags volatile_stored ts)
  | _, _, _ => false
  end.

(* ---- the walk over the requested numbers ---------------------------------------------------------------- *)
Fixpoint nrange (from : N) (cnt : nat) : list N :=
  match cnt with
  | O => []
  | S c => from :: nrange (from + 1) c
  end.

(* cover: numbers below it are covered by the gap fill seen last; prev_gap: the previous number had no
   stored message.  Result: the unconsumed items, or None = violation. *)
Fixpoint walk (st : list (N * bytes)) (nums : list N) (cover : N) (prev_gap : bool) (items : list item)
  : option (list item) :=
  match nums with
  | [] => Some items
  | n :: rest =>
    match store_get n st with
    | Some raw =>
      if n <? cover then None                       (* a gap fill skipped a stored message *)
      else match items with
           | IMsg t :: items' => if faithful n (tokens raw) t then walk st rest cover false items' else None
           | _ => None
           end
    | None =>
      if n <? cover then walk st rest cover true items
      else if prev_gap then None                    (* one gap announced in two pieces *)
      else match items with
           | IGap a b :: items' => if (a =? n) && (n <? b) then walk st rest b true items' else None
           | _ => None
           end
    end
  end.

Definition gap_skips_nothing (st : list (N * bytes)) (it : item) : bool :=
  match it with
  | IGap a b => forallb (fun kv => negb ((a <=? fst kv) && (fst kv <? b))) st
  | _ => true
  end.

Definition tail_ok (hi : N) (it : item) : bool :=
  match it with IGap a b => (hi <? a) && (a <? b) | _ => false end.

Fixpoint last_newseq (items : list item) (d : N) : N :=
  match items with
  | [] => d
  | IGap _ b :: l => last_newseq l b
  | _ :: l => last_newseq l d
  end.

Definition range_invalid (b e : N) : bool := ((e <? b) && negb (e =? 0)) || (b =? 0).

(* st = store before (empty without a persister), n = next_send before, [b, e] the request,
   items = the OUT events of the step, send' = next_send after *)
Definition replay_ok (st : list (N * bytes)) (n b e : N) (items : list item) (send' : N) : bool :=
  let hi := if (e =? 0) || (n <=? e) then n - 1 else e in
  let nums := if b <=? hi then nrange b (N.to_nat (hi + 1 - b)) else [] in
  forallb (gap_skips_nothing st) items &&
  match walk st nums 0 false items with
  | Some rest => forallb (tail_ok hi) rest
  | None => false
  end &&
  (send' =? last_newseq items n).

Definition reject_ok (reqseq n : N) (items : list item) (send' : N) : bool :=
  match items with
  | [IMsg t] =>
    match tok_get (tagb T_MsgType) t, tok_get (tagb T_RefSeqNum) t, tok_get (tagb T_RefMsgType) t,
          tok_get (tagb T_MsgSeqNum) t with
    | Some ty, Some r, Some rt, Some s =>
      beq ty [51] && beq r (dec reqseq) && beq rt [50] && beq s (dec n) &&
      negb (flag_set (tok_get (tagb T_PossDupFlag) t)) && (send' =? n + 1)
    | _, _, _, _ => false
    end
  | _ => false
  end.

Definition answer_ok (st : list (N * bytes)) (reqseq n b e : N) (items : list item) (send' : N) : bool :=
  if range_invalid b e then reject_ok reqseq n items send' else replay_ok st n b e items send'.

(* ---- applying it to a history and a trace ------------------------------------------------------------------ *)
Record ost := mkOst {
  o_sp : startp;
  o_store : list (N * bytes);
  o_state : N;
  o_send : N;
  o_recv : N;
  o_cont : option N;         (* the next new message must carry this number *)
  o_wire : list (N * bytes)  (* number -> the message as it was ORIGINALLY transmitted (first new message with that
                                number on the wire; PossDup copies and SequenceResets are not transmissions of a number) *)
}.

Fixpoint store_remove (k : N) (l : list (N * bytes)) : list (N * bytes) :=
  match l with
  | [] => []
  | (a, v) :: l' => if a =? k then l' else (a, v) :: store_remove k l'
  end.
Fixpoint store_set (k : N) (v : bytes) (l : list (N * bytes)) : list (N * bytes) :=
  match l with
  | [] => [(k, v)]
  | (a, w) :: l' => if k <? a then (k, v) :: l
                    else if a =? k then (a, w) :: l'          (* a stored record never changes: keep what was seen first *)
                    else (a, w) :: store_set k v l'
  end.
Fixpoint apply_delta (d : list (N * option bytes)) (l : list (N * bytes)) : list (N * bytes) :=
  match d with
  | [] => l
  | (k, Some v) :: d' => apply_delta d' (store_set k v l)
  | (k, None) :: d' => apply_delta d' (store_remove k l)
  end.

(* the original transmissions of a step: new messages (no PossDupFlag, not a SequenceReset) by MsgSeqNum *)
Definition new_on_wire (evs : list event) : list (N * bytes) :=
  flat_map (fun e => match e with
                     | EOut raw =>
                       let t := tokens raw in
                       match tok_get (tagb T_MsgType) t, num_tok T_MsgSeqNum t with
                       | Some ty, Some k =>
                         if beq ty [52] || flag_set (tok_get (tagb T_PossDupFlag) t) then [] else [(k, raw)]
                       | _, _ => []
                       end
                     | _ => []
                     end) evs.
Fixpoint wire_add (l : list (N * bytes)) (w : list (N * bytes)) : list (N * bytes) :=
  match l with
  | [] => w
  | (k, raw) :: l' => wire_add l' (store_set k raw w)       (* the first transmission of a number wins *)
  end.
(* the store the answer is judged against: the stored NUMBERS are those the persister lists; the message
   under a number is what was originally transmitted with that number (the store's own bytes only when the
   trace never showed such a transmission) *)
Definition original_store (st wire : list (N * bytes)) : list (N * bytes) :=
  map (fun kv => (fst kv, match store_get (fst kv) wire with Some w => w | None => snd kv end)) st.

Definition outs (evs : list event) : list item :=
  flat_map (fun e => match e with EOut raw => [parse_out raw] | EOutRaw _ => [IBad] | _ => [] end) evs.

(* the request of an IN operation, when the step is to be judged: (MsgSeqNum, Begin, End) *)
(* the established states (States::SessionStates: continuous, logon_received, logoff_sent, logoff_received,
   test_request_sent, sequence_reset_sent, sequence_reset_received, resend_request_sent); a replay that is
   already running (resend_request_received = 13) is the one state in which a request may go unanswered *)
Definition answering_state (st : N) : bool :=
  existsb (N.eqb st) [1; 6; 7; 8; 9; 10; 11; 12].

(* (MsgSeqNum, Begin, End, ahead): ahead = the request's own number is above the expected one (only judged
   from state continuous: the session first asks for ITS gap with a ResendRequest of its own, then answers) *)
Definition request_of (o : ost) (oper : op) : option (N * N * N * bool) :=
  match oper with
  | OIn [chunk] =>
    match frames chunk with
    | ([raw], []) =>
      let t := tokens raw in
      match tok_get (tagb T_MsgType) t, num_tok T_MsgSeqNum t, num_tok T_BeginSeqNo t, num_tok T_EndSeqNo t,
            tok_get (tagb T_SenderCompID) t, tok_get (tagb T_TargetCompID) t with
      | Some ty, Some s, Some b, Some e, Some sci, Some tci =>
        if beq ty [50] &&
           (((s =? o_recv o) && answering_state (o_state o)) || ((o_recv o <? s) && (o_state o =? st_continuous))) &&
           negb (pr_asa (sp_par (o_sp o))) &&
           beq sci (sp_tgt (o_sp o)) && beq tci (sp_snd (o_sp o)) &&
           match tok_get (tagb T_PossDupFlag) t with None => true | Some _ => false end
        then Some (s, b, e, o_recv o <? s) else None
      | _, _, _, _, _, _ => None
      end
    | _ => None
    end
  | _ => None
  end.

(* the request reached Session::process (the reader was still running) *)
Definition has_ret (evs : list event) : bool :=
  existsb (fun e => match e with ERet _ => true | _ => false end) evs.

(* a message of the operator's own making that does not take the next number *)
Definition own_numbering (oper : op) : bool :=
  match oper with
  | OSend m => negb (ms_custom m =? 0) || existsb (fun tv => fst tv =? T_MsgSeqNum) (ms_hdr m)
  | OBatch _ => true
  | _ => false
  end.

Definition first_new (items : list item) : option toks :=
  match items with
  | IMsg t :: _ => Some t
  | _ => None
  end.

Definition c18_step (o : ost) (oper : op) (s : step) : option ost :=
  let items := outs (st_events s) in
  let sp' := match oper with OStart p _ => p | _ => o_sp o end in
  let fresh := match oper with OStart _ _ => true | ORestart => true | _ => false end in
  (* a new session object without files starts numbering and storing afresh *)
  let wire0 := if fresh then match sp_pk sp' with PFile => o_wire o | _ => [] end else o_wire o in
  let next (cont : option N) : ost :=
    match st_snap s with
    | Some sn => mkOst sp' (apply_delta (sn_store sn) (o_store o))
                       (sn_state sn) (sn_send sn) (sn_recv sn) cont (wire_add (new_on_wire (st_events s)) wire0)
    | None => mkOst sp' (o_store o) (o_state o) (o_send o) (o_recv o) cont (wire_add (new_on_wire (st_events s)) wire0)
    end in
  match (if has_ret (st_events s) then request_of o oper else None) with
  | Some (reqseq, b, e, ahead) =>
    match st_snap s with
    | Some sn =>
      let st := match sp_pk (o_sp o) with PNone => [] | _ => original_store (o_store o) (o_wire o) end in
      let ok :=
        if ahead then
          (* first our own ResendRequest, a new message numbered next_send; then the answer *)
          match items with
          | IMsg t :: items' =>
            match tok_get (tagb T_MsgType) t, tok_get (tagb T_MsgSeqNum) t with
            | Some ty, Some v =>
              beq ty [50] && beq v (dec (o_send o)) && negb (flag_set (tok_get (tagb T_PossDupFlag) t)) &&
              answer_ok st reqseq (o_send o + 1) b e items' (sn_send sn)
            | _, _ => false
            end
          | _ => false
          end
        else answer_ok st reqseq (o_send o) b e items (sn_send sn) in
      if ok then Some (next (Some (sn_send sn))) else None
    | None => None
    end
  | None =>
    if fresh then Some (next None)
    else
      match o_cont o, items with
      | Some c, _ :: _ =>
        if own_numbering oper then Some (next None)
        else match first_new items with
             | Some t => if match tok_get (tagb T_MsgSeqNum) t with Some v => beq v (dec c) | None => false end
                         then Some (next None) else None
             | None => Some (next None)       (* a gap fill or garbage first: not a new message, stop looking *)
             end
      | c, _ => Some (next c)
      end
  end.

Fixpoint c18_steps (o : ost) (ops : list op) (tr : trace) : bool :=
  match ops, tr with
  | [], [] => true
  | oper :: ops', s :: tr' =>
    match c18_step o oper s with
    | Some o' => c18_steps o' ops' tr'
    | None => false
    end
  | _, _ => false
  end.

Definition ost0 : ost := mkOst default_sp [] 0 0 0 None [].

Definition c18_ok (ops : list op) (tr : trace) : bool := c18_steps ost0 ops tr.

Definition c18_ok_line (case result : bytes) : bool := c18_ok (parse_history case) (parse_trace result).

(* number of judged steps of a history/trace (for the suite's `nontrivial`) *)
Fixpoint c18_judged (o : ost) (ops : list op) (tr : trace) : N :=
  match ops, tr with
  | oper :: ops', s :: tr' =>
    (match (if has_ret (st_events s) then request_of o oper else None) with Some _ => 1 | None => 0 end) +
    match c18_step o oper s with
    | Some o' => c18_judged o' ops' tr'
    | None => 0
    end
  | _, _ => 0
  end.
Definition c18_judged_line (case result : bytes) : N := c18_judged ost0 (parse_history case) (parse_trace result).
