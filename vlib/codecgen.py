"""Shared support for the codec checks (C01..C06, C11): build of the shared harness h_codec,
metadata dump/parse, canonical value generators per field type, message generation from the
dumped metadata, msgspec serialisation, multi-schema routing of cases.

Case lines (see coq/Codec/READY.md):   [@<schema> ]<OP> <args>
The optional "@fix44 " prefix selects a schema other than the first one built.
"""
import hashlib
import os
import subprocess

from . import build as B
from . import core

SCHEMAS = ("utest", "fix44")

# FieldTrait::FieldType
FT_INT, FT_LENGTH, FT_NUMINGROUP, FT_END_INT = 1, 2, 5, 6
FT_CHAR, FT_BOOLEAN = 7, 8
FT_FLOAT, FT_END_FLOAT = 9, 14
FT_STRING, FT_MONTHYEAR, FT_UTCTIMESTAMP, FT_UTCTIMEONLY, FT_UTCDATEONLY, FT_LOCALMKTDATE = 15, 21, 22, 23, 24, 25
FT_TZTIMEONLY, FT_TZTIMESTAMP, FT_DATA, FT_XMLDATA = 26, 27, 28, 29


class Trait:
    __slots__ = ("fnum", "ftype", "pos", "comp", "flags")

    def __init__(self, fnum, ftype, pos, comp, flags):
        self.fnum, self.ftype, self.pos, self.comp, self.flags = fnum, ftype, pos, comp, flags

    mandatory = property(lambda s: bool(s.flags & 1))
    group = property(lambda s: bool(s.flags & 8))
    suppress = property(lambda s: bool(s.flags & 32))
    automatic = property(lambda s: bool(s.flags & 64))


class Meta:
    """Parsed metadata dump of one compiled schema."""

    def __init__(self, text, name):
        self.name = name
        self.fields = {}      # fnum -> (ftype, name)
        self.msgs = {}        # msgtype -> (name, admin)
        self.traits = {}      # owner -> [Trait] (table order)
        self.groups = {}      # owner -> {fnum: subowner}
        self.inits = {}       # owner -> [(pos, fnum, bytes)]
        self.begin = b""
        for line in text.split("\n"):
            w = line.split(" ")
            if w[0] == "V":
                self.version, self.begin, self.preamble = int(w[1]), bytes.fromhex(w[2]), int(w[3])
            elif w[0] == "F":
                self.fields[int(w[1])] = (int(w[2]), w[3])
            elif w[0] == "M":
                self.msgs[w[1]] = (w[2], w[3] == "1")
            elif w[0] == "T":
                self.traits.setdefault(w[1], []).append(Trait(*map(int, w[2:7])))
            elif w[0] == "G":
                self.groups.setdefault(w[1], {})[int(w[2])] = w[4]
            elif w[0] == "I":
                self.inits.setdefault(w[1], []).append((int(w[2]), int(w[3]), b"" if w[4] == "-" else bytes.fromhex(w[4])))

    def trait(self, owner, fnum):
        for t in self.traits.get(owner, []):
            if t.fnum == fnum:
                return t
        return None

    def first_field(self, owner):
        for t in self.traits.get(owner, []):
            if t.pos == 1:
                return t.fnum
        return None

    def depth(self, owner):
        return 1 + max([self.depth(s) for s in self.groups.get(owner, {}).values()] or [0])


_built = {}


def build_codec(schemas=("utest",), variant="asan"):
    """Build h_codec for each schema, dump its metadata.  Returns a dict usable as the result of a
    suite's build(): impl = first harness, driver_args = ["name=metafile", ...]."""
    out = {"impl": None, "driver_args": [], "exes": {}, "metas": {}}
    for s in schemas:
        key = (s, variant, B.REPO)
        if key not in _built:
            exe = B.harness("h_codec", runtime=None, schema=s, variant=variant)
            p = subprocess.run([exe, "--meta"], stdout=subprocess.PIPE, stderr=subprocess.PIPE, timeout=120,
                               env=dict(os.environ, ASAN_OPTIONS="detect_leaks=0"))
            text = p.stdout.decode()
            if p.returncode != 0 or not text.rstrip().endswith("END"):
                raise B.BuildError("h_codec --meta failed for %s: %s" % (s, p.stderr.decode()[-2000:]))
            d = os.path.join(B.CACHE, "codec")
            os.makedirs(d, exist_ok=True)
            path = os.path.join(d, "meta-%s-%s.txt" % (s, hashlib.sha256(text.encode()).hexdigest()[:16]))
            if not os.path.exists(path):
                tmp = path + ".tmp%d" % os.getpid()
                open(tmp, "w").write(text)
                os.rename(tmp, path)
            _built[key] = (exe, path, Meta(text, s))
        exe, path, meta = _built[key]
        out["exes"][s] = exe
        out["metas"][s] = meta
        out["driver_args"].append("%s=%s" % (s, path))
        if out["impl"] is None:
            out["impl"] = [exe]
    return out


def schema_of(line, default):
    if line.startswith("@"):
        name, _, rest = line[1:].partition(" ")
        return name, rest
    return default, line


def run_impl_multi(built, cases, tier, per_case_timeout=20):
    """run_impl for suites that use more than one schema: route each case to its harness."""
    default = next(iter(built["exes"]))
    res = [None] * len(cases)
    by = {}
    for k, c in enumerate(cases):
        s, rest = schema_of(c.line, default)
        by.setdefault(s, []).append((k, rest))
    for s, items in by.items():
        out = core.run_lines([built["exes"][s]], [r for _, r in items], per_case_timeout=per_case_timeout)
        for (k, _), r in zip(items, out):
            res[k] = r
    return res


# ------------------------------------------------------------------------------ values
PRINTABLE = "ABCDEFGHIJKLMNOPQRSTUVWXYZabcdefghijklmnopqrstuvwxyz0123456789 .,:;/+-_#@!?*()<>"


def gen_string(rng, lo=1, hi=12, eq=True):
    n = rng.randint(lo, hi)
    s = "".join(rng.choice(PRINTABLE) for _ in range(n))
    if eq and n > 1 and rng.random() < 0.15:
        k = rng.randrange(n)
        s = s[:k] + "=" + s[k + 1:]
    return s.encode()


def gen_date(rng):
    y = rng.randint(1971, 2037)
    m = rng.randint(1, 12)
    dim = [31, 29 if y % 4 == 0 else 28, 31, 30, 31, 30, 31, 31, 30, 31, 30, 31][m - 1]
    d = rng.choice((1, dim, rng.randint(1, dim)))
    return "%04d%02d%02d" % (y, m, d)


def gen_time(rng):
    if rng.random() < 0.1:
        return rng.choice(("00:00:00.000", "23:59:59.999", "12:00:00.000"))
    return "%02d:%02d:%02d.%03d" % (rng.randrange(24), rng.randrange(60), rng.randrange(60), rng.randrange(1000))


def gen_float(rng, negative=True):
    """Texts that are fixed points of fast_atof / modp_dtoa at precision 2 (trailing zeros are
    stripped by modp_dtoa, a lone fraction digit 0 is kept)."""
    whole = rng.choice((0, 1, rng.randrange(10), rng.randrange(1000), rng.randrange(10 ** 6)))
    frac = rng.choice(("0", "5", "25", "75", "5", "0", "%d" % rng.randint(1, 9),
                       "%d%d" % (rng.randint(0, 9), rng.randint(1, 9))))
    s = "%d.%s" % (whole, frac)
    if negative and rng.random() < 0.15 and s not in ("0.0",):
        s = "-" + s
    return s


def gen_value(rng, ftype, fnum=0):
    """A text canonical for the field's C++ class (render is the identity on it)."""
    if FT_INT <= ftype <= FT_END_INT:
        v = rng.choice((0, 1, 7, rng.randrange(100), rng.randrange(100000), 214748364 if rng.random() < 0.02 else 42))
        # since /repo a8219b1 fast_atoi handles the sign and the full int range: negative values and the
        # extremes for the plain int classes (not for Length / NumInGroup, which the codec interprets)
        if ftype not in (FT_LENGTH, FT_NUMINGROUP):
            r = rng.random()
            if r < 0.12:
                v = -rng.choice((1, 5, 42, rng.randrange(1, 100000), 2147483647))
            elif r < 0.16:
                v = rng.choice((2147483647, -2147483648, 2147483600, 999999999))
        return str(v).encode()
    if ftype == FT_CHAR:
        return rng.choice("ABCDEFGHIJKLMNOPQRSTUVWXYZ0123456789abcxyz").encode()
    if ftype == FT_BOOLEAN:
        return rng.choice((b"Y", b"N"))
    if FT_FLOAT <= ftype <= FT_END_FLOAT:
        return gen_float(rng).encode()
    if ftype == FT_MONTHYEAR:
        d = gen_date(rng)
        return (d[:6] if rng.random() < 0.5 else d).encode()
    if ftype == FT_UTCTIMESTAMP:
        return (gen_date(rng) + "-" + gen_time(rng)).encode()
    if ftype == FT_UTCTIMEONLY:
        return gen_time(rng).encode()
    if ftype in (FT_UTCDATEONLY, FT_LOCALMKTDATE):
        return gen_date(rng).encode()
    if ftype in (FT_DATA, FT_XMLDATA):
        return gen_string(rng, 1, 20)
    return gen_string(rng)


# ------------------------------------------------------------------------------ messages
class Fld:
    """One insertion: field number, value text, and (for a group count field) its elements:
    None = no group operation, list of elements otherwise; an element is a list of Fld."""
    __slots__ = ("fnum", "val", "elems", "raw")

    def __init__(self, fnum, val, elems=None, raw=False):
        self.fnum, self.val, self.elems, self.raw = fnum, val, elems, raw   # raw: "~hex" = std::string constructor


def ser_fields(fs):
    out = []
    for f in fs:
        s = "%d=%s%s" % (f.fnum, "~" if f.raw else "", f.val.hex() or "-")
        if f.elems is not None:
            s += "[" + "".join("(" + ser_fields(e) + ")" for e in f.elems) + "]"
        out.append(s)
    return ",".join(out)


def ser_msg(mtype, hdr, body, trl):
    return "%s;%s;%s;%s" % (mtype, ser_fields(hdr), ser_fields(body), ser_fields(trl))


def parse_fields(s):
    """Inverse of ser_fields."""
    pos = [0]

    def fields():
        out = []
        while pos[0] < len(s) and s[pos[0]] != ")":
            j = pos[0]
            while s[pos[0]].isdigit():
                pos[0] += 1
            fnum = int(s[j:pos[0]])
            pos[0] += 1                      # '='
            raw = s[pos[0]] == "~"
            if raw:
                pos[0] += 1
            j = pos[0]
            if s[pos[0]] == "-":
                pos[0] += 1
                val = b""
            else:
                while pos[0] < len(s) and s[pos[0]] in "0123456789abcdefABCDEF":
                    pos[0] += 1
                val = bytes.fromhex(s[j:pos[0]])
            elems = None
            if pos[0] < len(s) and s[pos[0]] == "[":
                pos[0] += 1
                elems = []
                while s[pos[0]] == "(":
                    pos[0] += 1
                    elems.append(fields())
                    pos[0] += 1              # ')'
                pos[0] += 1                  # ']'
            if pos[0] < len(s) and s[pos[0]] == ",":
                pos[0] += 1
            out.append(Fld(fnum, val, elems, raw))
        return out
    return fields()


def parse_msg(spec):
    mt, h, b, t = spec.split(";")
    return mt, parse_fields(h), parse_fields(b), parse_fields(t)


AUTO = (8, 9, 10, 35)


class MsgGen:
    """Random well-formed messages of a schema: mandatory fields + random optional subset,
    Length fields only together with the data field that follows them, groups with 0..max_elems
    elements nested to the schema's depth, every element with its position-1 field, random
    insertion order."""

    def __init__(self, meta, rng, p_opt=0.3, max_elems=3, shuffle=True, p_nodelim=0.0, no_pairs=False):
        self.meta, self.rng, self.p_opt, self.max_elems, self.shuffle = meta, rng, p_opt, max_elems, shuffle
        self.p_nodelim = p_nodelim
        self.no_pairs = no_pairs      # leave out Length-typed fields (and so the Length/data pairing)

    def part(self, owner, level=0, is_elem=False, p_opt=None):
        m, rng = self.meta, self.rng
        p = self.p_opt if p_opt is None else p_opt
        p = p / (1 + level)
        ts = sorted(m.traits.get(owner, []), key=lambda t: t.pos)
        bypos = {t.pos: t for t in ts}
        chosen = {}
        first = m.first_field(owner) if is_elem else None
        for t in ts:
            if t.fnum in AUTO and not is_elem and owner in ("header", "trailer"):
                continue
            if t.ftype in (FT_TZTIMEONLY, FT_TZTIMESTAMP):
                continue
            if t.group and not (FT_INT <= m.fields.get(t.fnum, (FT_INT, ""))[0] <= FT_END_INT):
                continue        # count field whose generated class is not int (FIX44 604): has_group_count is UB
            if t.mandatory or t.fnum == first or rng.random() < p:
                chosen[t.fnum] = t
        # MessageBase::decode pairs a Length field (other than BodyLength) with the token that
        # follows it: generate it only together with the data field at the next position
        # (decode_group has no such logic: inside elements they are plain int / string fields)
        pairs = {}
        if not is_elem:
            for t in ts:
                if t.ftype == FT_LENGTH and t.fnum != 9:
                    nxt = bypos.get(t.pos + 1)
                    if nxt is not None and nxt.ftype in (FT_DATA, FT_XMLDATA):
                        if t.fnum in chosen or nxt.fnum in chosen:
                            chosen[t.fnum] = t
                            chosen[nxt.fnum] = nxt
                            pairs[t.fnum] = nxt.fnum
                    elif not t.mandatory:
                        chosen.pop(t.fnum, None)
        if self.no_pairs and not is_elem:
            for t in ts:
                if t.ftype == FT_LENGTH and t.fnum != 9 and not t.mandatory:
                    chosen.pop(t.fnum, None)
                    pairs.pop(t.fnum, None)
        if is_elem and first in chosen and rng.random() < self.p_nodelim:
            del chosen[first]
        vals = {}
        for f, t in chosen.items():
            vals[f] = gen_value(rng, t.ftype, f)
        out = []
        for f, t in chosen.items():
            if f in pairs:
                vals[f] = str(len(vals[pairs[f]])).encode()
            elems = None
            if t.group:
                sub = m.groups.get(owner, {}).get(f)
                if sub is None:
                    continue
                n = rng.choice((0, 1, 1, 2, 2, 3)) if self.max_elems >= 3 else rng.randint(0, self.max_elems)
                if level >= 2:
                    n = min(n, 2)
                elems = [self.part(sub, level + 1, True) for _ in range(n)]
                vals[f] = str(n).encode()
                if n == 0 and rng.random() < 0.5 and not t.mandatory:
                    continue
            out.append(Fld(f, vals[f], elems))
        if self.shuffle:
            rng.shuffle(out)
        else:
            out.sort(key=lambda x: chosen[x.fnum].pos)
        return out

    def message(self, mtype=None, max_wire=6000):
        m, rng = self.meta, self.rng
        for _ in range(50):
            mt = mtype or rng.choice(sorted(m.msgs))
            hdr = self.part("header", p_opt=self.p_opt / 2)
            body = self.part(mt)
            trl = self.part("trailer", p_opt=self.p_opt / 3)
            if wire_estimate(hdr) + wire_estimate(body) + wire_estimate(trl) <= max_wire:
                return mt, hdr, body, trl
        return mt, hdr, [f for f in body if f.elems is None and m.trait(mt, f.fnum).mandatory], trl


def wire_estimate(fs):
    n = 0
    for f in fs:
        n += len(str(f.fnum)) + 2 + len(f.val)
        if f.elems:
            n += sum(wire_estimate(e) for e in f.elems)
    return n


def lacks_delimiter(meta, owner, fs):
    """True if some group element in fs (fields of `owner`) lacks its position-1 field."""
    for f in fs:
        if f.elems is None:
            continue
        sub = meta.groups.get(owner, {}).get(f.fnum)
        if sub is None:
            continue
        first = meta.first_field(sub)
        for e in f.elems:
            if first is not None and all(x.fnum != first for x in e):
                return True
            if lacks_delimiter(meta, sub, e):
                return True
    return False


def render_real(built, schema, items):
    """[(fnum, text bytes)] -> [printed bytes | None]: Field<T>(text).print() by the REAL conversion
    (harness op RENDER), for building per-case render tables."""
    lines = ["RENDER %d %s" % (f, t.hex() or "-") for f, t in items]
    out = core.run_lines([built["exes"][schema]], lines)
    res = []
    for r in out:
        if r.startswith("OK "):
            h = r[3:]
            res.append(b"" if h == "-" else bytes.fromhex(h))
        else:
            res.append(None)
    return res


# ------------------------------------------------------------------------------ large high-byte messages
def _fill(kind, n, rng):
    """n bytes of content: bytes >= 0x80 (what makes the byte lanes of calc_chksum carry) or ASCII control."""
    if kind == "ff":
        return b"\xff" * n
    if kind == "rand":
        return bytes(rng.randrange(0x80, 0x100) for _ in range(n))
    if kind == "cyr":
        s = ("Привет мир " * (n // 10 + 1)).encode("utf-8")
        return s[:n].replace(b" ", b"\xd0") if n else b""
    if kind == "cjk":
        s = ("漢字仮名交じり文" * (n // 12 + 1)).encode("utf-8")
        return s[:n]
    return b"x" * n          # ascii control


def highbyte_messages(meta, rng, sizes=(1100, 1600, 2400, 4000, 7900), kinds=("ff", "rand", "cyr", "cjk", "ascii"),
                      max_types=6, max_val=1500):
    """Messages whose encoded size is about `size` bytes, filled through their string fields (and, for
    message types that have one, through the string fields of repeating-group elements) with bytes
    >= 0x80.  Yields (class, mtype, hdr, body, trl).  Values stay below 2048 bytes (decodable)."""
    def strings(owner):
        return [t for t in meta.traits.get(owner, []) if t.ftype == FT_STRING and not t.group and (t.flags & 4)]
    flat = MsgGen(meta, rng, p_opt=0.0, max_elems=0, no_pairs=True)
    types = [mt for mt in sorted(meta.msgs) if len(strings(mt)) >= 2]
    types.sort(key=lambda mt: -len(strings(mt)))
    for mt in types[:max_types]:
        ss = strings(mt)
        for size in sizes:
            for kind in kinds:
                mt2, hdr, body, trl = flat.message(mt)
                body = [f for f in body if f.fnum not in {t.fnum for t in ss} or meta.trait(mt, f.fnum).mandatory]
                have = {f.fnum for f in body}
                base = 40 + wire_estimate(hdr) + wire_estimate(body)
                need = size - base
                for t in ss:
                    if need <= 8:
                        break
                    n = min(max_val, need - len(str(t.fnum)) - 2)
                    if t.fnum in have:
                        for f in body:
                            if f.fnum == t.fnum:
                                need += len(f.val)
                                f.val = _fill(kind, n, rng)
                    else:
                        body.append(Fld(t.fnum, _fill(kind, n, rng)))
                    need -= n + len(str(t.fnum)) + 2
                if need > 200:
                    continue          # this type cannot carry that much text
                rng.shuffle(body)
                yield "highbyte-%s-%d" % (kind, size), mt, hdr, body, []
    # groups of text lines
    k = 0
    for mt in sorted(meta.msgs):
        for gf, sub in sorted(meta.groups.get(mt, {}).items()):
            ss = strings(sub)
            first = meta.first_field(sub)
            gt = meta.trait(mt, gf)
            if not ss or first is None or gt is None or not (FT_INT <= meta.fields.get(gf, (0, ""))[0] <= FT_END_INT):
                continue
            st = ss[0]
            for size in sizes[:4]:
                for kind in kinds:
                    mt2, hdr, body, trl = flat.message(mt)
                    body = [f for f in body if f.fnum != gf]
                    per = 400
                    n = max(1, min(18, (size - 200) // (per + 12)))
                    elems = []
                    for _ in range(n):
                        e = [Fld(st.fnum, _fill(kind, per, rng))]
                        if first != st.fnum:
                            e.insert(0, Fld(first, gen_value(rng, meta.trait(sub, first).ftype, first)))
                        for t in meta.traits.get(sub, []):
                            if t.mandatory and t.fnum not in (first, st.fnum) and not t.group:
                                e.append(Fld(t.fnum, gen_value(rng, t.ftype, t.fnum)))
                        elems.append(e)
                    body.append(Fld(gf, str(n).encode(), elems))
                    yield "highbyte-group-%s-%d" % (kind, size), mt, hdr, body, []
            k += 1
            if k >= 3:
                return
