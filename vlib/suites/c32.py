"""C32 — XML configuration parser preserves element trees."""
import re

from vlib import build as B
from vlib.core import Case

ID = "C32"
LEVEL = "proof"
TECHNIQUE = ("Coq proofs (induction over attribute lists, texts, paths and element trees) about a hand-written "
             "Gallina model of XmlElement's lexer/constructor, ParseAttrs, InplaceXlate and find; the model is tied to "
             "runtime/xml.cpp by differential execution (extracted OCaml vs the real parser under ASan/UBSan, "
             "extensions switched off)")
LEVEL_TEXT = ("Theorems (all closed under the global context): c32_tree_partial (parse_doc (print_el t) = t for every tree of any "
              "width and depth <= MaxDepth = 128 with name-shaped tags/keys, NoDup keys, reference-free text and values); "
              "c32_attrs_partial (ParseAttrs inverts the attribute printer); c32_entity_single_partial / "
              "c32_entity_numeric_partial (InplaceXlate inverts named, decimal and hexadecimal escaping exactly when the text "
              "itself contains nothing reference-shaped) with c32_entity_refuted ('&lt;' written '&amp;lt;' comes back as "
              "'<'), c32_blank_text_refuted, c32_docpath_refuted; c32_find_exact (find = the elements reachable by the path, "
              "in document order, for every path string); c32_total (the model never runs out of fuel on any byte string).  "
              "Arbitrary bytes: model and code must agree on {tree, parse error text} and no sanitizer report may occur.")
LEVEL_NOTE = ("Trusted: Coq kernel, extraction (ExtrOcamlBasic), the hand transcription of xml.cpp (checked by the "
              "correspondence run), libstdc++ istream semantics of >>/peek/putback as transcribed, glibc regexec "
              "leftmost matching in the C locale, ASan/UBSan.  The `char c' re-read after a failed extraction is an "
              "indeterminate value in ISO C++; the model uses what the compiled code does (the previous character).")
DESIGN_REF = "DESIGN.md section 4, C32; finding F35"
PROPS_FILE = "Props/Properties_C32.v"
COQ_TARGETS = ["Props/Properties_C32.vo", "Extract/Extract_C32.vo"]
TRUSTED_BASE = ["Coq 8.16.1 kernel (coqc), vm_compute only",
                "Extraction with ExtrOcamlBasic, no Extract Constant; OCaml 4.13.1",
                "hand-written model coq/C32/Xml.v of runtime/xml.cpp (constructor, ParseAttrs, InplaceXlate, find), tied by "
                "differential execution; XmlElement::flags_ = {noextensions} and the C locale in every run",
                "ocaml/prelude.ml + ocaml/c32_driver.ml (hex conversion, parser of the tree dump in the case line), "
                "harness/h_c32.cpp (canonical dump of the real tree, find queries), vlib (generators, comparison)",
                "g++ 12 -fsanitize=address,undefined for 'without memory errors'"]
ASSUMPTIONS = ["documents that could spell the tag xi:include (after removal of CR/LF) are outside the checked domain: the "
               "real parser would open files named by the input; harness and model both answer SKIP",
               "the ${ENV} and !{cmd} extension forms are switched off (noextensions) in every run; with them on, InplaceXlate "
               "reads the environment and executes shell commands taken from the document",
               "after a failed stream extraction `char c' keeps the previous character (indeterminate in ISO C++, stable in the "
               "compiled code; the correspondence run exercises it at every truncation offset)",
               "memory leaks are not reported (a throwing constructor leaks the sub-elements built so far): detect_leaks=0"]
RULE = ("kind t/m: random element trees to depth 6 / width 6 (node budget 60), tags and attribute names from a name alphabet "
        "with repeated sibling tags, values and text over printable ASCII (plus some Latin-1) biased to markup characters "
        "and to near-references that are not references, printed by the printer of Spec_C32.v (re-checked by the driver "
        "with the extracted print_el; kind m: the same trees rendered with a random mix of named, decimal and hexadecimal references) with find queries (existing, partly wrong and odd paths, // forms, attribute "
        "tests, from the root and from inner elements); lookup trees whose attribute values come from a pool of near-misses "
        "(proper prefixes, extensions, empty value, case variants, the same value under another name) queried through both find "
        "overloads with filter values drawn from the values present, their prefixes/extensions and absent values, null atag/aval "
        "pointers and other delimiters, absolute and relative paths; plus the three refuted regions (reference-shaped text, blank-only "
        "text, attribute docpath). kind b: truncation of printed documents at every offset, byte flips/insertions/"
        "deletions, duplicate attributes, unbalanced tags, nesting to and beyond MaxDepth, stray '&', reference soup, "
        "unterminated comments/quotes/declarations, newlines before errors, NUL bytes, random bytes up to 4 KB. "
        "non-trivial = a tree with at least 3 elements or an escaped character (kind t), a result with a child element "
        "or a parse error (kind b); distinct = distinct case lines")

RUNTIME = ["xml.cpp", "f8utils.cpp", "modp_numtoa.c", "logger.cpp", "gzstream.cpp", "message.cpp", "traits.cpp"]


def build(tier):
    return {"impl": [B.harness("h_c32", runtime=RUNTIME)]}


# ------------------------------------------------------------------------------ trees
class T:
    __slots__ = ("tag", "value", "attrs", "kids")

    def __init__(self, tag, value=None, attrs=None, kids=None):
        self.tag, self.value, self.attrs, self.kids = tag, value, attrs or [], kids or []


ESC = {0x26: b"&amp;", 0x3c: b"&lt;", 0x3e: b"&gt;", 0x22: b"&quot;", 0x27: b"&apos;"}


def escape(v):
    return b"".join(ESC.get(c, bytes([c])) for c in v)


def print_el(t):
    out = b"<" + t.tag + b"".join(b" " + k + b'="' + escape(v) + b'"' for k, v in t.attrs)
    if t.value is None and not t.kids:
        return out + b"/>"
    return out + b">" + escape(t.value or b"") + b"".join(print_el(k) for k in t.kids) + b"</" + t.tag + b">"


def escape_mixed(rng, v):
    """markup characters (always) and other characters (sometimes) as named / decimal / hexadecimal references"""
    out = bytearray()
    for c in v:
        if c in ESC or rng.random() < 0.08:
            forms = [b"&#%d;" % c, b"&#x%x;" % c, b"&#x%X;" % c, b"&#0%d;" % c, b"&#x00%x;" % c]
            if c in ESC:
                forms += [ESC[c]] * 3
            out += rng.choice(forms)
        else:
            out.append(c)
    return bytes(out)


def print_mixed(rng, t):
    out = b"<" + t.tag + b"".join(b" " + k + b'="' + escape_mixed(rng, v) + b'"' for k, v in t.attrs)
    if t.value is None and not t.kids:
        return out + b"/>"
    return (out + b">" + escape_mixed(rng, t.value or b"") + b"".join(print_mixed(rng, k) for k in t.kids)
            + b"</" + t.tag + b">")


def dump(t):
    return ("<" + t.tag.hex() + ("" if t.value is None else "=" + t.value.hex())
            + "".join("@%s:%s" % (k.hex(), v.hex()) for k, v in t.attrs) + "".join(dump(k) for k in t.kids) + ">")


def parse_dump(s):
    pos = [0]

    def hexrun():
        m = re.compile(r"[0-9a-f]*").match(s, pos[0])
        pos[0] = m.end()
        return bytes.fromhex(m.group(0))

    def elem():
        assert s[pos[0]] == "<"
        pos[0] += 1
        t = T(hexrun())
        if s[pos[0]] == "?":
            pos[0] += 1
            hexrun()
        if s[pos[0]] == "=":
            pos[0] += 1
            t.value = hexrun()
        while s[pos[0]] == "@":
            pos[0] += 1
            k = hexrun()
            pos[0] += 1
            t.attrs.append((k, hexrun()))
        while s[pos[0]] == "<":
            t.kids.append(elem())
        pos[0] += 1
        return t
    return elem()


def nodes(t):
    yield t
    for k in t.kids:
        yield from nodes(k)


REF_RE = re.compile(rb"&([a-z]{2,}[1-4]*|#x[0-9A-Fa-f]+|#[0-9]+);")


def ref_free(v):
    return REF_RE.search(v) is None


def strings(t):
    for n in nodes(t):
        if n.value is not None:
            yield n.value
        for _, v in n.attrs:
            yield v


TAGS = [b"a", b"b", b"c", b"item", b"x.y", b"n-1", b"A_b", b"ns:t", b"session", b"Z9", b"default", b"v"]
KEYS = [b"name", b"value", b"id", b"k", b"x-1", b"a.b", b"ns:k", b"Q_", b"type", b"a"]
NEAR = [b"&", b"& ", b"&;", b"&l;", b"&lt", b"& lt;", b"&LT;", b"&#;", b"&#x;", b"&#12", b"&#xg1;", b"&a1;", b"&ab5;",
        b"&1ab;", b"a&b", b"&&", b"<&>", b"\"'", b"&#-1;", b"&# 1;", b"&amp", b"&ampx", b"&lt ;", b"&#x 41;", b"&l4;"]
REFS = [b"&lt;", b"&amp;", b"&gt;", b"&quot;", b"&apos;", b"&#60;", b"&#x3c;", b"&#x3C;", b"&bogus;", b"&frac14;", b"&nbsp;",
        b"&amp;lt;", b"&#38;#60;", b"&ab;", b"&zz12;", b"&#0065;", b"&#x141;", b"&#99999999999;", b"&sup2;"]


def rand_text(rng, lo=0, hi=14):
    n = rng.randrange(lo, hi + 1)
    mode = rng.randrange(6)
    out = bytearray()
    while len(out) < n:
        r = rng.random()
        if mode == 0 or r < 0.15:
            out += rng.choice(NEAR)
        elif r < 0.45:
            out.append(rng.choice(b"&<>\"' /=;#!?-[]{}$\\"))
        elif r < 0.5 and mode == 5:
            out.append(rng.randrange(0xa0, 0x100))
        else:
            out.append(rng.randrange(0x20, 0x7f))
    v = bytes(out)
    while not ref_free(v):          # "&" next to "lt;" may have formed a reference
        m = REF_RE.search(v)
        v = v[:m.start()] + b"& " + v[m.start() + 1:]
    return v


def rand_value_text(rng):
    v = rand_text(rng, 1, 14)
    if not v.strip(b" \t"):
        v += bytes([rng.randrange(0x21, 0x7f)])
        while not ref_free(v):
            v = v[:-1] + b"x"
    return v


def rand_tree(rng, depth, width, budget, tags=TAGS):
    """budget: list with the remaining number of elements"""
    tagset = tags[:rng.choice((2, 3, 5, len(tags)))]

    def go(d):
        budget[0] -= 1
        t = T(rng.choice(tagset))
        keys = rng.sample(KEYS, rng.choice((0, 0, 1, 1, 2, 3, 6)))
        t.attrs = [(k, rand_text(rng)) for k in keys]
        if rng.random() < 0.4:
            t.value = rand_value_text(rng)
        if d < depth:
            for _ in range(rng.randrange(0, width + 1)):
                if budget[0] <= 0:
                    break
                t.kids.append(go(d + 1))
        return t
    return go(0)


def addresses(t, a=()):
    yield a, t
    for i, k in enumerate(t.kids):
        yield from addresses(k, a + (i,))


def render_addr(a):
    return "r" + "".join(".%d" % i for i in a)


def rand_queries(rng, t, n):
    al = list(addresses(t))
    qs = []
    for _ in range(n):
        a, node = rng.choice(al)
        # path from the root to that element
        comps = []
        cur = t
        comps.append(cur.tag)
        for i in a:
            cur = cur.kids[i]
            comps.append(cur.tag)
        mode = rng.randrange(10)
        start = ()
        if mode == 0 and len(comps) > 1:      # wrong component
            comps[rng.randrange(len(comps))] = rng.choice(TAGS)
        elif mode == 1:                        # odd forms
            comps.insert(rng.randrange(len(comps) + 1), rng.choice((b"", b"", b"x")))
        elif mode == 2 and len(comps) > 1:     # too short / too long
            comps = comps[:rng.randrange(1, len(comps))] if rng.random() < 0.5 else comps + [rng.choice(TAGS)]
        path = b"/".join(comps)
        r = rng.random()
        if r < 0.3:
            path = b"//" + path
            start = rng.choice(al)[0]
        elif r < 0.35:
            path = b"////" + path
        elif r < 0.6 and a:                    # relative to an inner element on the way
            cut = rng.randrange(1, len(a) + 1)
            start = a[:cut]
            path = b"/".join(comps[cut:]) if mode not in (0, 1, 2) else path
        q = "%s:%s:%s" % (rng.choice("1A"), render_addr(start), path.hex())
        if rng.random() < 0.3:
            if node.attrs and rng.random() < 0.7:
                k, v = rng.choice(node.attrs)
                if rng.random() < 0.2:
                    v = v + b"x"
            else:
                k, v = rng.choice(KEYS), b"1"
            q += ":%s:%s" % (k.hex(), v.hex())
        qs.append(q)
    return ";".join(qs) if qs else "-"


# ---- filtered lookups: attribute values from a small pool full of near-misses
VPOOL = [b"DLD1", b"DLD10", b"DLD", b"dld1", b"DLD1 ", b"", b"D", b"DLD12", b"init", b"initiator", b"Init", b"1", b"10", b"<&>"]
FKEYS = [b"name", b"role", b"id"]


def lookup_tree(rng, depth, width, budget):
    tagset = TAGS[:rng.choice((1, 2, 3))]
    pool = rng.sample(VPOOL, rng.choice((3, 5, len(VPOOL))))

    def go(d):
        budget[0] -= 1
        t = T(rng.choice(tagset))
        t.attrs = [(k, rng.choice(pool)) for k in rng.sample(FKEYS, rng.choice((1, 2, 2, 3)))]
        if rng.random() < 0.2:
            t.value = rand_value_text(rng)
        if d < depth:
            for _ in range(rng.randrange(1, width + 1)):
                if budget[0] <= 0:
                    break
                t.kids.append(go(d + 1))
        return t
    return go(0)


def near_values(rng, v, present):
    """the value itself, proper prefixes (incl. the empty one), extensions, case variants, other/absent values"""
    c = [v, v, v[:len(v) // 2], v[:-1], b"", v + b"0", v + b" ", v.swapcase(), v.lower(), b"absent", rng.choice(VPOOL)]
    if present:
        c += [rng.choice(present)] * 2
    return rng.choice(c)


def filter_queries(rng, t, n):
    al = list(addresses(t))
    present = sorted(set(v for _, x in al for _, v in x.attrs))
    qs = []
    for _ in range(n):
        a, node = rng.choice(al)
        comps = [t.tag]
        cur = t
        for i in a:
            cur = cur.kids[i]
            comps.append(cur.tag)
        delim = rng.choice((b"/", b"/", b"/", b"|", b",", b"!"))
        start = ()
        r = rng.random()
        if r < 0.35:
            path = b"//" + delim.join(comps)
            start = rng.choice(al)[0]
        elif r < 0.65 and a:
            cut = rng.randrange(1, len(a) + 1)
            start = a[:cut]
            path = delim.join(comps[cut:])
        else:
            path = delim.join(comps)
        k, v = rng.choice(node.attrs)
        m = rng.random()
        if m < 0.12:                          # the same value under another attribute name
            k = rng.choice([x for x in FKEYS if x != k])
        elif m < 0.18:
            k = b"absent"
        v = near_values(rng, v, present)
        kf = "~" if rng.random() < 0.06 else k.hex()
        vf = "~" if rng.random() < 0.06 else v.hex()
        q = "%s:%s:%s:%s:%s" % (rng.choice("1A"), render_addr(start), path.hex(), kf, vf)
        if delim != b"/" or rng.random() < 0.2:
            q += ":" + delim.hex()
        qs.append(q)
    return ";".join(qs)


def tcase(t, queries, cls):
    return Case("t %s %s %s" % (print_el(t).hex(), dump(t), queries), cls)


def mcase(rng, t, queries, cls):
    return Case("m %s %s %s" % (print_mixed(rng, t).hex(), dump(t), queries), cls)


def bcase(b, cls, queries="-"):
    return Case("b %s - %s" % (bytes(b).hex() or "-", queries), cls)


def byte_queries(rng, b):
    names = list(set(re.findall(rb"[A-Za-z_][A-Za-z0-9_.:-]*", bytes(b)))) or [b"a"]
    qs = []
    for _ in range(rng.randrange(0, 4)):
        comps = [rng.choice(names) for _ in range(rng.randrange(1, 4))]
        path = (b"//" if rng.random() < 0.3 else b"") + b"/".join(comps)
        qs.append("%s:r:%s" % (rng.choice("1A"), path.hex()))
    return ";".join(qs) if qs else "-"


FIXED_DOCS = [
    b"", b"<", b"<a", b"<a>", b"<a/>", b"<a></a>", b"<a></b>", b"<a><b></a>", b"<a x=\"1\" x=\"2\"/>", b"<a x=1/>",
    b"<a x=\"/>", b"<a x=\">", b"<a x=\"1\n", b"<a b=1\n", b"<a>\n<b c=1/>\n\n", b"<a>\n<b>\n</c>\n", b"<a><", b"<a></",
    b"<a>t</a", b"<a>t</a ", b"<!DOCTYPE x><a/>", b"<a/b c=\"1\"/>", b"<a /x=\"1\"/>", b"<a x = \"1\" y='\"'/>",
    b"<a>&#0;&lt;</a>", b"<a>&#99999999999;&#xfffffffff;&#256;&#65601;</a>", b"<a b=\"x/>y\"/>", b"<a b=\"x>y\"/>",
    b"<?xml version=\"1.0\"?><!-- c --><a><!-- d --><?pi?><b/></a>", b"<?a?><?b?><r/>", b"<a><!-- unterminated </a>",
    b"<a><!-- x ---></a>", b"<a><!- x --></a>", b"<a><!x></a>", b"<a><![CDATA[ <b/> ]]></a>", b"<a docpath=\"x\" e=\"1\"/>",
    b"<a>  </a>", b"<a> x </a>", b"<a>x<b/>y<c/>z</a>", b"<a\tb=\"1\"\r\n c='2'></a>", b"< a></a>", b"<a ></a >",
    b"<=/>", b"<a\\/>", b"<a\"/>", b"<a'b/>", b"<a =\"1\"/>", b"<a b =  '1'/>", b"<a b \"1\"/>", b"<a b=\"1\"c='2'/>",
    b"<a b=\"&amp;amp;amp;lt;\"/>", b"<a>&#38;#38;#60;</a>", b"<a>&#x26;lt;</a>", b"<a>&amp;#60;</a>", b"<a>&lt;&bogus;&x;&xy;&xy12345;</a>",
    b"<a>&#x;&#;&#xZ;&#12a;</a>", b"<a>\x00&lt;</a>", b"<a b=\"\x00&lt;\"/>", b"<a>x</a><b/>", b"junk<a/>", b"\n\n<a\n/>",
    b"<a><b/></a></a>", b"</a>", b"<a>/</a>", b"<a></ a>", b"<a><//a>", b"<>x</>", b"<><b/></>", b"<a><></></a>",
    b"<a b='1'/ >", b"<a/ >", b"<a b=\"1\" docpath=\"q\" b=\"2\"/>", b"<a><b c=\"1\" c=\"2\"/></a>", b"<a>\xff\xfe</a>",
    b"<a \xa0=\"1\"/>", b"<?xml", b"<?xml?", b"<!--", b"<!-- -", b"<!-- --", b"<a x='${HOME}' y='!{echo hi}'>${PATH}!{id}</a>",
]


def deep(n, tail=b""):
    return b"".join(b"<e%d>" % (i % 7) for i in range(n)) + tail + b"".join(b"</e%d>" % (i % 7) for i in reversed(range(n)))


def mutate(rng, b):
    b = bytearray(b)
    for _ in range(rng.choice((1, 1, 1, 2, 3))):
        if not b:
            break
        m = rng.randrange(8)
        i = rng.randrange(len(b))
        if m == 0:
            b[i] = rng.choice(b"<>/=\"'&;#!?- \n\r\t\\x")
        elif m == 1:
            del b[i]
        elif m == 2:
            b.insert(i, rng.choice(b"<>/=\"'&;#!?- \n\r\t\\x\x00"))
        elif m == 3:
            b[i] = rng.randrange(256)
        elif m == 4:
            j = rng.randrange(len(b))
            b[i:i] = b[j:j + rng.randrange(1, 12)]
        elif m == 5:
            ins = rng.choice((b"<!-- c -->", b"<?pi x?>", b"<!--", b"-->", b"<![CDATA[", b"]]>", b"\n", b"</x>", b"<y>", b"&", b"&#",
                              b"&lt;", b"<!DOCTYPE z>", b"/>", b"=\"", b" k=\"v\""))
            b[i:i] = ins
        elif m == 6:
            del b[i:i + rng.randrange(1, 10)]
        else:
            b[i] ^= 1 << rng.randrange(8)
    return bytes(b)


def gen_cases(rng, tier):
    thorough = tier == "thorough"
    cs = []
    # ---- kind t, inside the hypotheses of c32_tree_partial
    ntrees = 1500 if thorough else 600
    small = []
    for n in range(ntrees):
        depth = rng.choice((0, 1, 2, 3, 4, 6))
        width = rng.choice((1, 2, 3, 6))
        t = rand_tree(rng, depth, width, [rng.choice((3, 8, 20, 60))])
        cs.append(tcase(t, rand_queries(rng, t, rng.choice((0, 2, 4, 8))), "tree-wf"))
        if len(print_el(t)) < 120:
            small.append(t)
        if n % 3 == 0:
            cs.append(mcase(rng, t, rand_queries(rng, t, 2), "tree-wf-mixed-references"))
    # filtered lookups over near-miss attribute values
    for n in range(300 if thorough else 80):
        t = lookup_tree(rng, rng.choice((1, 2, 3)), rng.choice((2, 3, 5)), [rng.choice((4, 10, 25))])
        if n % 4 == 0:
            cs.append(mcase(rng, t, filter_queries(rng, t, 12), "tree-filtered-find"))
        else:
            cs.append(tcase(t, filter_queries(rng, t, 12), "tree-filtered-find"))
    # full depth 6 / width 6 skeletons
    for _ in range(20 if thorough else 4):
        t = rand_tree(rng, 6, 6, [rng.choice((200, 400))], tags=TAGS[:3])
        cs.append(tcase(t, rand_queries(rng, t, 10), "tree-wf-large"))
    # a chain down to MaxDepth
    for d in ((5, 127, 128) if thorough else (128,)):
        t = T(b"leaf", rand_value_text(rng))
        for i in range(d):
            t = T(TAGS[i % 3], None, [], [t])
        cs.append(tcase(t, "A:r:%s;1:r:%s" % (b"/".join([TAGS[i % 3] for i in reversed(range(d))] + [b"leaf"]).hex(), b"//a".hex()), "tree-depth"))
    # ---- kind t, the refuted regions (known findings)
    for _ in range(120 if thorough else 40):
        t = rand_tree(rng, rng.choice((0, 1, 2)), 2, [rng.choice((1, 3, 6))])
        n = rng.choice(list(nodes(t)))
        v = rand_text(rng, 0, 5) + rng.choice(REFS) + rand_text(rng, 0, 5)
        if n.attrs and rng.random() < 0.5:
            k = rng.randrange(len(n.attrs))
            n.attrs[k] = (n.attrs[k][0], v)
        else:
            n.value = v
        cs.append(tcase(t, "-", "tree-reference-shaped"))
    for _ in range(40 if thorough else 12):
        t = rand_tree(rng, rng.choice((0, 1, 2)), 2, [rng.choice((1, 3, 6))])
        rng.choice(list(nodes(t))).value = rng.choice((b" ", b"  ", b"\t", b" \t ", b"   "))
        cs.append(tcase(t, "-", "tree-blank-text"))
    for _ in range(40 if thorough else 12):
        t = rand_tree(rng, rng.choice((0, 1, 2)), 2, [rng.choice((1, 3, 6))])
        n = rng.choice(list(nodes(t)))
        n.attrs.insert(rng.randrange(len(n.attrs) + 1), (b"docpath", rand_text(rng)))
        cs.append(tcase(t, "-", "tree-docpath"))
    # ---- kind b
    for d in FIXED_DOCS:
        cs.append(bcase(d, "fixed", byte_queries(rng, d)))
    for n in (126, 127, 128, 129, 130, 200):
        cs.append(bcase(deep(n, b"x"), "deep"))
        cs.append(bcase(deep(n, b"<!-- c -->"), "deep"))
        cs.append(bcase(deep(n)[:len(deep(n)) // 2], "deep"))
    # truncation at every offset
    for t in (small[:40] if thorough else small[:9]):
        p = print_el(t)
        for i in range(len(p)):
            cs.append(bcase(p[:i], "truncate"))
    # decorated documents: declaration, comments, newlines, processing instructions between elements
    for _ in range(300 if thorough else 60):
        t = rand_tree(rng, rng.choice((1, 2, 3)), 3, [rng.choice((4, 10))])
        p = bytearray(print_el(t))
        for _ in range(rng.randrange(1, 6)):
            pos = [m.start() for m in re.finditer(rb"<", bytes(p))] + [len(p)]
            i = rng.choice(pos)
            p[i:i] = rng.choice((b"<!-- a - b -- c -->", b"<?pi?>", b"\n", b"\r\n  ", b"<!---->", b"<?xml version=\"1.0\"?>", b"<!-- <x> -->", b" \t "))
        cs.append(bcase(p, "decorated", byte_queries(rng, p)))
    # mutations
    for _ in range(4000 if thorough else 1500):
        t = rand_tree(rng, rng.choice((0, 1, 2, 3)), 3, [rng.choice((2, 5, 12))])
        p = mutate(rng, print_el(t))
        cs.append(bcase(p, "mutated", byte_queries(rng, p)))
    # duplicate attributes / unbalanced tags
    for _ in range(100 if thorough else 25):
        t = rand_tree(rng, 2, 3, [8])
        n = rng.choice(list(nodes(t)))
        if n.attrs:
            n.attrs.append((n.attrs[0][0], b"dup"))
        else:
            n.tag = n.tag + b"x"
        p = print_el(t)
        if not n.attrs:
            p = p.replace(b"</" + n.tag + b">", b"</" + n.tag[:-1] + b">", 1)
        cs.append(bcase(p, "dup-or-unbalanced"))
    # reference soup through text and attribute values
    for _ in range(600 if thorough else 250):
        parts = []
        for _ in range(rng.randrange(1, 7)):
            r = rng.random()
            parts.append(rng.choice(REFS) if r < 0.5 else rng.choice(NEAR) if r < 0.8 else
                         b"&#%d;" % rng.choice((0, 9, 10, 38, 59, 60, 255, 256, 257, 65535, 65536, 2 ** 31 - 1, 2 ** 31, 2 ** 40)) if r < 0.9
                         else b"&#x%x;" % rng.randrange(0, 2 ** rng.choice((7, 8, 16, 33))))
        v = b"".join(parts)
        cs.append(bcase(b"<a>" + v + b"</a>" if rng.random() < 0.5 else b"<a k=\"" + v.replace(b"\"", b"") + b"\"/>", "reference-soup"))
    # random bytes
    xmlish = b"<>/=\"'&;#!?- \n\tabcx1\\[]"
    for _ in range(600 if thorough else 100):
        n = rng.choice((1, 2, 3, 5, 8, 16, 40, 100, 400))
        cs.append(bcase(bytes(rng.choice(xmlish) for _ in range(n)), "random-xmlish"))
    for _ in range(60 if thorough else 10):
        n = rng.choice((10, 100, 1000, 4096))
        cs.append(bcase(bytes(rng.randrange(256) for _ in range(n)), "random-bytes"))
    for _ in range(12 if thorough else 3):
        body = bytes(rng.choice(xmlish) for _ in range(4096 - 7))
        cs.append(bcase(b"<a>" + body.replace(b"<", b"x") + b"</a>", "random-4k"))
    return cs


# ------------------------------------------------------------------------------ evaluation
def nontrivial(case, r):
    f = case.line.split(" ")
    if f[0] in "tm":
        t = parse_dump(f[2])
        return sum(1 for _ in nodes(t)) >= 3 or any(c in ESC for s in strings(t) for c in s)
    return r.startswith("E ") or (r.startswith("T <") and r.count("<") >= 2)


def _tree(case):
    f = case.line.split(" ")
    return parse_dump(f[2]) if f[0] in "tm" else None


def _blank_only(v):
    return v is not None and not v.strip(b" \t")


def c_reference_shaped(case, r, m):
    """negation of `ref_free' of c32_tree_partial / c32_entity_single_partial: some text or value itself contains
    something reference-shaped (everything else well-formed)"""
    t = _tree(case)
    return (t is not None and any(not ref_free(s) for s in strings(t))
            and not any(_blank_only(n.value) for n in nodes(t)) and not any(k == b"docpath" for n in nodes(t) for k, _ in n.attrs))


def c_blank_text(case, r, m):
    """negation of `text has a character other than blank/tab'"""
    t = _tree(case)
    return (t is not None and any(_blank_only(n.value) for n in nodes(t)) and all(ref_free(s) for s in strings(t))
            and not any(k == b"docpath" for n in nodes(t) for k, _ in n.attrs))


def c_docpath(case, r, m):
    """negation of `attribute name is not docpath'"""
    t = _tree(case)
    return (t is not None and any(k == b"docpath" for n in nodes(t) for k, _ in n.attrs) and all(ref_free(s) for s in strings(t))
            and not any(_blank_only(n.value) for n in nodes(t)))


CLASSIFIERS = {"reference-shaped-text": c_reference_shaped, "blank-text": c_blank_text, "docpath-attribute": c_docpath}


def extra_search(rng, seeds, tier):
    out = gen_cases(rng, "quick")
    for c in seeds[:30]:
        f = c.line.split(" ")
        b = bytes.fromhex(f[1]) if f[1] != "-" else b""
        for _ in range(30):
            out.append(bcase(mutate(rng, b), "neighbour"))
    return out


def _outside(t):
    """in one of the refuted regions (where the unchanged code fails the oracle as well)"""
    return (any(not ref_free(s) for s in strings(t)) or any(_blank_only(n.value) for n in nodes(t))
            or any(k == b"docpath" for n in nodes(t) for k, _ in n.attrs))


def shrink(case):
    cands = _shrink(case)
    f = case.line.split(" ")
    if f[0] in "tm":
        # do not drift from a new failure into a listed finding
        if _outside(parse_dump(f[2])):
            return []
        cands = [c for c in cands if not _outside(parse_dump(c.line.split(" ")[2]))]
    return cands


def _shrink(case):
    f = case.line.split(" ")
    out = []
    if f[0] == "b":
        b = bytes.fromhex(f[1]) if f[1] != "-" else b""
        n = len(b)
        for cut in sorted(set((n // 2, n // 4, 8, 1))):
            if 0 < cut <= n:
                for i in range(0, n, cut):
                    out.append(bcase(b[:i] + b[i + cut:], "shrink", f[3]))
        if f[3] != "-":
            out.append(bcase(b, "shrink"))
    else:
        t = parse_dump(f[2])
        # drop one child / attribute / text somewhere
        for n in list(nodes(t)):
            for i in range(len(n.kids)):
                saved = n.kids[i]
                del n.kids[i]
                out.append(tcase(t, "-", "shrink"))
                n.kids.insert(i, saved)
            for i in range(len(n.attrs)):
                saved = n.attrs[i]
                del n.attrs[i]
                out.append(tcase(t, "-", "shrink"))
                n.attrs.insert(i, saved)
            if n.value:
                saved = n.value
                for v in (None, saved[:len(saved) // 2], saved[len(saved) // 2:], saved[1:], saved[:-1]):
                    n.value = v or None      # Some "" is not a tree of the property (prints like None)
                    out.append(tcase(t, "-", "shrink"))
                n.value = saved
        if f[3] != "-":
            qs = f[3].split(";")
            for i in range(len(qs)):
                out.append(tcase(t, ";".join(qs[:i] + qs[i + 1:]) or "-", "shrink"))
    return out
