"""C04 — strict decoding accepts exactly schema-conforming messages."""
from vlib import build as B
from vlib import codecgen as G
from vlib import core
from vlib.core import Case

ID = "C04"
LEVEL = "proof"
TECHNIQUE = ("Coq proofs about the hand-written Gallina model of Message::factory / MessageBase::decode / decode_group "
             "(coq/Codec, strict mode); the property is stated as an independent executable oracle (tokenizer, checksum, greedy "
             "schema parse, multiset retention) applied to the input bytes and to the dump of the accepted message; the model "
             "is tied to the real decoder by differential execution on mutated valid messages generated from the metadata "
             "dumped from the compiled schema classes")
LEVEL_TEXT = ("see coq/Props/Properties_C04.v: c04_accept_sound_partial = soundness of acceptance for ALL byte strings (checksum via "
              "C07's theorem, mandatory fields, duplicates, first field of group elements at every depth, by invariants of "
              "decode / decode_group); c04_retains_refuted = three independent kernel-checked refutations of retention (F10, F11, "
              "F12); c04_exact_partial / c04_exact_retains_partial = on token sequences meeting explicit boolean hypotheses and "
              "whose tags are all legal at their position the model accepts iff the input conforms, never ends in a memory error, "
              "hang or fuel exhaustion, and the accepted object retains every token (the oracle c04_ok holds on the model's "
              "result; proof: lockstep of the decoder model with the spec's greedy parse, unbounded in length and nesting); the "
              "model is tied to Message::factory by identical result lines (exception class and argument, or the complete object "
              "dump) on every generated case")
LEVEL_NOTE = ("Trusted: Coq kernel, extraction (ExtrOcamlBasic), the hand transcription in coq/Codec (checked by the "
              "correspondence run), the metadata dump of harness/meta_dump.hpp, the OCaml driver's parsers, vlib generators.")
DESIGN_REF = "DESIGN.md section 4, Codec group, C04 (findings F10, F11, F12)"
PROPS_FILE = "Props/Properties_C04.v"
COQ_TARGETS = ["Props/Properties_C04.vo", "Extract/Extract_C04.vo"]
TRUSTED_BASE = ["Coq 8.16.1 kernel (coqc), vm_compute only", "Extraction with ExtrOcamlBasic, no Extract Constant; OCaml 4.13.1",
                "hand-written model coq/Codec/*.v of runtime/message.cpp + include/fix8/message.hpp, tied by differential execution",
                "harness/h_codec.cpp + harness/meta_dump.hpp (metadata taken from the compiled generated classes)",
                "ocaml/prelude.ml + ocaml/c04_driver.ml (metadata and dump parsers), vlib/codecgen.py + vlib/suites/c04.py (generators)"]
ASSUMPTIONS = ["values contain neither SOH nor NUL",
               "float / date / time texts are canonical for their type (render is the identity on them; C08 / C09 own the conversions)",
               "int texts stay below 2^31 in absolute value (fast_atoi<int> multiplies without an overflow test)",
               "the schema metadata satisfies wf_ctx (evaluated by the extracted code on every run; the check refuses to run when "
               "the quick-tier schema FIX42UTEST fails it; FIX44 fails it through field 604 only, see wf_ctx_note in the evidence)",
               "a Length-typed token directly followed by a piece with more leading digits than its own tag is not generated: "
               "decode then reads tag[] beyond the bytes written (uninitialised stack; the codec model answers OOB 4; C03 / C06)",
               "BodyLength texts that read as a negative int are not generated (the shared codec model re-renders the stored "
               "text of a set() int field, which is not the identity below zero)"]
RULE = ("valid messages generated from the dumped metadata (every message type; mandatory fields plus a random optional subset; groups "
        "with 0..3 elements nested to the schema's depth; part fields in schema order or shuffled), each with 0..2 mutations drawn from: "
        "unknown tag inserted (anywhere / at the end of a part / inside a group element), tag raised by a multiple of 65536, wrong "
        "checksum, CheckSum text variants (sum + 256 / 512 / 768, i.e. equal only modulo 256; four bytes 0ddd; unpadded; signed; "
        "sum + 1000; three bytes with a non-digit that fast_atoi reads as the sum), wrong or zero-padded BodyLength, duplicate of a part-level token, duplicate of 8/9/35/10, token moved to another part "
        "or into / out of a group, mandatory token deleted, random token deleted, first token of a group element deleted or swapped, "
        "int text variants (+5 1e3 007 -0 -7), BeginString changed, zero-padded tag, token without '=' / with empty tag (also inside "
        "group elements), value of 2046..3000 bytes / BodyLength or MsgType text of 29..43 bytes (buffer capacities), part fields "
        "reshuffled, count changed, last token dropped, unknown MsgType; plus a long-message class: conforming messages of 2 KB .. "
        "8000 bytes (repeated group elements, long string values over digit / upper / lower / '~' / 0x80..0xff alphabets), each with the "
        "correct CheckSum and with the byte sum +-1..6 and another wrong value.  non-trivial = the decoder got past the preamble (result is an "
        "object dump or an exception other than InvalidMessage) on at least 8 tokens; distinct = distinct case lines")


def schemas(tier):
    return ("utest", "fix44") if tier == "thorough" else ("utest",)


def pre(schema, default):
    return "" if schema == default else "@%s " % schema


_state = {}


def wf_probe(built):
    """wf_ctx (the schema hypothesis of the theorems) evaluated by the extracted code on each dumped schema."""
    import subprocess
    drv = [B.ocaml_driver(ID)] + built["driver_args"]
    default = next(iter(built["exes"]))
    out = {}
    for s in built["exes"]:
        p = subprocess.run(drv, input=(pre(s, default) + "WF\t\n").encode(), stdout=subprocess.PIPE, stderr=subprocess.PIPE, timeout=300)
        out[s] = p.stdout.decode().split("\t")[0] == "WF 1"
    return out


def build(tier):
    built = G.build_codec(schemas(tier))
    _state["built"] = built
    wf = wf_probe(built)
    _state["wf"] = wf
    default = next(iter(built["exes"]))
    if not wf[default]:
        raise B.BuildError("the metadata of schema %s does not satisfy wf_ctx: the theorems of C04 do not apply to it" % default)
    return built


def extra_evidence(ctx):
    return {"wf_ctx": _state.get("wf", {}),
            "wf_ctx_note": "FIX44 fails wf_ctx only through field 604 (NoLegSecurityAltID): its trait is a group count of int type, "
                           "the generated class is a STRING field, so has_group_count reads a std::string as an int (UB; the shared "
                           "codec model answers true, READY.md); the generator avoids that count field"}


# ------------------------------------------------------------------------------ tokens
SOH = b"\x01"


class Tok:
    """One token of a message under construction.  raw != None: bytes emitted verbatim."""
    __slots__ = ("tag", "tagtext", "val", "part", "owner", "depth", "first", "raw", "elem")

    def __init__(self, tag, val, part, owner, depth=0, first=False, elem=None):
        self.tag, self.tagtext, self.val = tag, str(tag).encode(), val
        self.part, self.owner, self.depth, self.first, self.raw, self.elem = part, owner, depth, first, None, elem

    def copy(self):
        t = Tok(self.tag, self.val, self.part, self.owner, self.depth, self.first, self.elem)
        t.tagtext, t.raw = self.tagtext, self.raw
        return t

    def bytes(self):
        return self.raw if self.raw is not None else self.tagtext + b"=" + self.val + SOH


def wire(toks, begin, mtype, bodylen=None, chk=None, last=True, chktext=None):
    body = b"35=" + mtype + SOH + b"".join(t.bytes() for t in toks)
    bl = str(len(body)).encode() if bodylen is None else bodylen
    s = b"8=" + begin + SOH + b"9=" + bl + SOH + body
    ck = sum(s) % 256
    if chk is not None:
        ck = (ck + chk) % 256
    text = b"%03d" % ck if chktext is None else chktext(ck)
    return s + (b"10=" + text + SOH if last else b"")


def order_units(meta, owner, fs, rng, shuffle):
    """Fields of one part as a list of units (a Length field stays directly before its data field)."""
    by = {f.fnum: f for f in fs}
    ts = {t.fnum: t for t in meta.traits.get(owner, [])}
    bypos = {t.pos: t for t in meta.traits.get(owner, [])}
    units, used = [], set()
    for f in sorted(fs, key=lambda f: ts[f.fnum].pos if f.fnum in ts else 0):
        if f.fnum in used:
            continue
        t = ts.get(f.fnum)
        if t is not None and t.ftype == G.FT_LENGTH and f.fnum != 9:
            nxt = bypos.get(t.pos + 1)
            if nxt is not None and nxt.fnum in by and nxt.fnum not in used:
                units.append([f, by[nxt.fnum]])
                used.update((f.fnum, nxt.fnum))
                continue
        units.append([f])
        used.add(f.fnum)
    if shuffle:
        rng.shuffle(units)
    return [f for u in units for f in u]


_elem_id = [0]


def flatten(meta, owner, part, fs, rng, shuffle, depth=0, elem=None, out=None):
    out = [] if out is None else out
    if depth == 0:
        fs = order_units(meta, owner, fs, rng, shuffle)
    else:
        first = meta.first_field(owner)
        rest = [f for f in fs if f.fnum != first]
        if shuffle:
            rng.shuffle(rest)
        else:
            rest.sort(key=lambda f: (meta.trait(owner, f.fnum).pos if meta.trait(owner, f.fnum) else 0))
        fs = [f for f in fs if f.fnum == first] + rest
    for k, f in enumerate(fs):
        out.append(Tok(f.fnum, f.val, part, owner, depth, depth > 0 and k == 0, elem))
        if f.elems:
            sub = meta.groups.get(owner, {}).get(f.fnum)
            for e in f.elems:
                _elem_id[0] += 1
                flatten(meta, sub, part, e, rng, shuffle, depth + 1, _elem_id[0], out)
    return out


INT_VARIANTS = (b"+5", b"1e3", b"007", b"-0", b"-7", b"-007", b"-2147483647", b"0", b"12", b"00", b" 5", b"5 ", b"0x10", b"-", b"--5", b"5-")


def unknown_tag(meta, rng):
    while True:
        t = rng.choice((rng.randrange(1, 10000), rng.randrange(5000, 9000), rng.randrange(10000, 65536)))
        if t not in meta.fields:
            return t


class Msg:
    def __init__(self, meta, rng, gen, mtype=None, shuffle=None):
        self.meta = meta
        mt, hdr, body, trl = gen.message(mtype, max_wire=3000)
        sh = rng.random() < 0.4 if shuffle is None else shuffle
        self.mtype = mt.encode()
        self.toks = (flatten(meta, "header", "H", hdr, rng, sh) + flatten(meta, mt, "B", body, rng, sh)
                     + flatten(meta, "trailer", "T", trl, rng, sh))
        self.mt = mt
        self.begin, self.bodylen, self.chk, self.last, self.chktext = meta.begin, None, None, True, None

    def bytes(self):
        return wire(self.toks, self.begin, self.mtype, self.bodylen, self.chk, self.last, self.chktext)

    # index ranges of the parts in self.toks
    def part_range(self, p):
        idx = [i for i, t in enumerate(self.toks) if t.part == p]
        if idx:
            return idx[0], idx[-1] + 1
        if p == "H":
            return 0, 0
        if p == "B":
            return self.part_range("H")[1], self.part_range("H")[1]
        return len(self.toks), len(self.toks)

    def owner_of(self, p):
        return {"H": "header", "B": self.mt, "T": "trailer"}[p]


# ------------------------------------------------------------------------------ mutations
# each returns a class name or None (not applicable); they edit the Msg in place

def m_unknown(m, rng):
    t = unknown_tag(m.meta, rng)
    mode = rng.randrange(4)
    if mode == 0 or not m.toks:
        i = rng.randrange(len(m.toks) + 1)
    elif mode == 1:
        i = m.part_range(rng.choice("HBT"))[1]          # end of a part
    elif mode == 2:
        ins = [k for k, x in enumerate(m.toks) if x.depth > 0]
        if not ins:
            return None
        i = rng.choice(ins) + rng.randrange(2)
    else:
        i = len(m.toks)
    p = m.toks[i - 1].part if i > 0 else "H"
    m.toks.insert(i, Tok(t, G.gen_string(rng, 1, 6, eq=False), p, "?", 0))
    return "unknown-tag"


def m_bigtag(m, rng):
    if not m.toks:
        return None
    k = rng.choice((1, 1, 1, 2, 3, 65535))
    if rng.random() < 0.5:
        x = rng.choice(m.toks)
        x.tagtext = str(x.tag + 65536 * k).encode()
    else:
        # a new token whose tag is 65536*k + a field legal (and absent) where it is inserted
        p = rng.choice("HBT")
        owner = m.owner_of(p)
        present = {x.tag for x in m.toks if x.part == p and x.depth == 0}
        cand = [t for t in m.meta.traits.get(owner, []) if t.fnum not in present and not t.group
                and t.fnum not in G.AUTO and t.ftype not in (G.FT_LENGTH, G.FT_DATA)]
        if not cand:
            return None
        t = rng.choice(cand)
        x = Tok(t.fnum, G.gen_value(rng, t.ftype), p, owner)
        x.tagtext = str(t.fnum + 65536 * k).encode()
        a, b = m.part_range(p)
        m.toks.insert(b, x)
    return "big-tag"


def m_badck(m, rng):
    m.chk = rng.randrange(1, 256)
    return "bad-checksum"


def same_as_read(ck):
    """Three bytes, not all digits, that fast_atoi<unsigned> reads as ck: one ten moved into the last character
    (185 -> '17?'), or one hundred into the middle one (105 -> '0:5')."""
    a, b, c = ck // 100, ck // 10 % 10, ck % 10
    if b >= 1:
        return bytes((48 + a, 48 + b - 1, 48 + c + 10))
    if a >= 1:
        return bytes((48 + a - 1, 48 + 10, 48 + c))
    return b"%03d" % ck


def m_chktext(m, rng):
    """The TEXT of CheckSum: the trailer must be exactly 10=ddd with ddd the byte sum mod 256 in three digits.
    Half of the cases aim at the comparison itself: texts that equal the sum only modulo 256."""
    mode = rng.randrange(12)
    if mode < 6:
        k = rng.choice((256, 512, 768))
        m.chktext = lambda ck, k=k: b"%03d" % (ck + k if ck + k <= 999 else ck + 256)
    elif mode == 6:
        m.chktext = lambda ck: b"0%03d" % ck                    # 0185: four bytes
    elif mode == 7:
        m.chktext = lambda ck: b"%d" % ck                       # 85 instead of 085 (three bytes from 100 on)
    elif mode == 8:
        m.chktext = lambda ck: (b"+%02d" % ck) if ck < 100 else (b"+%d" % ck)
    elif mode == 9:
        m.chktext = lambda ck: b"%d" % (ck + 1000)              # four digits
    elif mode == 10:
        m.chktext = same_as_read                                # not digits, same value as read
    else:
        m.chktext = lambda ck: rng.choice((b"%03d " % ck, b" %02d" % (ck % 100), b"%03d" % ((ck + 100) % 1000), b""))
    return "checksum-text"


def m_badbl(m, rng):
    true = len(b"35=" + m.mtype + SOH + b"".join(t.bytes() for t in m.toks))
    mode = rng.randrange(4)
    if mode == 0:
        m.bodylen = str(rng.choice((0, 1, true + 1, max(true - 1, 0), rng.randrange(100000)))).encode()
    elif mode == 1:
        m.bodylen = b"0" * rng.randrange(1, 4) + str(true).encode()
    elif mode == 2:
        # (no sign: a BodyLength that reads as a negative int is printed by the shared codec model through
        #  itoa(fast_atoi(itoa(v))), which is not the identity below zero -- a model limitation, not a finding)
        m.bodylen = rng.choice((b"", b"abc", b"1e3", b"12x"))
    else:
        m.bodylen = str(true).encode()
    return "bodylength"


def m_dup(m, rng):
    cand = [i for i, x in enumerate(m.toks) if x.depth == 0 and x.raw is None]
    if not cand:
        return None
    i = rng.choice(cand)
    x = m.toks[i].copy()
    if rng.random() < 0.5:
        x.val = G.gen_value(rng, m.meta.fields.get(x.tag, (G.FT_STRING,))[0])
    a, b = m.part_range(x.part)
    later = [j for j in range(i + 1, b + 1) if j == len(m.toks) or m.toks[j].depth == 0]
    j = rng.choice(later) if later and rng.random() < 0.8 else rng.randrange(len(m.toks) + 1)
    m.toks.insert(j, x)
    return "duplicate"


def m_dup_auto(m, rng):
    f = rng.choice((8, 9, 35, 10))
    val = {8: m.begin, 9: b"100", 35: m.mtype, 10: b"000"}[f]
    if rng.random() < 0.3:
        val = {8: b"FIX.4.4", 9: b"7", 35: b"0", 10: b"123"}[f]
    if f == 10:
        i = rng.choice((len(m.toks), m.part_range("T")[0], m.part_range("T")[1]))
        p = "T"
    else:
        a, b = m.part_range("H")
        i = rng.randrange(a, b + 1)
        p = "H"
    m.toks.insert(i, Tok(f, val, p, "header" if p == "H" else "trailer"))
    return "duplicate-auto"


def m_misplace(m, rng):
    if not m.toks:
        return None
    mode = rng.randrange(4)
    if mode == 0:      # part-level token to another part
        cand = [i for i, x in enumerate(m.toks) if x.depth == 0]
        if not cand:
            return None
        x = m.toks.pop(rng.choice(cand))
        q = rng.choice([p for p in "HBT" if p != x.part])
        a, b = m.part_range(q)
        x.part = q
        m.toks.insert(rng.randrange(a, b + 1), x)
    elif mode == 1:    # a fresh field of another part (so that nothing goes missing)
        src, dst = rng.sample("HBT", 2)
        owner = m.owner_of(src)
        present = {x.tag for x in m.toks}
        other = {t.fnum for t in m.meta.traits.get(m.owner_of(dst), [])}
        cand = [t for t in m.meta.traits.get(owner, []) if t.fnum not in present and t.fnum not in other and not t.group
                and t.fnum not in G.AUTO and t.ftype not in (G.FT_LENGTH, G.FT_DATA, G.FT_TZTIMEONLY, G.FT_TZTIMESTAMP)]
        if not cand:
            return None
        t = rng.choice(cand)
        a, b = m.part_range(dst)
        i = rng.choice((b, rng.randrange(a, b + 1)))
        m.toks.insert(i, Tok(t.fnum, G.gen_value(rng, t.ftype), dst, owner))
    elif mode == 2:    # group member out of its group
        cand = [i for i, x in enumerate(m.toks) if x.depth > 0]
        if not cand:
            return None
        x = m.toks.pop(rng.choice(cand))
        a, b = m.part_range(x.part)
        x.depth, x.first = 0, False
        m.toks.insert(rng.choice((b, a)), x)
    else:              # part-level token into a group element
        cand = [i for i, x in enumerate(m.toks) if x.depth == 0]
        ins = [i for i, x in enumerate(m.toks) if x.depth > 0]
        if not cand or not ins:
            return None
        x = m.toks.pop(rng.choice(cand))
        ins = [i for i, y in enumerate(m.toks) if y.depth > 0]
        if not ins:
            return None
        m.toks.insert(rng.choice(ins) + 1, x)
    return "misplaced"


def m_drop_mand(m, rng):
    cand = []
    for i, x in enumerate(m.toks):
        t = m.meta.trait(x.owner, x.tag)
        if t is not None and t.mandatory:
            cand.append(i)
    if not cand:
        return None
    m.toks.pop(rng.choice(cand))
    return "missing-mandatory"


def m_drop_any(m, rng):
    if not m.toks:
        return None
    m.toks.pop(rng.randrange(len(m.toks)))
    return "token-deleted"


def m_nofirst(m, rng):
    cand = [i for i, x in enumerate(m.toks) if x.first]
    if not cand:
        return None
    i = rng.choice(cand)
    if rng.random() < 0.5 or i + 1 >= len(m.toks) or m.toks[i + 1].elem != m.toks[i].elem:
        m.toks.pop(i)
    else:
        m.toks[i], m.toks[i + 1] = m.toks[i + 1], m.toks[i]
    return "no-first-field"


def m_numeric(m, rng):
    cand = [x for x in m.toks if G.FT_INT <= m.meta.fields.get(x.tag, (0,))[0] <= G.FT_END_INT
            and m.meta.fields[x.tag][0] != G.FT_LENGTH
            and not (m.meta.trait(x.owner, x.tag) is not None and m.meta.trait(x.owner, x.tag).group)]
    if not cand:
        return None
    rng.choice(cand).val = rng.choice(INT_VARIANTS)
    return "int-text"


def m_begin(m, rng):
    m.begin = rng.choice((b"FIX.4.4", b"FIX.9.9", b"FIXT.1.1", b"", b"FIX.4.2 ", b"fix.4.2"))
    return "beginstring"


def m_lead0(m, rng):
    if not m.toks:
        return None
    x = rng.choice(m.toks)
    x.tagtext = b"0" * rng.randrange(1, 3) + x.tagtext
    return "zero-padded-tag"


def m_malformed(m, rng):
    # anywhere, also inside group elements (since /repo a0d41df decode_group leaves its element loop on a token
    # that extract_element rejects; before, it span for ever: C03, F08)
    if not m.toks:
        return None
    i = rng.randrange(1, len(m.toks) + 1)
    x = Tok(0, b"", m.toks[i - 1].part, "?", 0)
    x.raw = rng.choice((b"58text" + SOH, b"=x" + SOH, b"A=1" + SOH, b"5 8=x" + SOH, SOH, b"58" + SOH, b"-58=x" + SOH))
    m.toks.insert(i, x)
    return "malformed-token"


def m_longval(m, rng):
    """Value lengths around the capacity of decode's value buffer (2048 bytes incl. the NUL; 32 for BodyLength and
    MsgType in factory): since /repo d48d8ce extract_element FAILS at capacity instead of writing past the buffer,
    so the part's decode loop ends there as it does on a malformed token."""
    if rng.random() < 0.2:
        if rng.random() < 0.5:
            m.bodylen = b"0" * rng.choice((26, 28, 29, 30, 40)) + b"123"
        else:
            m.mtype = m.mtype + b"x" * rng.choice((29, 30, 31, 40))
        return "long-value"
    cand = [x for x in m.toks if x.raw is None and m.meta.fields.get(x.tag, (0,))[0] == G.FT_STRING]
    if not cand:
        return None
    n = rng.choice((2046, 2047, 2047, 2048, 2048, 2049, 3000))
    rng.choice(cand).val = bytes(rng.choice(b"abcdefghijklmnopqrstuvwxyz0123456789 .") for _ in range(n))
    return "long-value"


def m_reorder(m, rng):
    p = rng.choice("HBT")
    a, b = m.part_range(p)
    # units = a part-level token with everything that follows it up to the next part-level token;
    # a Length field stays glued to the token after it
    units = []
    for i in range(a, b):
        x = m.toks[i]
        glue = units and units[-1][0].depth == 0 and len(units[-1]) == 1 and \
            m.meta.fields.get(units[-1][0].tag, (0,))[0] == G.FT_LENGTH
        if x.depth == 0 and not glue:
            units.append([x])
        elif units:
            units[-1].append(x)
        else:
            units.append([x])
    rng.shuffle(units)
    m.toks[a:b] = [x for u in units for x in u]
    return "reordered"


def m_count(m, rng):
    cand = [x for x in m.toks if m.meta.trait(x.owner, x.tag) is not None and m.meta.trait(x.owner, x.tag).group]
    if not cand:
        return None
    x = rng.choice(cand)
    x.val = rng.choice((b"0", b"1", b"2", b"5", b"99", b"01", b"007"))
    return "count-changed"


def m_truncate(m, rng):
    m.last = False
    return "no-checksum-token"


def m_msgtype(m, rng):
    m.mtype = rng.choice((b"ZZ", b"", b"~", b"DD", b"0" if m.mtype != b"0" else b"1"))
    return "msgtype"


MUTATIONS = [(m_unknown, 12), (m_bigtag, 8), (m_badck, 4), (m_chktext, 5), (m_badbl, 4), (m_dup, 8), (m_dup_auto, 4), (m_misplace, 12),
             (m_drop_mand, 7), (m_drop_any, 4), (m_nofirst, 7), (m_numeric, 8), (m_begin, 2), (m_lead0, 3),
             (m_malformed, 3), (m_longval, 3), (m_reorder, 5), (m_count, 4), (m_truncate, 1), (m_msgtype, 2)]


# ------------------------------------------------------------------------------ long messages
LONG_ALPHABETS = (b"0123456789", b"ABCDEFGHIJKLMNOPQRSTUVWXYZ", b"abcdefghijklmnopqrstuvwxyz", b"~", b"~}|{zyxwv",
                  b"ABCDEFGHIJKLMNOPQRSTUVWXYZabcdefghijklmnopqrstuvwxyz0123456789 .,:;/+-_#@!?*()<>",
                  bytes(range(0x80, 0x100)), bytes((0xff,)))


def long_text(rng, alphabet, lo, hi):
    return bytes(rng.choice(alphabet) for _ in range(rng.randint(lo, hi)))


def lengthen(m, rng, target):
    """Grow a valid message to about `target` bytes without leaving the schema: the elements of its top-level repeating
    groups are repeated (fresh values), string-typed values are made long (always far below the 2047 byte buffer)."""
    meta = m.meta
    alphabet = rng.choice(LONG_ALPHABETS)

    def is_string(x):
        return x.raw is None and meta.fields.get(x.tag, (0,))[0] == G.FT_STRING and x.tag not in G.AUTO

    for _ in range(400):
        if len(m.bytes()) >= target:
            break
        counts = [i for i, x in enumerate(m.toks) if x.depth == 0 and meta.trait(x.owner, x.tag) is not None
                  and meta.trait(x.owner, x.tag).group and i + 1 < len(m.toks) and m.toks[i + 1].depth == 1]
        strings = [x for x in m.toks if is_string(x) and len(x.val) < 300]
        if counts and (rng.random() < 0.7 or not strings):
            i = rng.choice(counts)
            j = i + 1
            while j < len(m.toks) and m.toks[j].depth > 0:
                j += 1
            first = [x for x in m.toks[i + 1:j] if x.elem == m.toks[i + 1].elem or x.depth > 1]
            k = 1
            while i + 1 + k < j and not (m.toks[i + 1 + k].depth == 1 and m.toks[i + 1 + k].first):
                k += 1
            elem = m.toks[i + 1:i + 1 + k]                      # the first element with what is nested in it
            _elem_id[0] += 1
            new = []
            for x in elem:
                y = x.copy()
                if y.depth == 1:
                    y.elem = _elem_id[0]
                if is_string(y):
                    y.val = long_text(rng, alphabet, 20, 160)
                new.append(y)
            m.toks[j:j] = new
            n = sum(1 for x in m.toks[i + 1:j + len(new)] if x.depth == 1 and x.first)
            m.toks[i].val = str(n).encode()
        elif strings:
            rng.choice(strings).val = long_text(rng, alphabet, 300, 1500)
        else:
            break
    return m


def long_cases(meta, rng, px, n_msgs):
    """Conforming messages of 2 KB .. 8000 bytes, each with the correct CheckSum (must be accepted, every token retained)
    and with the byte sum +-1..6 and other wrong values (must be rejected): Message::calc_chksum's carry counters are
    folded every 256 bytes, which only long inputs exercise."""
    cs = []
    grouped = [mt for mt in sorted(meta.msgs) if any(
        t.ftype == G.FT_STRING for sub in meta.groups.get(mt, {}).values() for t in meta.traits.get(sub, []))]
    gen = G.MsgGen(meta, rng, p_opt=0.25, shuffle=False)
    k = 0
    for _ in range(n_msgs * 4):
        if k >= n_msgs:
            break
        mt = rng.choice(grouped) if grouped and rng.random() < 0.8 else None
        m = Msg(meta, rng, gen, mt, shuffle=False)
        target = rng.choice((2100, 2600, 3600, 5200, 6500, 7900, rng.randint(2000, 7900)))
        lengthen(m, rng, target)
        raw = m.bytes()
        if not (2000 <= len(raw) <= 8000) or not tag_buffer_defined(meta, raw):
            continue
        k += 1
        cs.append(Case(px + "DEC s " + raw.hex(), "long-valid"))
        deltas = rng.sample((1, 2, 3, 4, 5, 6), 2) + [256 - d for d in rng.sample((1, 2, 3, 4, 5, 6), 2)] + [rng.randrange(7, 250)]
        for d in deltas:
            m.chk = d
            cs.append(Case(px + "DEC s " + m.bytes().hex(), "long-bad-checksum"))
        m.chk = None
    return cs


def pick_mut(rng):
    tot = sum(w for _, w in MUTATIONS)
    r = rng.randrange(tot)
    for f, w in MUTATIONS:
        if r < w:
            return f
        r -= w


def tag_buffer_defined(meta, raw):
    """False when a Length-typed token (other than 9) is directly followed by a piece with MORE leading digits than
    its own tag: extract_element_fixed_width copies those digits into tag[] without a terminating NUL and decode then
    reads tag[] as a C string, i.e. bytes of the stack buffer that nothing has written (the codec model answers
    'OOB 4' = site_uninit_tag; the real result depends on stale stack contents).  That read belongs to C03 / C06;
    C04 keeps its cases clear of it."""
    pieces = raw.split(SOH)
    for a, b in zip(pieces, pieces[1:]):
        tt, eq, _ = a.partition(b"=")
        if eq and tt.isdigit() and tt.isascii():
            t = int(tt) % 65536
            if t != 9 and meta.fields.get(t, (0,))[0] == G.FT_LENGTH:
                nd = 0
                while nd < len(b) and 48 <= b[nd] <= 57:
                    nd += 1
                if nd > len(tt):
                    return False
    return True


def gen_cases(rng, tier):
    built = _state.get("built") or build(tier)
    thorough = tier == "thorough"
    cs = []
    default = schemas(tier)[0]
    for schema in schemas(tier):
        meta = built["metas"][schema]
        px = pre(schema, default)
        gens = [G.MsgGen(meta, rng, p_opt=0.15, shuffle=False), G.MsgGen(meta, rng, p_opt=0.4, shuffle=False),
                G.MsgGen(meta, rng, p_opt=0.05, max_elems=2, shuffle=False)]
        types = sorted(meta.msgs)
        grouped = [mt for mt in types if meta.groups.get(mt)]

        def one(mt=None, nmut=None, force=None):
            for _ in range(20):
                m = Msg(meta, rng, rng.choice(gens), mt)
                n = rng.choice((0, 1, 1, 1, 1, 2, 2)) if nmut is None else nmut
                names = []
                for k in range(n):
                    f = force if (force is not None and k == 0) else pick_mut(rng)
                    for _ in range(4):
                        nm = f(m, rng)
                        if nm:
                            names.append(nm)
                            break
                        f = pick_mut(rng)
                raw = m.bytes()
                if tag_buffer_defined(meta, raw):
                    cs.append(Case(px + "DEC s " + raw.hex(), "+".join(names) or "valid"))
                    return

        # every message type once unmutated, then every mutation on random types, then the random mix
        for mt in types:
            one(mt, 0)
        reps = 30 if thorough else (18 if schema == "utest" else 6)
        for f, _ in MUTATIONS:
            for _ in range(reps):
                one(rng.choice(grouped) if f in (m_nofirst, m_count) or rng.random() < 0.4 else None, 1, f)
        for _ in range((4000 if schema == "utest" else 1500) if thorough else 1500):
            one(rng.choice(grouped) if rng.random() < 0.35 else None)
        cs.extend(long_cases(meta, rng, px, (60 if thorough else 24) if schema == "utest" else 20))
    return cs


# ------------------------------------------------------------------------------ running
def _parse_case(case):
    built = _state["built"]
    default = next(iter(built["exes"]))
    schema, rest = G.schema_of(case.line if isinstance(case, Case) else case, default)
    w = rest.split(" ")
    return built["metas"][schema], schema, (bytes.fromhex(w[2]) if len(w) == 3 and w[2] != "-" else b"")


def tokenize(raw):
    """[(tag, tagtext, val)] or None when the bytes are not a token sequence."""
    out = []
    for piece in raw.split(SOH)[:-1]:
        tagtext, eq, val = piece.partition(b"=")
        if not eq or not tagtext.isdigit() or not tagtext.isascii():
            return None
        out.append((int(tagtext), tagtext, val))
    if not raw.endswith(SOH) and raw:
        return None
    return out


def run_impl(built, cases, tier):
    return G.run_impl_multi(built, cases, tier)


def nontrivial(case, r):
    if not (r.startswith("OK ") or (r.startswith("EXC ") and "InvalidMessage" not in r)):
        return False
    meta, schema, raw = _parse_case(case)
    return raw.count(SOH) >= 8


# ------------------------------------------------------------------------------ classifiers
def count_pos(val):
    s = val[1:] if val[:1] == b"-" else val
    return s.isdigit() and s.isascii() and not val.startswith(b"-") and int(s) > 0


def mand_ok(meta, owner, seen):
    return all((not t.mandatory) or t.fnum in seen for t in meta.traits.get(owner, []))


class Analysis:
    """Python mirror of the greedy parse of Spec_C04.v, used only to CLASSIFY failing cases."""

    def __init__(self, meta, raw):
        self.meta, self.raw = meta, raw
        self.toks = tokenize(raw)
        self.verdict, self.illegal, self.level0 = None, None, []
        if self.toks is not None:
            self.verdict = self._verdict()

    def _fields(self, owner, in_elem, i, top):
        ts, meta, seen = self.toks, self.meta, []
        while i < len(ts):
            tag, _, val = ts[i]
            tr = meta.trait(owner, tag)
            if tr is None:
                if in_elem and not seen:
                    return None
                return seen, i
            if tag in seen:
                return (seen, i) if in_elem else None
            if in_elem and not seen and tr.pos != 1:
                return None
            seen.append(tag)
            if top:
                self.level0.append(i)
            i += 1
            if tr.group and count_pos(val):
                sub = meta.groups.get(owner, {}).get(tag)
                if sub is None:
                    return None
                i = self._elems(sub, i)
                if i is None:
                    return None
        return seen, i

    def _elems(self, sub, i):
        ts = self.toks
        while True:
            if i >= len(ts):
                return i
            r = self._fields(sub, True, i, False)
            if r is None:
                return None
            seen, j = r
            if not mand_ok(self.meta, sub, seen):
                return None
            if j < len(ts) and ts[j][0] in seen:
                i = j
                continue
            return j

    def _verdict(self):
        ts, meta = self.toks, self.meta
        if len(ts) < 4 or [t[0] for t in ts[:3]] != [8, 9, 35] or ts[-1][0] != 10 or len(ts[-1][2]) != 3:
            return "viol"
        mt = ts[2][2].decode("latin1")
        if mt not in meta.msgs:
            return "viol"
        i = 0
        for owner in ("header", mt, "trailer"):
            r = self._fields(owner, False, i, True)
            if r is None:
                return "viol"
            seen, i = r
            if not mand_ok(meta, owner, seen):
                return "viol"
        if i == len(ts):
            return "conf"
        self.illegal = ts[i][0]
        return "illegal"


def _an(case):
    meta, schema, raw = _parse_case(case)
    return Analysis(meta, raw)


def c_unknown_tag(case, r, m):
    """F10: an unknown tag (one the schema's field table does not define) stands where no further mandatory
    field of its part follows: the part's decode loop breaks, so do the following parts, factory ignores the length."""
    a = _an(case)
    return r.startswith("OK ") and a.verdict == "illegal" and a.illegal < 65536 and a.illegal not in a.meta.fields


def c_big_tag(case, r, m):
    """F11: some tag >= 65536 (read through fast_atoi<unsigned short>)."""
    a = _an(case)
    return r.startswith("OK ") and a.toks is not None and any(t[0] >= 65536 for t in a.toks)


def c_foreign_tag(case, r, m):
    """F12: a tag of the schema that is legal only in another part / group stands where no further mandatory field follows."""
    a = _an(case)
    return r.startswith("OK ") and a.verdict == "illegal" and a.illegal < 65536 and a.illegal in a.meta.fields


def c_auto_dup(case, r, m):
    """a second occurrence of an automatic field (8, 9, 35 in the header, 10 in the trailer) is skipped silently."""
    a = _an(case)
    if not r.startswith("OK ") or a.toks is None:
        return False
    tags = [t[0] for t in a.toks]
    return any(tags.count(f) > 1 for f in G.AUTO)


def _length_at_level0(a):
    return [i for i in a.level0 if a.meta.fields.get(a.toks[i][0], (0,))[0] == G.FT_LENGTH and a.toks[i][0] != 9]


def c_length_field(case, r, m):
    """a Length-typed field other than BodyLength at message level makes decode read the NEXT token by byte count and
    without the duplicate test (C06 owns the pairing; here: conforming messages rejected, repeated data field accepted)."""
    a = _an(case)
    if a.toks is None:
        return False
    # the parse may have stopped before the Length token: look at all tokens outside groups is not possible then;
    # accept any Length-typed tag of the message's header / body / trailer tables
    tags = {t[0] for t in a.toks}
    mt = a.toks[2][2].decode("latin1") if len(a.toks) > 2 else ""
    for owner in ("header", mt, "trailer"):
        for t in a.meta.traits.get(owner, []):
            if t.ftype == G.FT_LENGTH and t.fnum != 9 and t.fnum in tags:
                return True
    return False


def c_begin_string(case, r, m):
    """the BeginString text of the input is ignored: the object keeps the schema's own BeginString."""
    a = _an(case)
    return r.startswith("OK ") and a.toks is not None and len(a.toks) > 0 and a.toks[0][0] == 8 and a.toks[0][2] != a.meta.begin


def _canon_int(val):
    d = val[1:] if val[:1] == b"-" else val
    return d.isdigit() and d.isascii()


def c_int_text(case, r, m):
    """an int-typed field whose text is not an optional '-' followed by digits (fast_atoi: no digit test, no '+')."""
    a = _an(case)
    if not r.startswith("OK ") or a.toks is None:
        return False
    for tag, _, val in a.toks:
        ty = a.meta.fields.get(tag, (G.FT_STRING,))[0]
        if G.FT_INT <= ty <= G.FT_END_INT and not _canon_int(val):
            return True
    return False


def c_malformed(case, r, m):
    """bytes that are not a token (no '=', empty tag) where no further mandatory field follows: extract_element
    returns 0, the decode loops end, the rest of the message is ignored."""
    a = _an(case)
    return r.startswith("OK ") and a.toks is None


def c_checksum_text(case, r, m):
    """the three CheckSum bytes are not all digits but fast_atoi<unsigned> reads them as the byte sum (185 as '17?')."""
    a = _an(case)
    if not r.startswith("OK ") or a.toks is None or not a.toks or a.toks[-1][0] != 10:
        return False
    v = a.toks[-1][2]
    return len(v) == 3 and not (v.isdigit() and v.isascii())


def c_long_value(case, r, m):
    """a value does not fit decode's buffers (2047 bytes; 31 for BodyLength / MsgType in factory): extract_element
    returns 0 there, the decode loops end as on a malformed token (truncated accept, or a later mandatory field is
    reported missing / InvalidMessage) although the message conforms."""
    a = _an(case)
    if a.toks is None:
        return False
    return any(len(v) >= 2048 or (t in (9, 35) and len(v) >= 32) for t, _, v in a.toks)


CLASSIFIERS = {"long-value": c_long_value, "checksum-text": c_checksum_text, "unknown-tag": c_unknown_tag, "big-tag": c_big_tag, "foreign-tag": c_foreign_tag, "auto-dup": c_auto_dup,
               "length-field": c_length_field, "begin-string": c_begin_string, "int-text": c_int_text,
               "malformed-token": c_malformed}


def extra_search(rng, seeds, tier):
    return gen_cases(rng, tier)[:3000]


def shrink(case):
    """Drop one token (other than 8, 9, 35, 10) at a time, recomputing BodyLength and CheckSum when they were right."""
    try:
        meta, schema, raw = _parse_case(case)
        prefix = case.line[:case.line.index("DEC s ")] + "DEC s "
        ts = tokenize(raw)
        if ts is None or len(ts) < 5:
            return []
        body0 = b"".join(tt + b"=" + v + SOH for _, tt, v in ts[2:-1])
        bl_right = ts[1][2] == str(len(body0)).encode()
        head0 = b"".join(tt + b"=" + v + SOH for _, tt, v in ts[:2])
        ck_right = ts[-1][2] == b"%03d" % (sum(head0 + body0) % 256)
    except Exception:
        return []
    out = []
    for i in range(3, len(ts) - 1):
        keep = ts[:i] + ts[i + 1:]
        body = b"".join(tt + b"=" + v + SOH for _, tt, v in keep[2:-1])
        bl = str(len(body)).encode() if bl_right else ts[1][2]
        s = ts[0][1] + b"=" + ts[0][2] + SOH + b"9=" + bl + SOH + body
        ck = b"%03d" % (sum(s) % 256) if ck_right else ts[-1][2]
        raw2 = s + b"10=" + ck + SOH
        if not tag_buffer_defined(meta, raw2):
            continue
        c2 = Case(prefix + raw2.hex(), "shrink")
        # stay clear of the listed findings: a candidate any classifier would accept is no simpler
        # witness of something NEW
        if any(f(c2, r, r) for f in CLASSIFIERS.values() for r in ("OK ", "EXC ")):
            continue
        out.append(c2)
    return out[:80]
