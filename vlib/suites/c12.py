"""C12 — metadata lookup tables behave as exact maps."""
import os
import subprocess

from vlib import build as B
from vlib.core import Case

ID = "C12"
LEVEL = "proof"
TECHNIQUE = ("Coq proofs about hand-written Gallina models of GeneratedTable::_find, F8MetaCntx::find_be (_flu), the "
             "FieldTrait hash-array find, the reverse name maps and the presorted_set state machine (over a Gallina "
             "transcription of libstdc++'s lower_bound / upper_bound / equal_range, proved correct on sorted input); "
             "models tied to the real code by differential execution on the tables of the freshly generated schema and on "
             "random operation histories")
LEVEL_TEXT = ("Theorems c12_generated_exact / c12_flu_exact / c12_ftha_exact / c12_reverse_exact: on a table sorted by key "
              "every lookup reports a hit exactly for the keys present and returns that key's entry; c12_presorted_invariant "
              "/ c12_presorted_refines: for every history of find / find(answer) / at / insert / insert(range) / clear the "
              "modelled set answers like a sorted list of unique keys, never accesses memory outside its allocated block and "
              "keeps size <= rsize (induction over the history with the abstraction firstn _sz _arr), the iterator returned by "
              "insert always designating the inserted element (c12_insert_never_stale, c12_insert_position; the routine before "
              "5f81ca8 is kept as a refutation witness); for sets built by every constructor (array, explicit, hash array -- the last one partial in the history: "
              "c12_presorted_hash_partial, with c12_hash_residual_refuted for what the hash array still gets wrong while "
              "attached); the three repaired constructor defects are kept as _orig_refuted witnesses. "
              "Sortedness / uniqueness of every dumped table (the theorems' hypothesis) is evaluated on each run.")
LEVEL_NOTE = ("Trusted: Coq kernel, extraction, the hand transcriptions (checked by the correspondence run), harness/driver "
              "glue, std::map modelled as a first-wins association list, ASan/UBSan trapping accesses outside the exactly "
              "sized heap blocks, g++/libstdc++ behaving as the bisection model.")
DESIGN_REF = "DESIGN.md section 4, C12"
PROPS_FILE = "Props/Properties_C12.v"
COQ_TARGETS = ["Props/Properties_C12.vo", "Extract/Extract_C12.vo"]
TRUSTED_BASE = ["Coq 8.16.1 kernel (coqc), vm_compute for the witnesses", "Extraction with ExtrOcamlBasic, no Extract Constant; OCaml 4.13.1",
                "hand-written models coq/C12/Bisect.v, Tables.v, Presorted.v of f8types.hpp / traits.hpp / message.hpp, tied by "
                "differential execution", "ocaml/prelude.ml + ocaml/c12_driver.ml, harness/h_c12.cpp, vlib (generators, comparison)",
                "table dumps are read through the library's own iterators (begin()/end() of the tables and presence sets)",
                "g++ 12 -fsanitize=address,undefined: accesses outside an exactly sized heap block trap"]
ASSUMPTIONS = ["std::map with the strcmp comparator behaves as an association list in which the first emplaced entry of a name wins",
               "keys of the field table fit an unsigned short (find_be's parameter type); msgtype / name probes contain no NUL",
               "hash-built sets are constructed from non-empty tables strictly sorted by key (the constructor's precondition; "
               "evaluated on every dumped schema table)",
               "the hint-iterator overloads of FieldTraits (has/get/getPos/getComp with an iterator) are exercised only with an end() hint"]
RULE = ("tables dumped from the real metadata on each run (UTEST; thorough: also FIX44): F8MetaCntx::find_be and _be.find_* for "
        "ALL tags 0..65535 (exhaustive); every message / group / header / trailer trait table for all tags 0..maxfnum+300 plus "
        "windows at 32768 and 65535 (thorough: ALL tags 0..65535 for every table, quick: for 3 tables), one case line per table "
        "range; SYNTHETIC trait tables built with the real FieldTrait / FieldTrait_Hash_Array / FieldTraits classes, sizes 1, 2, 127, "
        "128, 255, 256, 257, 300, 1000 (beyond the largest shipped class: the tie covers every index width of the tag->index table), "
        "tags dense, sparse and spread up to 65535, queried for all tags in range plus a window at 65535 (thorough: all tags); large "
        "tables (255..300, thorough 1000) through the non-hash array constructor with finds of every member and neighbour; "
        "every msgtype plus near-misses (prefix, suffix, case flip, +-1 char, doubled, empty); reverse name lookups with "
        "every name plus near-miss names; random histories (length <= 200, keys from a small range so duplicates and "
        "re-allocation both occur) on presorted_set<unsigned short, FieldTrait, FieldTrait::Compare> (array, empty and hash-array "
        "constructors) and on a generic instantiation presorted_set<short, GElem, Less>; histories that never insert into a "
        "full set are kept apart from those that do (the growing insert, whose iterator was stale before 5f81ca8); the iterator "
        "returned by insert is compared by index AND by the element it points to, in the growing case too. non-trivial = range >= 100 tags on a table with "
        ">= 2 entries, >= 3 string probes, or a history with >= 5 operations including an insert; distinct = distinct case lines")

_STATE = {}


def build(tier):
    thorough = tier == "thorough"
    if thorough:
        d44, objs44, _, _ = B.schema_objs("fix44", "asan")
        exe = B.harness("h_c12", runtime=None, schema="utest", extra=["-DC12_BOTH", "-I" + d44], extra_link=objs44)
    else:
        exe = B.harness("h_c12", runtime=None, schema="utest")
    _STATE["exe"] = exe
    _STATE["both"] = thorough
    _STATE["asan"] = "detect_leaks=0:abort_on_error=0:halt_on_error=1:allocator_may_return_null=1:detect_stack_use_after_return=0"
    return {"impl": [exe], "batch_timeout": 3000, "env": {"ASAN_OPTIONS": _STATE["asan"]}}


def _dump(which):
    env = dict(os.environ, ASAN_OPTIONS=_STATE["asan"])
    p = subprocess.run([_STATE["exe"], "--dump" + which], stdout=subprocess.PIPE, stderr=subprocess.PIPE, env=env, timeout=300)
    d = {"tables": [], "msgs": [], "fields": []}
    for line in p.stdout.decode(errors="replace").splitlines():
        w = line.split(" ")
        if w[0] == "T":
            d["tables"].append({"idx": int(w[1]), "name": w[2], "size": int(w[3]), "max": int(w[4])})
        elif w[0] == "M":
            d["msgs"].append((bytes.fromhex(w[1]), bytes.fromhex(w[2])))
        elif w[0] == "F":
            d["fields"].append((int(w[1]), bytes.fromhex(w[2])))
    return d


def hx(b):
    return b.hex() if b else "-"


def uniq(seq):
    seen, out = set(), []
    for x in seq:
        if x not in seen:
            seen.add(x)
            out.append(x)
    return out


def near_misses(s, rng):
    out = [s, s[:-1], s + b"A", s + s[-1:], b"A" + s, s + s, s.lower(), s.upper(), s.swapcase(), s[1:]]
    for i in range(len(s)):
        for d in (-1, 1):
            c = s[i] + d
            if 0x21 <= c <= 0x7e:
                out.append(s[:i] + bytes([c]) + s[i + 1:])
    if len(s) > 2:
        i = rng.randrange(len(s) - 1)
        out.append(s[:i] + s[i + 1:i + 2] + s[i:i + 1] + s[i + 2:])      # transposition
    return [x for x in out if all(0x21 <= c <= 0x7e for c in x)]


def chunk(seq, n):
    for i in range(0, len(seq), n):
        yield seq[i:i + n]


def table_cases(sfx, d, rng, tier):
    cs = []
    thorough = tier == "thorough"
    tabs = d["tables"]
    full = set()
    if thorough:
        full = set(t["idx"] for t in tabs)
    elif tabs:
        big = max(tabs, key=lambda t: t["size"])
        grp = next((t for t in tabs if "/" in t["name"]), tabs[0])
        full = {tabs[0]["idx"], big["idx"], grp["idx"]}
    for t in tabs:
        if t["size"] == 0:
            continue        # FieldTrait_Hash_Array cannot be built over an empty table (it reads from[-1])
        if t["idx"] in full:
            for lo in range(0, 65536, 16384):
                cs.append(Case("T%s %d %d %d" % (sfx, t["idx"], lo, lo + 16383), "traits-all-tags"))
        else:
            top = min(65535, t["max"] + 300)
            for lo in range(0, top + 1, 4096):
                cs.append(Case("T%s %d %d %d" % (sfx, t["idx"], lo, min(top, lo + 4095)), "traits-window"))
            cs.append(Case("T%s %d 32700 32900" % (sfx, t["idx"]), "traits-window"))
            cs.append(Case("T%s %d 65300 65535" % (sfx, t["idx"]), "traits-window"))
    for lo in range(0, 65536, 8192):
        cs.append(Case("F%s %d %d" % (sfx, lo, lo + 8191), "fields-all-tags"))
    # msgtypes
    probes = [b""]
    for k, name in d["msgs"]:
        probes += near_misses(k, rng)
    probes += [bytes(rng.choice(b"0123456789ABCDEFGHIJKLMNOPQRSTUVWXYZabcdefghijklmnopqrstuvwxyz") for _ in range(rng.randrange(1, 4)))
               for _ in range(300 if thorough else 60)]
    for blk in chunk(uniq(probes), 250):
        cs.append(Case("M%s %s" % (sfx, " ".join(hx(p) for p in blk)), "msgtypes"))
    # reverse names
    probes = [b""]
    for k, name in d["msgs"]:
        probes += near_misses(name, rng) if (thorough or rng.random() < 0.5) else [name, name[:-1], name + b"x"]
    for blk in chunk(uniq(probes), 400):
        cs.append(Case("RM%s %s" % (sfx, " ".join(hx(p) for p in blk)), "reverse-msg-names"))
    probes = [b""]
    for k, name in d["fields"]:
        probes += near_misses(name, rng) if (thorough or rng.random() < 0.15) else [name, name[:-1], name + b"x", name.swapcase()]
    for blk in chunk(uniq(probes), 500):
        cs.append(Case("RF%s %s" % (sfx, " ".join(hx(p) for p in blk)), "reverse-field-names"))
    return cs


# ---- presorted_set histories; python mirrors the growth policy only to AIM the generator ----
def calc_reserve(sz, res):
    if sz == 0:
        return res if res else 1
    v = sz * res // 100
    return v if v else 1


def gen_history(rng, kind, clean, maxkey):
    """kind: 'A' | 'E' ; clean: never insert a new key into a full set (no stale iterator)"""
    nmax = rng.choice((0, 1, 2, 3, 5, 8, 12))
    if kind == "A":
        keys = sorted(rng.sample(range(maxkey + 1), min(nmax, maxkey + 1)))
        reserve = rng.choice((0, 1, 10, 30, 30, 50, 100, 300, 1000)) if keys else rng.choice((0, 1, 2, 3, 5, 30))
        tab = [(k, rng.randrange(0, 1000)) for k in keys]
        ctor = "A:%d:%s" % (reserve, ",".join("%d.%d" % kp for kp in tab))
        cur = dict(tab)
        sz, rsz = len(tab), len(tab) + calc_reserve(len(tab), reserve)
    else:
        reserve = rng.choice((0, 1, 2, 3, 5, 30))
        esz = rng.choice((0, 0, 1, 3, 7))
        ctor = "E:%d:%d" % (esz, reserve)
        cur, sz, rsz = {}, 0, esz + calc_reserve(esz, reserve)
    n = rng.choice((5, 10, 20, 50, 100, 200))
    ops = []
    for _ in range(n):
        r = rng.random()
        k = rng.randrange(0, maxkey + 1)
        if r < 0.22:
            ops.append("f%d" % k)
        elif r < 0.32:
            ops.append("a%d" % k)
        elif r < 0.42:
            ops.append("t%d" % rng.randrange(0, max(1, sz + 2)))
        elif r < 0.80:
            p = rng.randrange(0, 1000)
            if k not in cur:
                if sz != 0 and sz == rsz:
                    if clean:
                        if cur and rng.random() < 0.7:
                            k = rng.choice(sorted(cur))       # duplicate instead
                            ops.append("i%d.%d" % (k, p))
                        continue
                    rsz = sz + calc_reserve(sz, reserve)
                cur[k] = p
                sz += 1
            ops.append("i%d.%d" % (k, p))
        elif r < 0.93:
            m = rng.randrange(0, 6)
            es = []
            stop = False
            for _ in range(m):
                kk, p = rng.randrange(0, maxkey + 1), rng.randrange(0, 1000)
                if not stop:
                    if kk in cur:
                        stop = True
                    else:
                        if sz != 0 and sz == rsz:
                            if clean:
                                break
                            rsz = sz + calc_reserve(sz, reserve)
                        cur[kk] = p
                        sz += 1
                es.append("%d.%d" % (kk, p))
            ops.append("r" + "/".join(es))
        else:
            ops.append("c")
            cur, sz = {}, 0
    return ctor, ops


def history_cases(rng, tier):
    cs = []
    thorough = tier == "thorough"
    reps = 500 if thorough else 70
    for op, maxkeys in (("PS", (6, 15, 40, 65535)), ("PG", (6, 15, 40, 32767))):
        for clean in (True, False):
            for _ in range(reps):
                mk = rng.choice(maxkeys[:3]) if rng.random() < 0.9 else maxkeys[3]
                kind = "A" if rng.random() < 0.7 else "E"
                ctor, ops = gen_history(rng, kind, clean, mk)
                if ops:
                    cs.append(Case("%s %s %s" % (op, ctor, " ".join(ops)), "%s-history-%s" % (op, "no-realloc" if clean else "realloc")))
    # the former corner constructors (reserve 0, explicit size), fixed by 432f45d / a311e58: ordinary histories now
    for i in range(6 if thorough else 2):
        k = rng.randrange(0, 50)
        a, b = ("PS", "PG") if i % 2 == 0 else ("PG", "PS")
        cs.append(Case("%s E:0:0 f%d i%d.1 f%d i%d.2 t0 t1" % (a, k, k, k, k + 1), "reserve-zero"))
        cs.append(Case("%s A:0: i%d.1 f%d c i%d.3" % (b, k, k, k), "reserve-zero"))
        cs.append(Case("%s E:%d:30 f%d t0 i%d.7 f%d" % (a, rng.randrange(1, 6), k, k, k), "explicit-size"))
        cs.append(Case("%s E:%d:0 i%d.7 i%d.8 a%d" % (b, rng.randrange(1, 6), k, k + 2, k + 1), "explicit-size"))
    # sets built by the hash-array constructor (what every message's trait set is): lookups, then inserts /
    # clears; while the hash array is attached find(answer) only for present keys and no lookup after a clear
    # (those two are the residual findings, generated apart)
    for _ in range(reps):
        mk = rng.choice((6, 15, 40, 300))
        keys = sorted(rng.sample(range(mk + 1), rng.randrange(1, min(12, mk + 1))))
        tab = ",".join("%d.%d" % (k, rng.randrange(1000)) for k in keys)
        ops = []
        mode = "intact"
        for _ in range(rng.choice((5, 20, 60))):
            r = rng.random()
            k = rng.randrange(0, mk + 3)
            p = rng.randrange(1000)
            if mode == "intact":
                if r < 0.45:
                    ops.append("f%d" % k)
                elif r < 0.55:
                    ops.append("t%d" % rng.randrange(0, len(keys) + 2))
                elif r < 0.65:
                    ops.append("a%d" % rng.choice(keys))
                elif r < 0.80:
                    ops.append("i%d.%d" % (rng.choice(keys) if rng.random() < 0.4 else k, p))
                    mode = "detached"
                elif r < 0.88:
                    ops.append("r%d.%d/%d.%d" % (k, p, rng.randrange(0, mk + 3), p))
                    mode = "detached"
                elif r < 0.92:
                    ops.append("r")
                else:
                    ops.append("c")
                    mode = "cleared"
            elif mode == "cleared":
                if r < 0.3:
                    ops.append("t%d" % rng.randrange(0, 3))
                elif r < 0.4:
                    ops.append("c")
                else:
                    ops.append("i%d.%d" % (k, p))
                    mode = "detached"
            else:
                ops.append(rng.choice(("f%d" % k, "a%d" % k, "t%d" % rng.randrange(0, 14), "i%d.%d" % (k, p), "i%d.%d" % (k, p),
                                       "r%d.%d/%d.%d" % (k, p, rng.randrange(0, mk + 3), p), "c", "f%d" % rng.choice(keys))))
        cs.append(Case("PS H:%s %s" % (tab, " ".join(ops)), "PS-hash-history"))
    for i in range(4 if not thorough else 40):
        keys = sorted(rng.sample(range(40), rng.randrange(2, 8)))
        absent = next(k for k in range(41) if k not in keys)
        tab = ",".join("%d.1" % k for k in keys)
        cs.append(Case("PS H:%s f%d a%d f%d i%d.5 a%d f%d" % (tab, keys[0], absent, absent, absent, absent, absent), "hash-attached-find-answer"))
        cs.append(Case("PS H:%s f%d c f%d t0 i%d.5 f%d f%d" % (tab, keys[-1], keys[-1], absent, keys[-1], absent), "hash-attached-clear-find"))
    return cs


# ---- synthetic trait tables: sizes beyond what the shipped schemas reach ----
SYN_SIZES = (1, 2, 127, 128, 255, 256, 257, 300, 1000)


def syn_table(rng, n, layout):
    if layout == "dense":
        start = rng.choice((0, 1, 1, 7, 100))
        tags = list(range(start, start + n))
    elif layout == "sparse":
        tags, t = [], rng.randrange(0, 20)
        for _ in range(n):
            tags.append(t)
            t += rng.choice((1, 1, 2, 3, 5, 9))
    else:                                   # spread over the whole tag range, last tag 65535
        tags = sorted(rng.sample(range(0, 65535), n - 1)) + [65535]
    ents = []
    for i, t in enumerate(tags):
        traits = rng.randrange(0, 128)
        if rng.random() < 0.7:
            traits |= 4                     # position bit
        ents.append("%d:%d:%d:%d" % (t, i + 1, rng.randrange(0, 4), traits))
    return tags, ",".join(ents)


def synthetic_table_cases(rng, tier):
    cs = []
    thorough = tier == "thorough"
    for n in SYN_SIZES:
        for layout in ("dense", "sparse", "top"):
            if n == 1000 and layout == "top" and not thorough:
                continue        # the model costs O(table size) per tag; the 1000-entry table is dense / sparse in the quick tier
            for _ in range(3 if thorough else 1):
                tags, tab = syn_table(rng, n, layout)
                top = min(65535, tags[-1] + 300)
                if layout != "top":
                    ranges = [(lo, min(top, lo + 16383)) for lo in range(0, top + 1, 16384)]
                    ranges += [(65000, 65535)]
                elif thorough:
                    ranges = [(lo, lo + 16383) for lo in range(0, 65536, 16384)]
                elif n > 200:
                    # the bottom of the range, and every member from a sorted position >= 200 on (the model costs
                    # O(table size) per tag: the quick tier keeps the window short for the largest table)
                    cut = tags[max(200, n - 50)]
                    ranges = [(0, 1500), (max(0, cut - 2), 65535)]
                else:
                    ranges = [(0, 3000), (62000, 65535)]
                for lo, hi in ranges:
                    cs.append(Case("TS %s %d %d" % (tab, lo, hi), "synthetic-traits-%s" % layout))
    # the array (range) constructor without a hash array: every member and its neighbours, large tables
    for op, kmax in (("PS", 65535), ("PG", 32767)):
        for n in (255, 256, 257, 300) + ((1000,) if thorough else ()):
            keys = sorted(rng.sample(range(0, min(kmax, 4 * n) + 1), n))
            tab = ",".join("%d.%d" % (k, i % 1000) for i, k in enumerate(keys))
            probes = sorted(set(x for k in keys for x in (k - 1, k, k + 1) if 0 <= x <= kmax))
            ops = ["f%d" % k for k in probes] + ["t%d" % i for i in (0, 254, 255, 256, n - 1, n)] + ["a%d" % rng.choice(keys), "i%d.1" % rng.choice(keys)]
            cs.append(Case("%s A:1000:%s %s" % (op, tab, " ".join(ops)), "%s-large-table-finds" % op))
    return cs


def gen_cases(rng, tier):
    cs = []
    _STATE["dump"] = _dump("")
    cs += synthetic_table_cases(rng, tier)
    cs += table_cases("", _STATE["dump"], rng, tier)
    if _STATE.get("both"):
        _STATE["dump44"] = _dump("4")
        cs += table_cases("4", _STATE["dump44"], rng, tier)
    cs += history_cases(rng, tier)
    return cs


def postprocess(case, r):
    if case.line.startswith(("PS ", "PG ")) and (r.startswith("CRASH") or r.startswith("EXC std::bad_alloc")):
        return "FAULT"
    return r


# ---- classifiers ----
def _hist(case):
    w = case.line.split(" ")
    return w[0], w[1].split(":"), w[2:]


def c_insert_full_set(case, r, m):
    """every deviation is a STALE iterator, returned by an insert into a full, non-empty set"""
    if not case.line.startswith(("PS ", "PG ")) or r == "FAULT":
        return False
    op, ctor, ops = _hist(case)
    if ctor[0] == "H":
        return False
    toks = r.split(",")
    if len(toks) != len(ops) or "STALE" not in r:
        return False
    if ctor[0] == "A":
        n = len([x for x in ctor[2].split(",") if x])
        sz, rsz = n, n + calc_reserve(n, int(ctor[1]))
    else:
        sz = int(ctor[1])
        rsz = sz + calc_reserve(sz, int(ctor[2]))
    for o, t in zip(ops, toks):
        res, s1, r1 = t.split("/")
        if "STALE" in res:
            if not (o[0] == "i" and res == "1@STALE" and sz != 0 and sz == rsz):
                return False
        sz, rsz = int(s1), int(r1)
    return True


def c_reserve_zero(case, r, m):
    if not case.line.startswith(("PS ", "PG ")) or r != "FAULT":
        return False
    op, ctor, ops = _hist(case)
    empty0 = (ctor[0] == "E" and ctor[1] == "0" and ctor[2] == "0") or (ctor[0] == "A" and ctor[1] == "0" and ctor[2] == "")
    return empty0 and any(o[0] in "ir" and len(o) > 1 for o in ops)


def c_explicit_size(case, r, m):
    if not case.line.startswith(("PS ", "PG ")) or r != "FAULT":
        return False
    op, ctor, ops = _hist(case)
    return ctor[0] == "E" and int(ctor[1]) > 0 and len(ops) > 0


def c_hash_absent_key(case, r, m):
    """(before b713cdd) hash-array constructor: an insert of a key that is not in the table faulted"""
    if not case.line.startswith("PS ") or r != "FAULT":
        return False
    op, ctor, ops = _hist(case)
    if ctor[0] != "H" or ctor[1] == "":
        return False
    keys = set(int(x.split(".")[0]) for x in ctor[1].split(",") if x)
    return any((o[0] == "i" and int(o[1:].split(".")[0]) not in keys) or
               (o[0] == "r" and any(int(x.split(".")[0]) not in keys for x in o[1:].split("/") if x)) for o in ops)


def _hash_phases(case):
    """(find(answer) of an absent key while the hash array is attached, lookup between clear and the next insert)"""
    op, ctor, ops = _hist(case)
    if op != "PS" or ctor[0] != "H" or ctor[1] == "":
        return None
    keys = set(int(x.split(".")[0]) for x in ctor[1].split(",") if x)
    mode, absent_answer, lookup_after_clear = "intact", False, False
    for o in ops:
        if mode == "detached":
            break
        if o[0] == "i" or (o[0] == "r" and len(o) > 1):
            mode = "detached"
        elif o[0] == "c":
            mode = "cleared"
        elif o[0] in "fa":
            if mode == "cleared":
                lookup_after_clear = True
            elif o[0] == "a" and int(o[1:]) not in keys:
                absent_answer = True
    return absent_answer, lookup_after_clear


def c_hash_attached_answer(case, r, m):
    ph = _hash_phases(case) if case.line.startswith("PS ") and r != "FAULT" else None
    return bool(ph) and ph[0] and not ph[1]


def c_hash_attached_clear(case, r, m):
    ph = _hash_phases(case) if case.line.startswith("PS ") and r != "FAULT" else None
    return bool(ph) and ph[1] and not ph[0]


CLASSIFIERS = {"insert-into-full-set": c_insert_full_set, "reserve-zero-first-insert": c_reserve_zero,
               "explicit-ctor-nonzero-size": c_explicit_size, "hash-ctor-absent-key": c_hash_absent_key,
               "hash-attached-find-answer-absent": c_hash_attached_answer, "hash-attached-lookup-after-clear": c_hash_attached_clear}


def nontrivial(case, r):
    w = case.line.split(" ")
    op = w[0].rstrip("4") if w[0] not in ("4",) else w[0]
    if op in ("T", "TS"):
        return int(w[3]) - int(w[2]) >= 100 and r.count(":") >= 6 * 2
    if op == "F":
        return int(w[2]) - int(w[1]) >= 100
    if op in ("M", "RF", "RM"):
        return len(w) >= 4
    if op in ("PS", "PG"):
        return len(w) >= 7 and any(o[0] in "ir" for o in w[2:]) and r != "FAULT"
    return False


def EXHAUSTIVE(tier):
    # find_be / _be over all 65536 tags in both tiers; all trait tables over all tags in the thorough tier
    return tier == "thorough"


def extra_evidence(ctx):
    d = _STATE.get("dump", {})
    return {"trait_tables": len(d.get("tables", [])) + len(_STATE.get("dump44", {}).get("tables", [])),
            "msgtypes": len(d.get("msgs", [])), "fields": len(d.get("fields", [])),
            "field_table_all_tags": True}


def extra_search(rng, seeds, tier):
    out = history_cases(rng, "thorough")[:3000]
    for c in seeds[:10]:
        w = c.line.split(" ")
        if w[0].startswith("T") and len(w) == 4:
            for lo in range(0, 65536, 16384):
                out.append(Case("%s %s %d %d" % (w[0], w[1], lo, lo + 16383), "traits-all-tags"))
    return out


def shrink(case):
    w = case.line.split(" ")
    op = w[0]
    if op.startswith(("PS", "PG")):
        ops = w[2:]
        if len(ops) <= 1:
            return []
        cands = [w[:2] + ops[:-1], w[:2] + ops[1:], w[:2] + ops[:len(ops) // 2]]
        return [Case(" ".join(c), "shrink") for c in cands]
    if op.startswith("T") and len(w) == 4:      # T, T4, TS
        lo, hi = int(w[2]), int(w[3])
        if hi <= lo:
            return []
        mid = (lo + hi) // 2
        return [Case("%s %s %d %d" % (op, w[1], lo, mid), "shrink"), Case("%s %s %d %d" % (op, w[1], mid + 1, hi), "shrink")]
    if op.startswith("F") and len(w) == 3:
        lo, hi = int(w[1]), int(w[2])
        if hi <= lo:
            return []
        mid = (lo + hi) // 2
        return [Case("%s %d %d" % (op, lo, mid), "shrink"), Case("%s %d %d" % (op, mid + 1, hi), "shrink")]
    probes = w[1:]
    if len(probes) <= 1:
        return []
    h = len(probes) // 2
    return [Case(" ".join([op] + probes[:h]), "shrink"), Case(" ".join([op] + probes[h:]), "shrink")]
