"""C26 — persisters honour the store contract."""
import glob
import os
import shutil

from vlib import build as B
from vlib import core
from vlib.core import Case

ID = "C26"
LEVEL = "proof"
TECHNIQUE = ("Coq refinement proof (induction over the operation list with an abstraction function) from hand-written "
             "Gallina models of MemoryPersister and FilePersister (index map + index/data files as byte lists, every "
             "store compiled to its lseek/write calls, index replay on reopen) to a finite-map specification; models tied "
             "to the code by differential execution of random operation sequences on the real persisters under ASan")
LEVEL_TEXT = ("Theorem c26_file_refines: for every operation sequence (records <= 8192 bytes, searches starting at >= 1, no "
              "reopen after a control record overwrote a message's index entry) the file persister model returns exactly the "
              "results of a map seq->bytes plus one control record; c26_mem_refines the same for the memory persister at full "
              "strength (control record included, no length bound; code since 760121b); c26_mem_orig_refuted (the code before "
              "760121b), c26_file_reopen_refuted, c26_zero_request_refuted, c26_overlong_refuted exhibit the operation sequences "
              "on which the code departs / departed.")
LEVEL_NOTE = ("Trusted: Coq kernel, extraction, the hand transcription of persist.cpp/filepersist.cpp (checked by the "
              "correspondence run), POSIX lseek/read/write on regular files behaving as the byte-list model (no short "
              "writes, no I/O errors), ASan trapping the overrun of the 8192-byte stack buffer.")
DESIGN_REF = "DESIGN.md section 4, C26"
PROPS_FILE = "Props/Properties_C26.v"
COQ_TARGETS = ["Props/Properties_C26.vo", "Extract/Extract_C26.vo"]
TRUSTED_BASE = ["Coq 8.16.1 kernel (coqc), vm_compute only",
                "Extraction with ExtrOcamlBasic, no Extract Constant; OCaml 4.13.1",
                "hand-written models coq/C26/SMap.v, MemPersist.v, FilePersist.v of runtime/persist.cpp (MemoryPersister) and "
                "runtime/filepersist.cpp, tied by differential execution",
                "ocaml/prelude.ml + ocaml/c26_driver.ml (parsing/printing of operations and results), harness/h_c26.cpp, vlib",
                "g++ 12 -fsanitize=address,undefined; POSIX file semantics of the kernel (regular files in /tmp)"]
ASSUMPTIONS = ["write/lseek/read on the two regular files never fail and never transfer fewer bytes than asked while data is available",
               "message sequence numbers below 2^31 (the nearest loop does not terminate for last = 2^32-1); control values: the whole unsigned range"]
RULE = ("random operation sequences of length <= 40 (put/get/control put/control get/last/nearest/range get with and without "
        "abort/reopen) over sequence numbers 0..12, payloads of 0..64 random bytes plus 8191/8192/8193, control values 0, small or from "
        "{8191, 8192, 8193, 65535, 65536, 2^31-1, 2^31, 2^32-1} (each also in a fixed case, read back across a reopen), on the real "
        "MemoryPersister (control record compared exactly), the real FilePersister without reopen and with close+reopen between operations; most sequences "
        "are control-first and search from >= 1 (inside the theorems' hypotheses), a fixed share exercises each listed "
        "finding and a malformed share (seq 0, duplicates, empty ranges, from > to). non-trivial = at least 3 accepted "
        "puts, a get, and a range or nearest operation; distinct = distinct case lines")


def build(tier):
    return {"impl": [B.harness("h_c26", runtime=None, schema="utest")]}


# --------------------------------------------------------------------------- case syntax

def fmt_op(o):
    if o[0] == "P":
        return "P %d %s" % (o[1], bytes(o[2]).hex() or "-")
    return " ".join(str(x) for x in o)


def mk(kind, ops, cls):
    return Case(kind + " " + ";".join(fmt_op(o) for o in ops), cls)


def parse(line):
    kind, rest = line[0], line[2:]
    ops = []
    for s in rest.split(";"):
        w = s.split()
        if not w:
            continue
        if w[0] == "P":
            ops.append(("P", int(w[1]), bytes.fromhex(w[2]) if w[2] != "-" else b""))
        else:
            ops.append(tuple([w[0]] + [int(x) for x in w[1:]]))
    return kind, ops


# --------------------------------------------------------------------------- generation

def payload(rng, big_ok=False):
    m = rng.randrange(20)
    if big_ok and m == 0:
        n = rng.choice((8191, 8192, 8193))
    elif m < 3:
        n = rng.choice((0, 1, 64))
    else:
        n = rng.randrange(0, 65)
    return bytes(rng.randrange(256) for _ in range(n))


# control values: the API type is `unsigned`; both persisters must keep the whole range.  The file
# persister packs target into the int32 _size field of an index record (>= 2^31 is negative there,
# > 8192 is larger than any message size) and sender into the 64-bit _offset.
CTL_BOUNDARY = (8191, 8192, 8193, 65535, 65536, 2**31 - 1, 2**31, 2**32 - 1)


def ctl_val(rng):
    """0 (the value of a default-constructed record; (0,0) is a legal first control store), a boundary
    value of the packing into the index record, or a small number"""
    r = rng.randrange(10)
    if r < 2:
        return 0
    if r < 5:
        return rng.choice(CTL_BOUNDARY)
    return rng.randrange(1, 40)


def gen_ops(rng, kind, n, ctl_first, zero_ok, reopen, mem_ctl, big_ok):
    ops = []
    nctl = 0
    if ctl_first:
        ops.append(("C", ctl_val(rng), ctl_val(rng)))
        nctl = 1
    lo = 0 if zero_ok else 1
    while len(ops) < n:
        r = rng.randrange(100)
        if r < 30:
            seq = rng.randrange(0, 13) if rng.randrange(12) == 0 else rng.randrange(1, 13)
            ops.append(("P", seq, payload(rng, big_ok)))
        elif r < 45:
            ops.append(("G", rng.randrange(0, 13)))
        elif r < 53:
            ops.append(("C", ctl_val(rng), ctl_val(rng)))
            nctl += 1
        elif r < 60:
            ops.append(("c",))
        elif r < 66:
            ops.append(("L",))
        elif r < 76:
            ops.append(("N", rng.randrange(lo, 14), rng.randrange(0, 15)))
        elif r < 92:
            f = rng.randrange(lo, 14)
            t = rng.choice((0, 0, rng.randrange(0, 14), f, f + rng.randrange(0, 5)))
            k = rng.choice((0, 0, 0, 1, 2, 3, rng.randrange(0, 8)))
            ops.append(("R", f, t, k))
        elif reopen:
            ops.append(("O",))
    return ops


def gen_cases(rng, tier):
    total = 50000 if tier == "thorough" else 2000
    cs = []
    for i in range(total):
        kind = ("M", "F", "F")[i % 3]
        reopen = kind == "F" and (i % 6) >= 3
        n = rng.randrange(1, 41)
        sel = rng.randrange(100)
        if sel < 70:       # inside the hypotheses of the refinement theorems
            ops = gen_ops(rng, kind, n, ctl_first=rng.randrange(4) != 0 or reopen, zero_ok=False, reopen=reopen,
                          mem_ctl=False, big_ok=(sel < 8))
            cls = {"M": "mem-clean", "F": "file-reopen" if reopen else "file-clean"}[kind]
        elif sel < 80:     # searches from 0 (finding when a control record is present)
            ops = gen_ops(rng, kind, n, ctl_first=rng.randrange(2) == 0, zero_ok=True, reopen=reopen,
                          mem_ctl=False, big_ok=False)
            cls = "zero-request"
        elif sel < 92:     # message before the first control record / memory control record
            ops = gen_ops(rng, kind, n, ctl_first=False, zero_ok=False, reopen=reopen, mem_ctl=True, big_ok=False)
            cls = "mem-control" if kind == "M" else "msg-first"
        else:              # anything goes
            ops = gen_ops(rng, kind, n, ctl_first=False, zero_ok=True, reopen=reopen, mem_ctl=True, big_ok=False)
            cls = "wild"
        cs.append(mk(kind, ops, cls))
    # every boundary control value as sender and as target, read back directly and across a reopen
    for j, v in enumerate(CTL_BOUNDARY):
        w = CTL_BOUNDARY[(j + 3) % len(CTL_BOUNDARY)]
        cs.append(mk("M", [("C", v, w), ("c",), ("C", w, v), ("c",), ("P", 2, b"ab"), ("c",), ("L",)], "ctl-boundary"))
        cs.append(mk("F", [("C", v, w), ("c",), ("O",), ("c",), ("P", 2, b"ab"), ("C", w, v), ("c",), ("O",), ("c",), ("G", 2), ("L",)],
                     "ctl-boundary"))
    # control stores of (0,0), of a value equal to the stored one, and of one component changed, each read
    # back directly and across a reopen (twice: the second reopen sees what the first session wrote)
    for kind in "MF":
        for (a, b) in ((0, 0), (0, 7), (7, 0)):
            ops = [("C", a, b), ("c",), ("O",), ("c",), ("P", 1, b"m1"), ("C", a, b), ("c",), ("C", 3, 4), ("C", 3, 4),
                   ("O",), ("c",), ("G", 1), ("C", 0, 0), ("O",), ("c",), ("G", 1)]
            cs.append(mk(kind, [o for o in ops if kind == "F" or o[0] != "O"], "ctl-zero-equal"))
    # boundary of MaxMsgLen: 8192 is stored by both, 8193 is refused by the file persister (then the
    # number is still free) and stored by the memory persister
    for kind in "MF":
        for n in (8191, 8192, 8193, 9000):
            b = bytes((i * 7 + n) & 255 for i in range(n))
            cs.append(mk(kind, [("C", 1, 1), ("P", 3, b), ("G", 3), ("R", 1, 0, 0), ("P", 3, b"zz"), ("G", 3), ("L",)]
                         + ([("O",), ("G", 3)] if kind == "F" else []), "max-length"))
    return cs


# --------------------------------------------------------------------------- execution

def run_impl(built, cases, tier):
    out = core.run_lines(built["impl"], [c.line for c in cases], per_case_timeout=20, timeout_per_batch=900)
    for d in glob.glob("/tmp/C26-[0-9]*"):       # left behind by a harness process that was killed by ASan
        pid = d.rsplit("-", 1)[1]
        if pid.isdigit() and not os.path.exists("/proc/" + pid):
            shutil.rmtree(d, ignore_errors=True)
    return out


def postprocess(case, r):
    if r.startswith("CRASH") and "stack-buffer-overflow" in r and "filepersist.cpp" in r:
        return "OOB"
    return r


def nontrivial(case, r):
    kind, ops = parse(case.line)
    parts = r.split(";")
    if len(parts) != len(ops):
        return False
    acc = sum(1 for o, p in zip(ops, parts) if o[0] == "P" and p == "1")
    return acc >= 3 and any(o[0] == "G" for o in ops) and any(o[0] in "RN" for o in ops)


# --------------------------------------------------------------------------- classifiers

def c_zero_request(case, r, m):
    """a search / range retrieval starting at 0 while a control record is present (stored under key 0)"""
    kind, ops = parse(case.line)
    ctl = False
    for o in ops:
        if o[0] == "C":
            ctl = True
        elif o[0] in "NR" and o[1] == 0 and ctl:
            return True
    return False


def c_msg_first_reopen(case, r, m):
    """file persister: first index record is a message's, a control put overwrote it, then a reopen"""
    kind, ops = parse(case.line)
    if kind != "F":
        return False
    slot = "virgin"
    for o in ops:
        if slot == "lost" and o[0] == "O":
            return True
        if slot == "virgin" and o[0] == "P" and o[1] != 0 and len(o[2]) <= 8192:
            slot = "msg"
        elif slot == "virgin" and o[0] == "C":
            slot = "ctl"
        elif slot == "msg" and o[0] == "C":
            slot = "lost"
    return False


CLASSIFIERS = {"zero-request": c_zero_request, "msg-first-reopen": c_msg_first_reopen}


# --------------------------------------------------------------------------- search / shrink

def extra_search(rng, seeds, tier):
    out = gen_cases(rng, "quick")
    for c in seeds[:20]:
        kind, ops = parse(c.line)
        for _ in range(10):
            o2 = list(ops)
            if len(o2) > 1:
                del o2[rng.randrange(len(o2))]
            out.append(mk(kind, o2, "neighbour"))
    return out


def _shrink_raw(case):
    kind, ops = parse(case.line)
    out = []
    for i in range(len(ops)):
        out.append(mk(kind, ops[:i] + ops[i + 1:], "shrink"))
    for i, o in enumerate(ops):
        if o[0] == "P" and len(o[2]) > 1:
            out.append(mk(kind, ops[:i] + [("P", o[1], o[2][:1])] + ops[i + 1:], "shrink"))
    return out


def shrink(case):
    """Shrink candidates, never drifting INTO a listed finding: a candidate that one of the classifiers
    accepts although the case being shrunk is outside it would turn a new failure into a known one."""
    mine = {n for n, f in CLASSIFIERS.items() if f(case, "", "OOB")}
    if mine:
        # an unlisted failure on an input of a listed finding means model and implementation differ
        # there; shrinking blind to the outputs could end on a merely known input: report it as it is
        return []
    out = []
    for c in _shrink_raw(case):
        try:
            if any(f(c, "", "OOB") for n, f in CLASSIFIERS.items() if n not in mine):
                continue
        except Exception:
            continue
        out.append(c)
    return out
