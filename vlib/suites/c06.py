"""C06 — length-prefixed data fields carry arbitrary bytes."""
from vlib import build as B
from vlib import codecgen as G
from vlib import core
from vlib.core import Case
from vlib.suites import _c05c06 as H

ID = "C06"
LEVEL = "proof"
TECHNIQUE = ("Coq proof about the hand-written Gallina model of extract_element_fixed_width and of MessageBase::decode's "
             "Length/data pairing (coq/Codec/Extract.v, Decode.v): exactness of the fixed-width extractor for arbitrary content "
             "bytes and a one-turn theorem for the decode loop (coq/C06/TokenLemmas.v, PairProofs.v), refutations by computed "
             "witnesses; the property is an independent executable predicate on observations (coq/C06/Spec_C06.v); the model is "
             "tied to the real encoder/decoder by differential execution on every Length/data pair of the dumped metadata")
LEVEL_TEXT = ("see coq/Props/Properties_C06.v: c06_fixed_width_exact and c06_header_body_partial are proved for all contents, "
              "schemas and decoder states about the model; the model is tied to Message::encode / Message::factory by identical "
              "bytes and object dumps on generated traffic, and the oracle c06_ok is evaluated on the real code's outputs")
LEVEL_NOTE = ("Trusted: Coq kernel, extraction (ExtrOcamlBasic), the hand transcription in coq/Codec (checked by the "
              "correspondence run), the metadata dump of harness/meta_dump.hpp, the OCaml driver's parsers, vlib generators.")
DESIGN_REF = "DESIGN.md section 4, Codec group, C06; finding F14"
PROPS_FILE = "Props/Properties_C06.v"
COQ_TARGETS = ["Props/Properties_C06.vo", "Extract/Extract_C06.vo"]
TRUSTED_BASE = ["Coq 8.16.1 kernel (coqc), vm_compute only", "Extraction with ExtrOcamlBasic, no Extract Constant; OCaml 4.13.1",
                "hand-written model coq/Codec/*.v of runtime/message.cpp + include/fix8/message.hpp, tied by differential execution",
                "harness/h_codec.cpp + harness/meta_dump.hpp (metadata taken from the compiled generated classes)",
                "ocaml/prelude.ml + ocaml/c06_driver.ml (metadata / msgspec / dump parsers), vlib/codecgen.py + vlib/suites/_c05c06.py (generators)",
                "re-entrancy of Message::factory / MessageBase::decode (several reader threads decoding at the same time) rests on the "
                "concurrent differential run of harness/h_c06.cpp (and its ThreadSanitizer build in the thorough tier), NOT on a theorem: "
                "the Coq model is sequential"]
ASSUMPTIONS = ["the property's domain (in_domain of Spec_C06.v): every Length/data pair of a message is used consistently -- both "
               "fields present, the Length field holding the decimal length of the content -- and the content has at most "
               "FIX8_MAX_FLD_LENGTH - 1 = 2047 bytes (larger values are rejected with 'Value size too large'; 2048-byte "
               "values in SOH-delimited fields overflow val[] and belong to C03)",
               "Length/data pair = a Length-typed field (not BodyLength) whose successor in schema position is data-typed",
               "inside repeating groups half of the contents with SOH have the shape <bytes> SOH <digits> '=' <bytes> (a token "
               "that parses), the others are arbitrary (a token that fails to parse inside a group ended in an endless loop of "
               "decode_group before /repo a0d41df; since then the group just ends there)",
               "fields other than the pair carry values canonical for their type"]
RULE = ("every Length/data pair of the dumped metadata in every table (header, trailer, every message body, every repeating group "
        "down to the schema's depth), placed in a message with the mandatory fields of its surroundings and fields after it; "
        "contents: each of the 256 byte values alone, lengths 0, 1, 2, 2046, 2047 (2048 as out-of-domain), lengths that make the "
        "encoded body exactly 99/100/101 and 999/1000/1001 bytes (BodyLength digit ladder; thorough: every length 0..2047 for "
        "two placements), random bytes, SOH / "
        "'=' / NUL patterns; P cases go through build-encode-decode (RT), W cases decode a wire image built by the suite (NUL "
        "contents, Length smaller / larger / non-numeric).  non-trivial = in-domain case whose decode returned an object; "
        "distinct = distinct case lines")


def schemas(tier):
    return ("utest", "fix44") if tier == "thorough" else ("utest",)


_state = {}


def _conc_exe(variant):
    import hashlib
    h = hashlib.sha256(open(B.VERIF + "/harness/h_codec.cpp", "rb").read()).hexdigest()[:12]
    return B.harness("h_c06", runtime=None, schema="utest", variant=variant, extra=["-DHCODEC_SRC_" + h])


def build(tier):
    built = G.build_codec(schemas(tier))
    # the concurrent class runs on its own harness (h_c06.cpp = h_codec's decode stage on K threads);
    # thorough: the same harness under ThreadSanitizer as well
    built["conc"] = _conc_exe("plain")
    if tier == "thorough":
        built["conc_tsan"] = _conc_exe("tsan")
    _state["built"] = built
    return built


def expand(rest):
    w = rest.split(" ")
    if w[0] == "P":
        return ["RT s " + w[1]]
    if w[0] == "W":
        return ["DEC s " + w[2]]
    return [rest]


def join(rest, rs):
    return H.crash_to_model(rs[0])


def run_impl(built, cases, tier):
    conc = [k for k, c in enumerate(cases) if c.line.startswith(("C ", "CT "))]
    rest = [k for k in range(len(cases)) if k not in set(conc)]
    res = [None] * len(cases)
    for k, r in zip(rest, H.run_multi(built, [cases[k] for k in rest], expand, join)):
        res[k] = r
    for k in conc:
        tsan = cases[k].line.startswith("CT ")
        exe = built["conc_tsan"] if tsan else built["conc"]
        env = {"TSAN_OPTIONS": "halt_on_error=1:report_signal_unsafe=0"} if tsan else None
        line = "CONC " + cases[k].line.split(" ", 1)[1]
        r = core.run_lines([exe], [line], per_case_timeout=900, timeout_per_batch=900, env=env)[0]
        res[k] = H.crash_to_model(r)
    return res


# ------------------------------------------------------------------------------ placements
def placements(meta):
    """(kind, mt, owner, path, L, D): kind 'H' header, 'T' trailer, 'B' message body, 'G' group."""
    out = []
    simple = [mt for mt in sorted(meta.msgs) if not any(t.mandatory and t.group for t in meta.traits.get(mt, []))]
    for L, D in H.pairs_of(meta, "header"):
        out.append(("H", None, "header", [], L, D))
    for L, D in H.pairs_of(meta, "trailer"):
        out.append(("T", None, "trailer", [], L, D))
    for mt in sorted(meta.msgs):
        for owner, path in H.owners_of(meta, mt):
            for L, D in H.pairs_of(meta, owner):
                out.append(("G" if path else "B", mt, owner, path, L, D))
    return out, simple


def plain_part(gen, meta, owner, level=0, is_elem=False):
    """Mandatory fields only (plus the first field of an element), without Length/data fields."""
    fs = gen.part(owner, level, is_elem, p_opt=0.0)
    return [f for f in fs if meta.fields[f.fnum][0] not in (G.FT_LENGTH, G.FT_DATA, G.FT_XMLDATA) or f.fnum == 9]


def neighbours(rng, meta, owner, D, have, k=2):
    """Up to k optional plain fields of the same table positioned after the data field (and one
    before it): 'the fields after it decode correctly'."""
    td = meta.trait(owner, D)
    cand = [t for t in meta.traits.get(owner, [])
            if t.fnum not in have and not t.group and t.fnum not in G.AUTO
            and t.ftype not in (G.FT_LENGTH, G.FT_DATA, G.FT_XMLDATA, G.FT_TZTIMEONLY, G.FT_TZTIMESTAMP)]
    after = [t for t in cand if t.pos > td.pos]
    before = [t for t in cand if t.pos < td.pos]
    pick = rng.sample(after, min(k, len(after))) + rng.sample(before, min(1, len(before)))
    return [G.Fld(t.fnum, G.gen_value(rng, t.ftype, t.fnum)) for t in pick]


def place(rng, gen, meta, simple, pl, lenval, content, flat=False):
    """The message (mt, hdr, body, trl) carrying the pair of placement pl."""
    kind, mt, owner, path, L, D = pl
    if mt is None:
        mt = rng.choice(simple)
    hdr = plain_part(gen, meta, "header")
    body = plain_part(gen, meta, mt)
    if flat:
        body = [f for f in body if f.elems is None]
    trl = []
    pair = [G.Fld(L, lenval), G.Fld(D, content)]

    def with_pair(fs, own):
        fs = [f for f in fs if f.fnum not in (L, D)]
        fs = fs + pair + neighbours(rng, meta, own, D, {f.fnum for f in fs} | {L, D})
        rng.shuffle(fs)
        return fs

    if kind == "H":
        hdr = with_pair(hdr, "header")
    elif kind == "T":
        trl = with_pair(trl, "trailer")
    elif kind == "B":
        body = with_pair(body, mt)
    else:
        # build from the innermost element outwards
        def build_level(k, level):
            """fields of the table path[k][0] (level k) containing the group path[k][1]."""
            parent, g = path[k]
            sub = meta.groups[parent][g]
            if k + 1 == len(path):
                inner = with_pair(plain_part(gen, meta, sub, level + 1, True), sub)
            else:
                inner = build_level(k + 1, level + 1)
            els = [inner]
            if rng.random() < 0.5:
                els.append(plain_part(gen, meta, sub, level + 1, True))
            base = body if k == 0 else plain_part(gen, meta, parent, level, True)
            base = [f for f in base if f.fnum != g]
            base.append(G.Fld(g, str(len(els)).encode(), els))
            if k > 0:
                rng.shuffle(base)
            return base
        body = build_level(0, 0)
    return mt, hdr, body, trl


# ------------------------------------------------------------------------------ contents
SOHB = b"\x01"


def rand_bytes(rng, n, avoid=()):
    out = bytearray()
    while len(out) < n:
        b = rng.randrange(256)
        if b not in avoid:
            out.append(b)
    return bytes(out)


def group_safe(rng, n):
    """Content with SOH for a pair inside a group: every SOH is followed by <digits>= ."""
    a = rand_bytes(rng, rng.randint(0, 3), avoid=(0, 1))
    mid = b"%d=" % rng.choice((9999, 58, 7, 35010))
    rest = max(0, n - len(a) - 1 - len(mid))
    return a + SOHB + mid + rand_bytes(rng, rest, avoid=(0, 1))


def content_for(rng, kind, cls):
    """cls: 'small', 'soh', 'long', 'edge'."""
    in_group = kind == "G"
    if cls == "soh":
        if in_group and rng.random() < 0.5:
            return group_safe(rng, rng.randint(4, 24))
        return rng.choice((SOHB, SOHB * 2, b"a\x01b", b"\x01=\x01", b"=\x01", b"a\x0158=x", b"x\x0110=000\x01",
                           b"\x0134=9\x01", rand_bytes(rng, 6, avoid=(0,)) + SOHB, b"8=FIX.4.2\x019=5\x01"))
    if cls == "long":
        n = rng.choice((2046, 2047, 2047, 1000, 300))
        if in_group:
            return rand_bytes(rng, n, avoid=(0, 1))
        c = bytearray(rand_bytes(rng, n, avoid=(0,)))
        for _ in range(rng.randint(0, 6)):
            c[rng.randrange(n)] = rng.choice((1, 61))
        return bytes(c)
    if cls == "edge":
        return rng.choice((b"", b"=", b"==", b"1=", b"10=", b"\xff", b"\x80\xfe", b" ", b"0", b"-1"))
    n = rng.randint(2, 40)
    return rand_bytes(rng, n, avoid=(0, 1) if in_group else (0,))


MARK = b"\x02\x03MARK\x03\x02"


def body_length(meta, m):
    """BodyLength the encoder will compute for message m: everything from 35= up to 10=."""
    toks = H.wire_tokens(meta, *m)
    return len(b"35=" + m[0].encode() + SOHB) + sum(len(t.raw) + 1 for t in toks)


def _find_pair(fs, L, D):
    for i, f in enumerate(fs):
        if f.fnum == D and f.val == MARK:
            return next(g for g in fs if g.fnum == L), f
        if f.elems:
            for e in f.elems:
                r = _find_pair(e, L, D)
                if r:
                    return r
    return None


def sized(rng, gen, meta, simple, pl, target=None, n=None):
    """The message of placement pl whose content is chosen so that the encoded BODY length is
    exactly `target` (None if that cannot be reached), or whose content has exactly n bytes.
    Message::encode picks the width of the BodyLength text by a ladder of comparisons; the
    preamble is written backwards from the body, so an off-by-one there clobbers 35=."""
    m = place(rng, gen, meta, simple, pl, b"0", MARK, flat=True)
    lf, df = _find_pair(m[1], pl[4], pl[5]) or _find_pair(m[2], pl[4], pl[5]) or _find_pair(m[3], pl[4], pl[5])

    def fill(k):
        kind = pl[0]
        c = bytearray(rand_bytes(rng, k, avoid=(0, 1) if kind in ("G", "T") else (0,)))
        if kind not in ("G", "T"):
            for _ in range(min(k, 3)):
                c[rng.randrange(k)] = rng.choice((1, 61, 0xff))
        df.val = bytes(c)
        lf.val = str(k).encode()
    if n is not None:
        fill(n)
        return m
    for k in range(0, 2048):
        df.val = b"x" * k
        lf.val = str(k).encode()
        bl = body_length(meta, m)
        if bl == target:
            fill(k)
            return m
        if bl > target:
            return None
    return None


def pre(schema, default):
    return "" if schema == default else "@%s " % schema


def gen_cases(rng, tier):
    built = _state.get("built") or build(tier)
    thorough = tier == "thorough"
    cs = []
    default = schemas(tier)[0]
    for schema in schemas(tier):
        meta = built["metas"][schema]
        px = pre(schema, default)
        gen = G.MsgGen(meta, rng, p_opt=0.0, max_elems=1)
        pls, simple = placements(meta)
        if not pls:
            continue
        grp = [p for p in pls if p[0] == "G"]
        byk = {k: [p for p in pls if p[0] == k] for k in "HTB"}

        class Top(list):
            """Message-level placements; rng.choice over it is balanced between header, trailer and
            body pairs (the schema has 2 + 1 header/trailer pairs against dozens of body pairs)."""
            def __getitem__(self, i):
                if isinstance(i, slice):
                    return list.__getitem__(self, i)
                k = "HTBB"[i % 4]
                pool = byk[k] or list(self)
                return pool[(i // 4) % len(pool)]
        top = Top(byk["H"] + byk["T"] + byk["B"])
        main = schema == default
        scale = (3 if thorough else 1) if main else 1

        def P(pl, content, cls, lenval=None):
            lv = str(len(content)).encode() if lenval is None else lenval
            m = place(rng, gen, meta, simple, pl, lv, content)
            return Case(px + "P " + G.ser_msg(*m), "%s-%s" % (cls, pl[0]))

        def W(pl, content, cls, lenval=None, flat=True):
            lv = str(len(content)).encode() if lenval is None else lenval
            m = place(rng, gen, meta, simple, pl, lv, content, flat=flat)
            toks = H.wire_tokens(meta, *m)
            wire = H.frame(meta.begin, m[0], [t.raw for t in toks])
            return Case(px + "W %s %s" % (G.ser_msg(*m), wire.hex()), "%s-%s" % (cls, pl[0]))

        # 1. every placement: a small random content, and one with SOH
        for pl in pls:
            cs.append(P(pl, content_for(rng, pl[0], "small"), "small"))
            if main or rng.random() < 0.3:
                cs.append(P(pl, content_for(rng, pl[0], "soh"), "soh"))
        # 2. each of the 256 byte values alone (message-level and group placements alternate)
        if main:
            for b in range(256):
                for rep in range(scale + 1):
                    pl = rng.choice(top if (b + rep) % 3 else (grp or top))
                    if b == 0:
                        cs.append(W(pl, b"\x00", "byte"))
                    elif b == 1 and pl[0] == "G":
                        cs.append(P(pl, group_safe(rng, 5), "byte"))
                    else:
                        cs.append(P(pl, bytes([b]), "byte"))
        # 3. lengths 0, 1, 2 with the interesting bytes; long contents; edge texts
        inter = (1, 61, 0xff, 48, 0x7f)
        for k in range(100 * scale if main else 15):
            pl = rng.choice(top if k % 2 else (grp or top))
            a, b2 = rng.choice(inter), rng.choice(inter)
            c = bytes([a, b2])
            if pl[0] == "G" and 1 in c:
                c = group_safe(rng, 6)
            cs.append(P(pl, c, "two"))
            cs.append(P(pl, content_for(rng, pl[0], "edge"), "edge"))
        for k in range(60 * scale if main else 10):
            pl = rng.choice(top if k % 3 else (grp or top))
            cs.append(P(pl, content_for(rng, pl[0], "long"), "long"))
        for pl in top[:6]:
            for n in (2046, 2047):
                cs.append(P(pl, bytes((i * 7 + n) % 255 + 1 for i in range(n)), "bound"))
        # 3b. BodyLength digit-count boundaries: the content length is computed so that the encoded
        #     body is exactly 99/100/101 and 999/1000/1001 bytes long (the pair must survive the
        #     encoder's preamble arithmetic as well); thorough: every content length 0..2047
        bpl = []
        for want in ((90, 91), (95, 96), (212, 213), (354, 355)):
            bpl += [p for p in byk["H"] + byk["B"] if (p[4], p[5]) == want][:1]
        for pl in bpl:
            for target in (99, 100, 101, 999, 1000, 1001):
                for rep in range(2 if main else 1):
                    m = sized(rng, gen, meta, simple, pl, target=target)
                    if m is not None:
                        cs.append(Case(px + "P " + G.ser_msg(*m), "bodylen-%d-%s" % (target, pl[0])))
        if thorough and main:
            for pl in bpl[:2]:
                for n in range(0, 2048):
                    m = sized(rng, gen, meta, simple, pl, n=n)
                    cs.append(Case(px + "P " + G.ser_msg(*m), "sweep-%s" % pl[0]))
        # 3c. CONCURRENT decoding: K = 2 and 4 real threads, each decoding its own messages (long data
        #     fields, 1-2 KB with SOH / '=' inside, in header, body and trailer pairs; every thread's
        #     payload bytes come from its own alphabet so that bytes leaking between threads cannot
        #     coincide) 20000 times (uninstrumented build: the sanitizer allocator serialises the threads); the harness compares every result with the same thread's
        #     single-threaded result.  The messages are also decoded as ordinary W cases.
        if main:
            cpl = byk["H"][:2] + byk["T"][:1] + [p for p in byk["B"] if (p[4], p[5]) == (95, 96)][:2] + byk["B"][:1]
            for K, reps in ((2, 2), (4, 2)):
                for rep in range(reps * scale):
                    lists = []
                    for t in range(K):
                        wires = []
                        for j in range(5):
                            pl = cpl[(t + j + rep) % len(cpl)]
                            n = rng.choice((2047, 2046, 1800, 1500, 1200, 1024))
                            lo = 0x21 + 23 * ((t + 4 * rep) % 9)
                            c = bytearray(lo + rng.randrange(23) for _ in range(n))
                            if pl[0] != "T":
                                for _ in range(8):
                                    c[rng.randrange(n)] = rng.choice((1, 61))
                            m = place(rng, gen, meta, simple, pl, str(n).encode(), bytes(c))
                            toks = H.wire_tokens(meta, *m)
                            wire = H.frame(meta.begin, m[0], [x.raw for x in toks])
                            wires.append(wire.hex())
                            if rep == 0 and j < 2:
                                cs.append(Case(px + "W %s %s" % (G.ser_msg(*m), wire.hex()), "conc-single-%s" % pl[0]))
                        lists.append(",".join(wires))
                    cs.append(Case("C 20000 " + ";".join(lists), "concurrent-%d" % K))
                    if thorough and rep == 0:
                        cs.append(Case("CT 600 " + ";".join(lists), "concurrent-tsan-%d" % K))
        # 4. NUL contents: through the API (truncated at construction) and as a wire image
        for k in range(30 * scale if main else 8):
            pl = rng.choice(top if k % 3 else (grp or top))
            c = bytearray(rand_bytes(rng, rng.randint(1, 12), avoid=(1,)))
            c[rng.randrange(len(c))] = 0
            cs.append((W if k % 2 else P)(pl, bytes(c), "nul"))
        # 5. out of the domain: 2048 bytes; Length smaller / larger / not a number (flat messages)
        for pl in top[:4]:
            cs.append(P(pl, b"y" * 2048, "len2048"))
        for k in range(40 * scale if main else 10):
            pl = rng.choice(top)
            c = rand_bytes(rng, rng.randint(1, 20), avoid=(0,))
            n = len(c)
            # Length texts stay within int32: beyond it fast_atoi overflows a signed int (C03-fast-atoi-ub)
            lv = rng.choice((n - 1, n + 1, n + 2, max(0, n - 3), n + 40, 0, 99999, 2048, 2147483647))
            # (texts with characters below '0', e.g. "-1", are kept out: fast_atoi<unsigned> shifts a
            #  negative int there, which the UBSan build of the harness turns into a crash)
            lvb = rng.choice((str(lv).encode(), str(lv).encode(), b"abc", b"", b"0%d" % n, b"%dx" % n))
            cs.append(W(pl, c, "mismatch", lenval=lvb))
    return cs


# ------------------------------------------------------------------------------ verdict support
def _parse(case):
    if case.line.startswith(("C ", "CT ")):
        raise ValueError("concurrent case")
    built = _state["built"]
    default = next(iter(built["exes"]))
    schema, rest = G.schema_of(case.line, default)
    w = rest.split(" ")
    return built["metas"][schema], w[0], G.parse_msg(w[1])


def _data_fields(meta, owner, fs, depth):
    """(owner, depth, fnum, content) of every data-typed field of a field list, recursively."""
    for f in fs:
        if meta.fields.get(f.fnum, (0,))[0] in (G.FT_DATA, G.FT_XMLDATA):
            yield owner, depth, f.fnum, f.val
        if f.elems:
            sub = meta.groups.get(owner, {}).get(f.fnum)
            for e in f.elems:
                yield from _data_fields(meta, sub, e, depth + 1)


def _all_data(case):
    if case.line.startswith(("C ", "CT ")):
        return None, []
    meta, op, (mt, hdr, body, trl) = _parse(case)
    out = list(_data_fields(meta, "header", hdr, 0)) + list(_data_fields(meta, mt, body, 0)) + \
        list(_data_fields(meta, "trailer", trl, 0))
    return meta, out


def c_nul(case, r, m):
    """Content contains NUL: the decoder hands the value over as a C string."""
    _, ds = _all_data(case)
    return any(b"\x00" in v for _, _, _, v in ds)


def c_group(case, r, m):
    """Pair inside a repeating group, content contains SOH: decode_group has no Length handling."""
    _, ds = _all_data(case)
    return any(depth > 0 and SOHB in v for _, depth, _, v in ds)


def c_nonadjacent(case, r, m):
    """Pair whose data tag is not length tag + 1 (SignatureLength 93 / Signature 89), content with
    SOH: MessageBase::decode's test lasttv + 1 != tv falls back to SOH-delimited extraction."""
    meta, ds = _all_data(case)
    for owner, depth, f, v in ds:
        if depth == 0 and SOHB in v:
            for L, D in H.pairs_of(meta, owner):
                if D == f and D != L + 1:
                    return True
    return False


CLASSIFIERS = {"content-nul": c_nul, "pair-in-group": c_group, "pair-tags-not-adjacent": c_nonadjacent}


def nontrivial(case, r):
    return "OK T=" in r or r.startswith("OK threads=")


def extra_search(rng, seeds, tier):
    return gen_cases(rng, tier)[:2500]
