"""C07 — checksum function computes the byte sum mod 256 within bounds."""
from vlib import build as B
from vlib.core import Case

ID = "C07"
LEVEL = "proof"
TECHNIQUE = "Coq proof (bit-level carry lemma + loop invariant) about a hand-written Gallina model of calc_chksum; model tied to the code by differential execution (extracted OCaml vs real function under ASan)"
LEVEL_TEXT = ("Theorem c07_len: for every buffer, offset and length in range the modelled routine returns the byte "
              "sum mod 256 and every read index lies in [offset, offset+len); the no-length form likewise for "
              "[offset, sz).  The model is tied to Message::calc_chksum by running both on the same buffers.")
LEVEL_NOTE = ("Trusted: Coq kernel, extraction (ExtrOcamlBasic), the hand transcription of calc_chksum (checked by the "
              "correspondence run), ASan trapping reads outside an exactly-sized heap block, x86-64 little-endian "
              "unaligned 32-bit loads, char is signed.")
DESIGN_REF = "DESIGN.md section 4, C07"
PROPS_FILE = "Props/Properties_C07.v"
COQ_TARGETS = ["Props/Properties_C07.vo", "Extract/Extract_C07.vo"]
TRUSTED_BASE = ["Coq 8.16.1 kernel (coqc), vm_compute only", "Extraction with ExtrOcamlBasic, no Extract Constant; OCaml 4.13.1",
                "hand-written model coq/C07/Chksum.v of include/fix8/message.hpp:calc_chksum, tied by differential execution",
                "ocaml/prelude.ml + ocaml/c07_driver.ml (hex/number conversion), harness/h_c07.cpp, vlib (generators, comparison)",
                "g++ 12 -fsanitize=address,undefined: a read outside the exactly-sized heap block traps"]
ASSUMPTIONS = ["reads outside the malloc'ed block trap under ASan; reads inside the block but outside the property's window are "
               "not observable on the implementation and are covered by the model's read-hull theorem plus the correspondence",
               "little-endian unaligned uint32 loads behave as on x86-64 (formally UB: alignment check switched off)"]
RULE = ("buffers of size 0..3000 aimed at the loop boundaries (multiples of 8 +-1, 256k+-4, the 65-add flush period), bytes "
        "biased to >= 0x80 so that byte lanes carry; all (offset,len) windows for tiny buffers, random windows otherwise, "
        "plus the no-length form with and without offset. non-trivial = window length >= 8 and at least one byte >= 0x80; "
        "distinct = distinct case lines")


def build(tier):
    return {"impl": [B.harness("h_c07", runtime=[])]}


def mk(mem, sz, off, ln, cls):
    return Case("%s %d %d %d" % (bytes(mem).hex() or "-", sz, off, ln), cls)


def rand_bytes(rng, n):
    mode = rng.randrange(5)
    if mode == 0:
        return [0xff] * n
    if mode == 1:
        return [rng.randrange(0x80, 0x100) for _ in range(n)]
    if mode == 2:
        return [rng.choice((0x00, 0x7f, 0x80, 0xff, 0x01, 0xfe)) for _ in range(n)]
    if mode == 3:
        return [rng.randrange(0x20, 0x7f) for _ in range(n)]
    return [rng.randrange(256) for _ in range(n)]


def gen_cases(rng, tier):
    cs = []
    thorough = tier == "thorough"
    # tiny buffers: every window
    top = 24 if thorough else 11
    for n in range(0, top + 1):
        mem = rand_bytes(rng, n)
        for off in range(0, n + 1):
            for ln in range(0, n - off + 1):
                cs.append(mk(mem, n, off, ln, "tiny-window"))
        cs.append(mk(mem, n, 0, -1, "nolen-off0"))
        for off in range(1, min(n, 6) + 1):
            cs.append(mk(mem, n, off, -1, "nolen-offset"))
    # sizes around the loop boundaries
    sizes = set()
    for k in (1, 2, 3, 8, 16, 31, 32, 33, 63, 64, 65, 66, 96, 128, 129, 130):
        for d in (-1, 0, 1, 3, 4, 5, 7):
            sizes.add(max(0, 8 * k + d))
    for k in range(1, 12):
        for d in (-8, -4, -1, 0, 1, 4, 8, 12):
            sizes.add(max(0, 256 * k + d))
    sizes = sorted(sizes)
    reps = 6 if thorough else 1
    for _ in range(reps):
        for n in sizes:
            mem = rand_bytes(rng, n)
            cs.append(mk(mem, n, 0, n, "boundary-full"))
            off = rng.randrange(0, min(n, 9) + 1)
            cs.append(mk(mem, n, off, n - off, "boundary-offset"))
            cs.append(mk(mem, n, 0, -1, "nolen-off0"))
            if n:
                ln = rng.randrange(0, n + 1)
                off = rng.randrange(0, n - ln + 1)
                cs.append(mk(mem, n, off, ln, "random-window"))
            # the call pattern of Message::decode: whole message minus the 7 trailer bytes
            if n >= 7:
                cs.append(mk(mem, n, 0, n - 7, "decode-pattern"))
    for _ in range(3000 if thorough else 300):
        n = rng.randrange(0, 3001)
        mem = rand_bytes(rng, n)
        ln = rng.randrange(0, n + 1)
        off = rng.randrange(0, n - ln + 1)
        cs.append(mk(mem, n, off, ln, "random-window"))
    for _ in range(200 if thorough else 30):
        n = rng.randrange(1, 600)
        mem = rand_bytes(rng, n)
        cs.append(mk(mem, n, rng.randrange(1, n + 1), -1, "nolen-offset"))
    return cs


def postprocess(case, r):
    if r.startswith("CRASH") and "buffer-overflow" in r:
        return "OOB"
    return r


def nontrivial(case, r):
    hx, sz, off, ln = case.line.split()
    off, ln, sz = int(off), int(ln), int(sz)
    n = ln if ln != -1 else sz - off
    mem = bytes.fromhex(hx) if hx != "-" else b""
    return n >= 8 and any(b >= 0x80 for b in mem[off:off + n])


def c_nolen_offset(case, r, m):
    hx, sz, off, ln = case.line.split()
    return int(ln) == -1 and int(off) > 0


CLASSIFIERS = {"nolen-offset": c_nolen_offset}


def extra_search(rng, seeds, tier):
    out = gen_cases(rng, "thorough")[:4000]
    for c in seeds[:20]:
        hx, sz, off, ln = c.line.split()
        mem = list(bytes.fromhex(hx)) if hx != "-" else []
        for _ in range(20):
            m2 = rand_bytes(rng, len(mem))
            out.append(mk(m2, int(sz), int(off), int(ln), "neighbour"))
    return out


def shrink(case):
    hx, sz, off, ln = case.line.split()
    mem = list(bytes.fromhex(hx)) if hx != "-" else []
    sz, off, ln = int(sz), int(off), int(ln)
    out = []
    if ln > 0 and off + ln == len(mem):
        out.append(mk(mem[:-1], sz - 1, off, ln - 1, "shrink"))
    if ln == -1 and mem:
        out.append(mk(mem[:-1], sz - 1, min(off, sz - 1), -1, "shrink"))
    if off + max(ln, 0) < len(mem) and ln != -1:
        out.append(mk(mem[:off + ln], off + ln, off, ln, "shrink"))
    if off > 0:
        out.append(mk(mem[1:], sz - 1, off - 1, ln, "shrink"))
    return out
