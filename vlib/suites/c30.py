"""C30 — the inter-thread queue never loses, duplicates or reorders."""
import itertools
import re

from vlib import build as B
from vlib.core import Case

ID = "C30"
LEVEL = "proof"
TECHNIQUE = ("Coq proof (inductive invariant over the step relation of an executable interleaving model of "
             "uMPMC_Ptr_Queue::push/pop, one step per shared-memory action, any number of threads, any programs, any "
             "schedule, any power-of-two size) that a trace monitor stating the property never rejects; the model is tied "
             "to the real queue by running the unmodified fix8 source under a deterministic scheduler with a yield in "
             "front of every shared action and comparing complete action traces")
LEVEL_TEXT = ("Theorem c30_all_schedules: for every k >= 1, all programs, any number of threads and every schedule, the trace of "
              "the model queue with 2^k slots is accepted by the monitor c30_ok. Consequences proved on traces: "
              "c30_tickets_consecutive (tickets 0,1,2.. handed out once each on both sides), c30_ticket_order (the pop holding "
              "ticket j returns the payload reserved under push ticket j, after that push returned), c30_reservation_order and "
              "c30_program_order (per-producer order), c30_at_most_once (NoDup), c30_exactly_once (for any trace passing "
              "c30_final_ok the returned pops are a permutation of the push reservations), c30_empty_only_if (empty at ticket j "
              "only if j is the next pop ticket and push j has not returned), c30_no_loss (when no thread is between CAS and final "
              "store every reserved push has returned and a pop run alone returns ticket preadC's payload), "
              "c30_size_is_power_of_two, c30_exec (the compared experiment is an instance).  The same c30_ok / c30_final_ok are "
              "applied to the traces of the real code.")
LEVEL_NOTE = ("Trusted/modelled: sequential consistency instead of x86-TSO; atomicity of atomic_long_read/set and "
              "abstraction_cas; uSWSR_Ptr_Buffer as a FIFO list per slot (its one-pusher/one-popper precondition per slot is "
              "a proved invariant; the buffer itself is only compared with the list model sequentially); unsigned long "
              "does not wrap; isPowerOf2 modelled by its meaning.")
DESIGN_REF = "DESIGN.md section 4, C30; Appendix A.3"
PROPS_FILE = "Props/Properties_C30.v"
COQ_TARGETS = ["Props/Properties_C30.vo", "Extract/Extract_C30.vo"]
TRUSTED_BASE = ["Coq 8.16.1 kernel (coqc), vm_compute only", "Extraction with ExtrOcamlBasic, no Extract Constant; OCaml 4.13.1",
                "hand-written model coq/C30/Mpmc.v of include/fix8/ff/mpmc/MPMCqueues.hpp:uMPMC_Ptr_Queue::{init,push,pop}, "
                "tied by differential execution of complete shared-action traces under identical schedules",
                "harness/h_c30.cpp: function-like macros atomic_long_read/atomic_long_set/abstraction_cas/uSWSR_Ptr_Buffer "
                "defined before including MPMCqueues.hpp put the yield points in; coroutine (ucontext) scheduler; the free-running and backlog "
                "summaries (bitmap, per-producer order, checksum) are computed by C++ in the harness and judged by free_ok/backlog_ok",
                "ocaml/prelude.ml + ocaml/c30_driver.ml (token printing/parsing), vlib (generators, comparison)",
                "memory model: interleaving (SC) semantics; x86-TSO store buffering is not modelled",
                "uSWSR_Ptr_Buffer modelled as a FIFO list per slot (compared sequentially across its segment boundary, and under "
                "forced producer/consumer interleavings at its WMB()/memset yield points, by a count/order digest)"]
ASSUMPTIONS = ["sequentially consistent interleaving of the shared actions (x86-TSO not modelled); each primitive is atomic",
               "per-slot uSWSR_Ptr_Buffer behaves as a FIFO list when used by at most one pusher and one popper at a time "
               "(that discipline is proved; the buffer is tested sequentially and, with one producer and one consumer, under "
               "forced interleavings at its publication points (WMB) and inside the memset of reset() for segments > 512 "
               "entries; interleavings between other plain loads/stores of the lane buffer, e.g. inside the <= 512 clean-up "
               "loop, are not forced)",
               "tickets stay below 2^64 (no unsigned long wrap); queue size is the power of two computed by init",
               "payload pointers are non-null"]
RULE = ("random schedules (uniform, bursty, one thread stalled after its CAS, consumer-first) of 2 producers x 3 pushes + 2 "
        "consumers x 3 pops and of other thread mixes (3+1, 1+3, threads that both push and pop) on raw queues of requested "
        "size 0..9 (normalised to 2,4,8,16) with slot segment sizes 2,3,4,2048 and through both ff_unbounded_queue "
        "specialisations; sizes 2 and 4 make tickets wrap around the slot array; sequential uSWSR_Ptr_Buffer runs across its "
        "segment boundary; backlog cases push N elements before the first pop for N around slots x segment size (small "
        "geometries under the scheduler with full traces; the compiled default geometry, read from the harness, as a "
        "count/order digest with 1 and 2 producer threads); lane hand-over cases drive ONE lane buffer (uSWSR_Ptr_Buffer + "
        "BufferPool + dynqueue), and the whole queue, with a producer and a consumer coroutine and yield points inside the "
        "lane buffer itself (every WMB() = in front of each publishing store of segment push / segment-cache push / in-use "
        "list push, and the memset of reset() for segments > 512 entries): directed schedules park the consumer inside "
        "release()/reset() of a drained segment while the producer crosses its segment boundary (cache empty and non-empty, "
        "producer at boundary -1/0/+1, producer parked in a fresh segment's clean-up), plus random command sequences; "
        "segment sizes 2..8, 513, 640 and the compiled default; judged by a count/order digest; thorough adds every schedule prefix of fixed length for tiny configurations (for 1 push || 2 pops the 2^17 "
        "prefixes are ALL interleavings, a complete run having at most 17 actions; the other enumerations are prefixes "
        "followed by round-robin) and a free-running 16-thread stress. non-trivial = the trace contains a failed CAS, a retry, an empty pop or a ticket >= the number "
        "of slots; distinct = distinct case lines")


# free-running cases are not reproducible step by step: the tag makes their lines long so that the
# framework prefers a deterministic case as the reported failing input
FREE_TAG = "free-running-real-threads-(schedule-chosen-by-the-OS,-summary-only)"
GEOM = {"nq": 4, "seg": 2048}      # replaced in build() by what the compiled queue reports


def build(tier):
    exe = B.harness("h_c30", runtime=[], extra_link=["-lpthread"])
    # the default geometry (DEFAULT_NUM_QUEUES x DEFAULT_uSPSC_SIZE) as compiled from the tree under test
    try:
        import subprocess
        out = subprocess.run([exe], input=b"k\n", stdout=subprocess.PIPE, stderr=subprocess.PIPE, timeout=60).stdout.decode()
        m = re.match(r"CONST nq=(\d+) seg=(\d+)", out)
        if m:
            GEOM["nq"], GEOM["seg"] = int(m.group(1)), int(m.group(2))
    except Exception:
        pass
    return {"impl": [exe], "per_case_timeout": 200, "batch_timeout": 1500}


# ---------------------------------------------------------------------------------- generators

def progs_str(progs):
    return "/".join(",".join(("p%d" % o) if o else "c" for o in p) if p else "-" for p in progs)


def mk_progs(shape):
    """shape: list of strings over 'p','c' per thread; payloads are unique and non-zero."""
    progs = []
    for t, ops in enumerate(shape):
        k = 0
        pr = []
        for o in ops:
            if o == "p":
                k += 1
                pr.append((t + 1) * 100 + k)
            else:
                pr.append(0)
        progs.append(pr)
    return progs


def rand_sched(rng, nthreads, length, mode):
    ids = "0123456789abcdef"[:nthreads]
    s = []
    if mode == "uniform":
        s = [rng.choice(ids) for _ in range(length)]
    elif mode == "bursty":
        while len(s) < length:
            s += [rng.choice(ids)] * rng.randrange(1, 7)
    elif mode == "stall":
        # one thread gets exactly k actions and is then kept off the cpu
        victim = rng.choice(ids)
        k = rng.randrange(1, 6)
        others = [c for c in ids if c != victim] or [victim]
        pre = [victim] * k
        rest = [rng.choice(others) for _ in range(length)]
        pos = sorted(rng.randrange(0, 8) for _ in range(k))
        s = rest[:]
        for j, p in enumerate(pos):
            s.insert(min(p + j, len(s)), victim)
        # late in the schedule the victim is released now and then
        s += [rng.choice(ids) for _ in range(length // 2)]
    elif mode == "weighted":
        w = [rng.choice((1, 1, 2, 5)) for _ in ids]
        s = rng.choices(ids, weights=w, k=length)
    else:  # pairs racing in lock step
        while len(s) < length:
            a, b = rng.choice(ids), rng.choice(ids)
            s += [a, b] * rng.randrange(1, 6)
    return "".join(s[:max(length, 1)]) or "-"


MODES = ("uniform", "bursty", "stall", "weighted", "lockstep")


def sched_case(rng, shape, nq, slot, kind, cls, length=None, mode=None):
    progs = mk_progs(shape)
    nthreads = len(shape)
    nops = sum(len(s) for s in shape)
    length = length if length is not None else rng.randrange(0, 7 * nops + 1)
    mode = mode or rng.choice(MODES)
    sched = rand_sched(rng, nthreads, length, mode) if length else "-"
    if kind == "q":
        return Case("q %d %d %s %s" % (nq, slot, progs_str(progs), sched), cls)
    return Case("%s %s %s" % (kind, progs_str(progs), sched), cls)


def slot_case(rng, size, length, cls):
    ops = []
    bal = 0
    mode = rng.randrange(3)
    for _ in range(length):
        if mode == 0:
            c = rng.choice("pc")
        elif mode == 1:
            c = "p" if rng.random() < 0.7 else "c"
        else:
            c = "c" if (bal > 0 and rng.random() < 0.6) else "p"
        bal += 1 if c == "p" else (-1 if bal > 0 else 0)
        ops.append(c)
    return Case("s %d %s" % (size, "".join(ops) or "-"), cls)


def lane_directed(S, lanes=1):
    """command strings that park one side inside the segment hand-over; S = segment size, per lane"""
    m = lanes
    out = []
    # consumer parked inside release()/reset() of the first drained segment, producer crosses its boundary
    out.append((2 * S * m + 6, "po%d,co%d,cm,po%d,pf,cf" % (2 * S * m, S * m, m + 2)))
    # ... parked in front of each publishing store of the hand-over pop instead
    for k in (1, 2, 3):
        out.append((2 * S * m + 6, "po%d,co%d,%spo%d,pf,cf" % (2 * S * m, S * m, "cw," * k, m + 2)))
    # producer parked inside the clean-up of a fresh segment / in front of its publication while the consumer drains
    out.append((2 * S * m + 6, "po%d,pm,co%d,pw,co%d,pf,cf" % (S * m, S * m - 1, 2)))
    out.append((2 * S * m + 6, "po%d,pw,pw,co%d,pf,cf" % (S * m, S * m)))
    # segment cache not empty when the next segment is released
    out.append((4 * S * m + 6, "po%d,co%d,po%d,co%d,cm,po%d,pf,cf" % (3 * S * m, 2 * S * m + m, S * m, S * m - m, S * m + m + 2)))
    # hand-over while the producer is exactly at / one before / one after its boundary
    for d in (-1, 0, 1):
        out.append((2 * S * m + 6, "po%d,co%d,cm,po%d,cw,po2,pf,cf" % (2 * S * m + d, S * m, 1)))
    return out


def lane_random(rng, S):
    n = rng.randrange(S + 1, 4 * S + 4)
    cmds = []
    for _ in range(rng.randrange(3, 14)):
        who = rng.choice("pc")
        kind = rng.randrange(6)
        if kind == 0:
            cmds.append("%s%d" % (who, rng.randrange(1, 8)))
        elif kind == 1:
            cmds.append("%so%d" % (who, rng.choice((1, 2, S - 1, S, S + 1, rng.randrange(1, 2 * S + 2)))))
        elif kind == 2:
            cmds.append(who + "m")
        elif kind == 3:
            cmds.append(who + "w")
        elif kind == 4:
            cmds.append("%so%d,%sw,%s%d" % (who, max(1, S - 1), who, who, rng.randrange(1, 4)))
        else:
            cmds.append("po%d,co%d,cm" % (rng.randrange(S, 2 * S + 2), rng.randrange(1, S + 1)))
    return n, ",".join(cmds)


def lane_cases(rng, thorough):
    cs = []
    seg, nq = GEOM["seg"], GEOM["nq"]
    # one lane buffer alone; reset() uses memset (a yield point) only for segments > 512 entries
    for S in sorted(set((513, 640, seg))):
        for n, cmds in lane_directed(S):
            cs.append(Case("l %d %d %s" % (S, n, cmds), "lane-handover"))
    for S in (2, 3, 5):
        for n, cmds in lane_directed(S):
            cs.append(Case("l %d %d %s" % (S, n, cmds), "lane-handover-small"))
    for _ in range(1500 if thorough else 150):
        S = rng.choice((2, 3, 4, 5, 8, 513, 514))
        n, cmds = lane_random(rng, S)
        cs.append(Case("l %d %d %s" % (S, n, cmds), "lane-random"))
    # the same through the whole queue: raw with small geometry, and the default geometry through the wrapper
    for q, S in ((2, 513), (4, 520)):
        for n, cmds in lane_directed(S, q):
            cs.append(Case("L q %d %d %d %s" % (q, S, n, cmds), "lane-handover-queue"))
    for n, cmds in lane_directed(seg, nq)[:5 if not thorough else None]:
        cs.append(Case("L w %d %d %d %s" % (nq, seg, n, cmds), "lane-handover-queue"))
    for _ in range(300 if thorough else 30):
        S = rng.choice((2, 3, 513))
        q = rng.choice((2, 4))
        n, cmds = lane_random(rng, S * q)
        cs.append(Case("L q %d %d %d %s" % (q, S, n, cmds), "lane-random-queue"))
    return cs


def gen_cases(rng, tier):
    thorough = tier == "thorough"
    cs = []
    main = ["ppp", "ppp", "ccc", "ccc"]
    n_main = 6000 if thorough else 1100
    for _ in range(n_main):
        nq = rng.choice((2, 2, 4, 4, 4, 8))
        cs.append(sched_case(rng, main, nq, rng.choice((2, 3, 4, 2048)), "q", "2p3+2c3"))
    shapes = [(["pp", "pp", "pp", "ccccccc"], "3p+1c"), (["pppp", "cc", "cc", "cc"], "1p+3c"),
              (["pcpc", "cpcp", "ppcc"], "mixed"), (["ppppp", "ccccc"], "1p+1c-wrap"),
              (["pp", "pp", "cc", "cc", "pc", "cp"], "6-threads"), (["p", "c"], "tiny"), (["pp", "c", "c"], "1p+2c")]
    for _ in range(2600 if thorough else 520):
        shape, cls = rng.choice(shapes)
        nq = rng.choice((0, 1, 2, 2, 3, 4, 4, 5, 7, 8, 9))
        cs.append(sched_case(rng, shape, nq, rng.choice((2, 3, 4, 2048)), "q", cls))
    for _ in range(900 if thorough else 180):
        shape, cls = rng.choice(shapes + [(main, "2p3+2c3")])
        cs.append(sched_case(rng, shape, 4, 2048, rng.choice("wv"), "wrapper-" + cls))
    # many elements through a 2-slot queue with tiny segments: tickets wrap, slot buffers change segment
    for _ in range(60 if thorough else 12):
        cs.append(sched_case(rng, ["pppppppp", "pppppppp", "cccccccccc", "cccccccccc"], 2, 2, "q", "long-wrap",
                             length=rng.randrange(100, 400)))
    # backlog: everything is pushed before anything is popped, around the capacity (slots x segment) of the
    # first segments.  Small geometries through the scheduler (full traces), the default geometry as a digest.
    for nq, seg in ((2, 2), (2, 3), (4, 2)):
        cap = nq * seg
        for n in (cap - 1, cap, cap + 1, 3 * cap + 1):
            prog = ["p" * n, "c" * n]
            cs.append(Case("q %d %d %s %s" % (nq, seg, progs_str(mk_progs(prog)), "0" * (5 * n)), "backlog-small"))
            half = ["p" * (n - n // 2), "p" * (n // 2), "c" * n]
            cs.append(Case("q %d %d %s %s" % (nq, seg, progs_str(mk_progs(half)), "01" * (5 * n)), "backlog-small"))
    cap = GEOM["nq"] * GEOM["seg"]
    for n in (cap - 1, cap, cap + 1, 2 * cap + 3 * GEOM["seg"] + 5):
        cs.append(Case("b w %d %d 1 %d" % (GEOM["nq"], GEOM["seg"], n), "backlog-default"))
        cs.append(Case("b w %d %d 2 %d" % (GEOM["nq"], GEOM["seg"], n), "backlog-default"))
    cs.append(Case("b q 2 16 1 %d" % (2 * 16 + 1), "backlog-default"))
    cs.append(Case("b q 8 64 3 %d" % (8 * 64 * 2 + 7), "backlog-default"))
    # the lane buffer's segment hand-over under forced interleavings (yield points inside the lane buffer)
    cs += lane_cases(rng, thorough)
    # the slot buffer alone
    for _ in range(400 if thorough else 80):
        cs.append(slot_case(rng, rng.choice((2, 3, 4, 5, 8)), rng.randrange(0, 80), "slot-small"))
    cs.append(Case("s 2048 " + "p" * 2049 + "c" * 2050 + "p" * 5 + "c" * 6, "slot-2048"))
    if thorough:
        cs.append(Case("s 2048 " + "p" * 4100 + "c" * 4101, "slot-2048"))
        cs.append(Case("s 2048 " + ("p" * 700 + "c" * 650) * 5 + "c" * 300, "slot-2048"))
        # every schedule prefix of a fixed length, then round-robin
        for L, shape, nq in ((17, ["p", "cc"], 2), (14, ["pp", "c"], 2), (13, ["p", "p"], 2), (13, ["pc", "cp"], 2)):
            pr = progs_str(mk_progs(shape))
            for bits in itertools.product("01", repeat=L):
                cs.append(Case("q %d 2 %s %s" % (nq, pr, "".join(bits)), "all-prefixes-2thr"))
        for L, shape, nq in ((10, ["p", "p", "c"], 2), (10, ["p", "c", "c"], 2)):
            pr = progs_str(mk_progs(shape))
            for bits in itertools.product("012", repeat=L):
                cs.append(Case("q %d 2 %s %s" % (nq, pr, "".join(bits)), "all-prefixes-3thr"))
        cs.append(Case("f 8 8 100000 4 " + FREE_TAG, "free-run"))
        cs.append(Case("f 8 8 100000 2 " + FREE_TAG, "free-run"))
        cs.append(Case("f 15 1 20000 4 " + FREE_TAG, "free-run"))
        cs.append(Case("f 1 15 100000 8 " + FREE_TAG, "free-run"))
        cs.append(Case("f 4 4 5000 4 stall=9000 " + FREE_TAG, "free-run-stalled-producer"))
        cs.append(Case("f 6 2 3000 2 stall=9000 " + FREE_TAG, "free-run-stalled-producer"))
    else:
        cs.append(Case("f 4 4 5000 4 " + FREE_TAG, "free-run"))
        cs.append(Case("f 2 2 5000 2 " + FREE_TAG, "free-run"))
        # one producer descheduled for seconds between its ticket and the release of its lane: the others
        # wait behind it for as long as it takes (the model's push has no failing outcome), nothing is lost
        cs.append(Case("f 4 4 5000 4 stall=5000 " + FREE_TAG, "free-run-stalled-producer"))
    return cs


def EXHAUSTIVE(tier):
    return False


TOK = re.compile(r"\d+([a-zA-Z+\-])(\d+)")


def nontrivial(case, r):
    w = case.line.split()
    if w[0] == "s":
        return "e" in r and len(w[2]) > int(w[1])
    if w[0] == "f":
        return r.startswith("FREE")
    if w[0] == "b":
        return r.startswith("BACKLOG") and int(w[5]) > int(w[2]) * int(w[3])
    if w[0] == "l":
        return r.startswith("BACKLOG") and int(w[2]) > int(w[1])
    if w[0] == "L":
        return r.startswith("BACKLOG") and int(w[4]) > int(w[2]) * int(w[3])
    if w[0] == "q":
        nq = max(2, int(w[1]))
    else:
        nq = 4
    if ":0" in r or re.search(r"\de\d", r):
        return True
    for m in re.finditer(r"\d+P(\d+)=", r):
        if int(m.group(1)) >= nq:
            return True
    return False


CLASSIFIERS = {}


def extra_search(rng, seeds, tier):
    out = []
    main = ["ppp", "ppp", "ccc", "ccc"]
    for _ in range(2500):
        out.append(sched_case(rng, main, rng.choice((2, 4)), rng.choice((2, 4, 2048)), "q", "extra"))
    for _ in range(500):
        out.append(sched_case(rng, ["pp", "c", "c"], 2, 2, "q", "extra"))
        out.append(sched_case(rng, ["ppp", "ccc"], 2, 2, "q", "extra"))
    for _ in range(300):
        out.append(slot_case(rng, rng.choice((2, 3, 4)), rng.randrange(0, 60), "extra"))
    return out


def shrink(case):
    w = case.line.split()
    out = []
    if w[0] in ("q", "w", "v"):
        sched = w[-1]
        if sched != "-":
            out.append(Case(" ".join(w[:-1] + [sched[:-1] or "-"]), "shrink"))
            out.append(Case(" ".join(w[:-1] + [sched[:len(sched) // 2] or "-"]), "shrink"))
        progs = w[-2].split("/")
        for i, p in enumerate(progs):
            ops = p.split(",") if p != "-" else []
            if ops:
                q = progs[:]
                q[i] = ",".join(ops[:-1]) or "-"
                out.append(Case(" ".join(w[:-2] + ["/".join(q), sched]), "shrink"))
    elif w[0] == "s" and w[2] != "-":
        out.append(Case("s %s %s" % (w[1], w[2][:-1] or "-"), "shrink"))
    return out
