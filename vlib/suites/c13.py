"""C13 — schema compiler output implements the schema."""
import os

from vlib import build as B
from vlib.core import Case
from vlib.suites import c13_lib as L

ID = "C13"
LEVEL = "translation_validation"
TECHNIQUE = ("translation validation: every schema of a generated family is compiled by the freshly built (sanitized) f8c, its "
             "output is compiled with g++, and the tables read back from the running generated code are compared, field by field, "
             "with the specification meta_of_schema (Coq, extracted) evaluated on the same schema; probe messages are round-tripped "
             "through the generated codec.  Coq theorems: the specified metadata of every valid schema is well-formed "
             "(c13_meta_wf) and the model of f8c coincides with the specification under two decidable premises")
LEVEL_TEXT = ("Per schema and per run: tables (version, BeginString, field table with class and realm, message table with admin "
              "flags, component names) and the complete trait tree of every message table entry equal the specification; probes "
              "behave as the generic codec must on the specified metadata.  c13_meta_wf: wf_schema s -> the specified metadata is "
              "sorted, duplicate-free, positions unique, groups well-formed, realms sorted.")
LEVEL_NOTE = ("f8c's C++ text generation is not modelled; it is validated per schema.  Trusted: Coq kernel, extraction, the "
              "specification coq/C13/Schema.v itself (read it: it is the definition of 'matches the schema'), the XML reader in "
              "vlib/suites/c13_lib.py that turns the XML into the schema term, harness/h_c13.cpp (dump through the runtime's own "
              "structures), ocaml/c13_driver.ml (parsers/printers).")
DESIGN_REF = "DESIGN.md section 4, C13; findings F18 and (new) nested-component, TZ types, PATTERN/TENOR"
PROPS_FILE = "Props/Properties_C13.v"
COQ_TARGETS = ["Props/Properties_C13.vo", "Extract/Extract_C13.vo"]
TRUSTED_BASE = ["Coq 8.16.1 kernel (coqc), vm_compute only",
                "Extraction with ExtrOcamlBasic, no Extract Constant; OCaml 4.13.1",
                "coq/C13/Schema.v: the specification of f8c's tables (meta_of_schema) and the uniform component rule; "
                "coq/C14/GroupHash.v + quirk flag: the model of what the pinned f8c really emits, tied by differential execution",
                "coq/C13/Probe.v: metadata-dependent behaviour of the generic codec on a probe",
                "ocaml/prelude.ml + ocaml/c13_driver.ml, harness/h_c13.cpp, vlib/suites/c13_lib.py (XML reader/writer, generators, builds)",
                "g++ 12 -fsanitize=address,undefined for f8c (minus nonnull-attribute) and for the generated code"]
ASSUMPTIONS = ["schemas are plain XML both f8c's reader and Python's ElementTree read alike (XML reading is property C32)",
               "a `required='Y'` attribute counts only if every enclosing component reference is required (uniform rule); "
               "float-typed enumerations are outside the specification",
               "the `present` trait bit is run-time state and is masked in dumps",
               "probes avoid values other properties already know to be mishandled (negative int text)"]
RULE = ("schemas: stock FIX42UTEST and FIX44 (+ FIX43, FIX42, FIX41, FIX40 in thorough); a structured schema with every supported "
        "field type, enumerations of every family, groups nested to depth 4, a group reused by several messages, count fields with a once-used and a reused "
        "definition in both hash orders, plain / nested / "
        "group-holding components; a schema with a required component nested in an optional one; a schema using PATTERN/TENOR; "
        "a FIXT-mode pair (f8c -x); random schemas from the rng; attribute values are written in every spelling f8c accepts (msgcat admin/Admin/ADMIN, component required Y/y/yes/true/1, ...).  Per schema one tables case and one case per message table entry (trait tree + probes: "
        "full, minimal, every group once, random subsets, mandatory field removed). non-trivial = tables case, or message case "
        "with >= 3 probes; distinct = distinct case lines")


def build(tier):
    L.f8c_asan()
    B.runtime_objs("asan")
    return {"impl": []}


def gen_special(rng):
    """Small schemas aimed at one construct each."""
    out = []
    # required component inside an optional one, directly in a message and inside a group
    b = L.SB(rng, "4", "4")
    b.message("Heartbeat", "0", [("f", "TestReqID", False)], admin=True)
    inner = [("f", b.field("STRING", "InA"), True), ("f", b.field("INT", "InB"), False)]
    mid = [("f", b.field("STRING", "MidA"), True), ("c", "Inner", True)]
    outer = [("f", b.field("PRICE", "OutA"), True), ("c", "Mid", True)]
    b.s["comps"] = [("Outer", outer), ("Mid", mid), ("Inner", inner)]
    b.message("OptOuter", "OO", [("f", b.field("STRING"), True), ("c", "Outer", False)])
    b.message("ReqOuter", "RO", [("c", "Outer", True), ("f", b.field("STRING"), False)])
    g = b.field("NUMINGROUP", "NoNest")
    b.message("InGroup", "IG", [("g", g, True, [("f", b.field("STRING"), True), ("c", "Mid", False)])])
    out.append(("gen", b.finish(), "nested-comp"))
    # the two type names f8c accepts but field.hpp does not define
    b = L.SB(rng, "4", "4")
    b.message("Heartbeat", "0", [("f", "TestReqID", False)], admin=True)
    ty = rng.choice(["PATTERN", "TENOR"])
    b.message("Odd", "OD", [("f", b.field("STRING"), True), ("f", b.field(ty, "OddField"), False)])
    out.append(("gen", b.finish(), "undefined-class"))
    return out


def schemas(rng, tier):
    out = [("repo:schema/FIX42UTEST.xml", L.read_xml(os.path.join(B.REPO, "schema/FIX42UTEST.xml")), "stock"),
           # FIX44: a count field (e.g. NoPartyIDs, NoLegs) has once-used and reused definitions there
           ("repo:schema/FIX44.xml", L.read_xml(os.path.join(B.REPO, "schema/FIX44.xml")), "stock")]
    out.append(("gen", L.gen_alltypes(rng), "alltypes"))
    out += gen_special(rng)
    for _ in range(12 if tier == "thorough" else 1):
        out.append(("gen", L.gen_random(rng, 1.0), "random"))
    out.append(("genx", L.gen_fixt(rng), "fixt"))
    if tier == "thorough":
        for _ in range(3):
            out.append(("gen", L.gen_alltypes(rng), "alltypes"))
        for _ in range(3):
            out.append(("gen", L.gen_random(rng, 2.5), "random-large"))
        for rel in ("schema/FIX43.xml", "schema/FIX42.xml", "schema/FIX41.xml", "schema/FIX40.xml"):
            out.append(("repo:" + rel, L.read_xml(os.path.join(B.REPO, rel)), "stock"))
    return out


_schemas = []


def gen_cases(rng, tier):
    cases = []
    del _schemas[:]
    for src, s, cls in schemas(rng, tier):
        cs = L.make_cases(s, src, rng, kinds=("T", "M"), cls=cls)
        cases += cs
        _schemas.append((cls, src, cs[0].line, len(s["msgs"]), len(s["fields"])))
    return cases


run_impl = L.run_impl


def nontrivial(case, r):
    toks = case.line.split(L.SEP)[0].split(" ")
    if not (r.startswith("N ") or r.startswith("V ")):
        return False
    return toks[0] == "T" or (toks[0] == "M" and int(toks[3]) >= 3)


def c_clash(case, r, m):
    mt = L.case_mtype(case.line)
    return mt is not None and L.query(ID, "clash " + mt, case.line)


def c_quirk(case, r, m):
    mt = L.case_mtype(case.line)
    return mt is not None and L.query(ID, "quirk " + mt, case.line)


def c_tz(case, r, m):
    mt = L.case_mtype(case.line)
    return mt is not None and L.query(ID, "tz " + mt, case.line)


def c_noclass(case, r, m):
    return r == "COMPILE-FAIL" and L.query(ID, "noclass", case.line)   # exactly the token of the listed kind


CLASSIFIERS = {"hash-clash": c_clash, "nested-required-component": c_quirk, "tz-class": c_tz,
               "undefined-class": c_noclass}


def extra_search(rng, seeds, tier):
    out = []
    for c in seeds[:10]:
        parts = L.split_case(c.line)
        mt = L.case_mtype(c.line)
        if parts is None or mt is None:
            continue
        s = L.parse_term(parts[2])
        full = L.make_cases(s, parts[1], rng, kinds=("M",), nrand=6, nneg=8, cls="search")
        out += [x for x in full if L.case_mtype(x.line) == mt]
    return out


def extra_evidence(ctx):
    cases, impl, model = ctx["cases"], ctx["impl"], ctx["model"]
    progs = set(tuple(c.line.split(L.SEP)[1:]) for c in cases if L.SEP in c.line)
    fails = sum(1 for (m, oi, om) in model if not oi)
    fam = [{"class": cls, "src": src, "messages": nm, "fields": nf, "wf_schema": L.query(ID, "wf", line),
            "defs_injective": L.query(ID, "inj", line)} for cls, src, line, nm, nf in _schemas]
    return {"programs": len(progs), "disagreements_checked": fails,
            "explanation": "programs = schemas compiled by the fresh f8c and g++ in this run; disagreements_checked = cases in "
                           "which the generated code's metadata or probe outcomes differ from the specification (each one "
                           "reproduced by the model of the pinned f8c and matched against a listed finding, or reported)",
            "family": fam}
