"""Shared pieces of the session suites (C16..C23, C25): building the session harness and the
metadata dump, FIX message construction for inbound traffic, msgspec construction for outbound
traffic, and a generator of mostly-valid session histories (see coq/Sess/READY.md for the
history/trace syntax).  All randomness comes from the rng passed in."""
import os
import subprocess

from vlib import build as B

T0 = 1790035200 * 10**9          # VCLOCK_T0: 2026-09-22 00:00:00 UTC in ns
SOH = "\x01"


def build_sess():
    """Harness binary + metadata dump (regenerated from the freshly compiled schema classes)."""
    exe = B.harness("h_sess", runtime=None, schema="utest2c", extra_srcs=["vclock.cpp"])
    meta = exe + ".meta"
    if not os.path.exists(meta):
        env = dict(os.environ, ASAN_OPTIONS="detect_leaks=0")
        out = subprocess.run([exe, "--meta"], stdout=subprocess.PIPE, stderr=subprocess.PIPE, env=env, timeout=120)
        if out.returncode != 0 or not out.stdout:
            raise B.BuildError("h_sess --meta failed: " + out.stderr.decode(errors="replace")[-2000:])
        tmp = meta + ".tmp%d" % os.getpid()
        open(tmp, "wb").write(out.stdout)
        os.rename(tmp, meta)
    return {"impl": [exe], "driver_args": [meta], "per_case_timeout": 30}


def ts(ns):
    """date_time_format(_with_ms) of a time in ns since the epoch (UTC)."""
    import datetime
    s, ms = divmod(ns // 10**6, 1000)
    d = datetime.datetime(1970, 1, 1) + datetime.timedelta(seconds=s)
    return d.strftime("%Y%m%d-%H:%M:%S") + ".%03d" % ms


def hx(s):
    if isinstance(s, str):
        s = s.encode("latin-1")
    return s.hex() if s else "-"


def fixmsg(mtype, seq, sender, target, body=(), t=None, extra_hdr=(), now=T0, begin="FIX.4.2", bad_chk=False):
    """A well-formed inbound message (bytes): 35, 49, 56, 34, extra header fields, 52, body."""
    b = "35=%s\x0149=%s\x0156=%s\x0134=%s\x01" % (mtype, sender, target, seq)
    for k, v in extra_hdr:
        b += "%s=%s\x01" % (k, v)
    b += "52=%s\x01" % (t if t is not None else ts(now))
    for k, v in body:
        b += "%s=%s\x01" % (k, v)
    h = "8=%s\x019=%d\x01" % (begin, len(b))
    s = sum((h + b).encode("latin-1")) % 256
    if bad_chk:
        s = (s + 1) % 256
    return (h + b + "10=%03d\x01" % s).encode("latin-1")


def spec(mtype, body=(), hdr=(), custom=0, noinc=False):
    """msgspec of SEND/BATCH."""
    s = mtype
    if hdr:
        s += "/H" + ",".join("%s=%s" % (k, hx(str(v))) for k, v in hdr)
    if body:
        s += "/B" + ",".join("%s=%s" % (k, hx(str(v))) for k, v in body)
    if custom:
        s += "/c%d" % custom
    if noinc:
        s += "/n"
    return s


FLOATS = ["0.0", "100.0", "10.5", "100.25", "0.1", "7.0"]
SYMS = ["IBM", "MSFT", "X", "BHP.AX", "A B"]


def word(rng, lo=1, hi=8):
    return "".join(rng.choice("ABCDEFGHXYZabcxyz0123456789-_.") for _ in range(rng.randint(lo, hi)))


def app_fields(rng, mtype, now, complete=True):
    """Body fields of an application message (canonical values: they print back unchanged)."""
    if mtype == "D":
        f = [(11, word(rng)), (21, rng.choice("123")), (55, rng.choice(SYMS)), (54, rng.choice("12")),
             (60, ts(now)), (40, rng.choice("12"))]
        if rng.random() < 0.5:
            f.append((38, rng.choice(FLOATS)))
        if rng.random() < 0.3:
            f.append((44, rng.choice(FLOATS)))
        if rng.random() < 0.3:
            f.append((58, word(rng, 1, 20)))
        if rng.random() < 0.2:
            f.append((1, word(rng)))
    elif mtype == "F":
        f = [(41, word(rng)), (11, word(rng)), (55, rng.choice(SYMS)), (54, rng.choice("12")), (60, ts(now)),
             (9999, word(rng)), (9991, word(rng))]
        if rng.random() < 0.3:
            f.append((38, rng.choice(FLOATS)))
    elif mtype == "8":
        f = [(37, word(rng)), (17, word(rng)), (20, "0"), (150, rng.choice("012")), (39, rng.choice("012")),
             (55, rng.choice(SYMS)), (54, rng.choice("12")), (151, rng.choice(FLOATS)), (14, rng.choice(FLOATS)),
             (6, rng.choice(FLOATS))]
        if rng.random() < 0.3:
            f.append((11, word(rng)))
    elif mtype == "j":
        f = [(372, rng.choice(["D", "8", "F"])), (380, str(rng.randint(0, 5)))]
        if rng.random() < 0.5:
            f.append((58, word(rng, 1, 20)))
        if rng.random() < 0.5:
            f.append((45, str(rng.randint(1, 50))))
    elif mtype in TWOCHAR_TYPES:
        f = [(11, word(rng))]
        if rng.random() < 0.4:
            f.append((58, word(rng, 1, 20)))
    else:
        f = []
    if not complete and f:
        del f[rng.randrange(len(f))]
    return f


# application messages with two-character MsgTypes whose first character is an admin type or a letter (schema
# "utest2c", derived from FIX42UTEST.xml on every run): Session::process must send them to the application
TWOCHAR_TYPES = list(getattr(B, "UTEST2C_MESSAGES", ["A0", "AD", "0X", "1Z", "2B", "3C", "4D", "5E", "DD", "ZZ"]))
if TWOCHAR_TYPES and not isinstance(TWOCHAR_TYPES[0], str):
    TWOCHAR_TYPES = [t[1] for t in TWOCHAR_TYPES]
APP_TYPES = ["D", "D", "D", "F", "8", "j"] + TWOCHAR_TYPES[:]
IN_APP_TYPES = ["D", "D", "F", "8", "j"] + TWOCHAR_TYPES[:]


class Hist:
    """Builder of one history; tracks roughly what a conformant counterparty would do."""

    def __init__(self, rng, role, persist, **kw):
        self.rng = rng
        self.role = role
        self.persist = persist
        self.me, self.peer = ("CLI", "SRV") if role == "I" else ("SRV", "CLI")
        if kw.get("sid"):
            self.me, self.peer = kw["sid"]
        self.now = kw.get("t", T0)
        self.hb = kw.get("hb", 30)
        self.next_in = 1            # the counterparty's next outbound number
        self.sent = 1               # rough count of our outbound numbers
        self.ops = []
        self.allow_y = kw.get("allow_y", True)     # may generated Logons carry ResetSeqNumFlag=Y?
        p = ["START", role, persist]
        if kw.get("sid"):
            p.append("sid=%s:%s" % kw["sid"])
        for k in ("asa", "ec", "sd", "rsn", "hb", "ss", "rs", "t", "pm"):
            if k in kw and kw[k] is not None:
                p.append("%s=%s" % (k, kw[k]))
        if kw.get("clients"):
            p.append("clients=" + ",".join(kw["clients"]))
        self.ops.append(" ".join(p))
        self.rs = kw.get("rs") or 0

    def line(self):
        return "|".join(self.ops)

    # ---- inbound
    def inb(self, mtype, body=(), seq=None, bump=True, **kw):
        s = self.next_in if seq is None else seq
        self.ops.append("IN " + fixmsg(mtype, s, self.peer, self.me, body, now=self.now, **kw).hex())
        if bump and seq is None:
            self.next_in += 1

    def logon_in(self, hb=None, reset=False):
        """reset: False/None = no ResetSeqNumFlag, True/"Y" = 141=Y (the counterparty restarts at 1), "N" = an
        explicit 141=N (not a reset: the VALUE of the flag counts)."""
        body = [(98, 0), (108, self.hb if hb is None else hb)]
        if reset in (True, "Y"):
            body.append((141, "Y"))
            self.next_in = 1
        elif reset == "N":
            body.append((141, "N"))
        self.inb("A", body)

    def logon_flag(self):
        """ResetSeqNumFlag of a generated Logon: mostly absent, sometimes an explicit N, for acceptors sometimes Y."""
        r = self.rng.random()
        if r < 0.18:
            return "N"
        if r < 0.26 and self.role == "A" and self.allow_y:
            return "Y"
        return False

    # ---- outbound
    def send(self, sp):
        self.ops.append("SEND " + sp)
        self.sent += 1

    def batch(self, sps):
        self.ops.append("BATCH " + ";".join(sps))
        self.sent += len(sps)

    def tick(self, dt_ns):
        self.now += dt_ns
        self.ops.append("TICK %d" % self.now)

    def clock(self, dt_ns):
        self.now += dt_ns
        self.ops.append("CLOCK %d" % self.now)

    def restart(self):
        self.ops.append("RESTART")
        if self.persist != "file":
            self.next_in = 1
            self.sent = 1

    def app_spec(self, complete=True, **kw):
        t = self.rng.choice(APP_TYPES)
        return spec(t, app_fields(self.rng, t, self.now, complete), **kw)

    def admin_spec(self):
        rng = self.rng
        k = rng.randrange(7)
        if k == 0:
            return spec("0")
        if k == 1:
            return spec("0", [(112, word(rng))])
        if k == 2:
            return spec("1", [(112, word(rng))])
        if k == 3:
            return spec("3", [(45, rng.randint(1, 20))] + ([(58, word(rng, 1, 12))] if rng.random() < 0.5 else []))
        if k == 4:
            return spec("2", [(7, rng.randint(1, 9)), (16, rng.choice([0, 0, rng.randint(1, 12)]))])
        if k == 5:
            return spec("5", [(58, word(rng, 1, 12))] if rng.random() < 0.5 else [])
        return spec("4", [(36, rng.randint(1, 30))] + ([(123, "Y")] if rng.random() < 0.6 else []))


def gen_history(rng, role=None, persist=None, nops=None, restart=True, inbound=True, special=True, ticks=True,
                admin=True, asa=None, logon=True, weird=0.05, reset_y=True):
    """A mostly valid session: logon exchange, then a random mix of application sends, batches,
    admin sends, in-sequence inbound traffic, timer ticks and restarts."""
    role = role or rng.choice("IA")
    persist = persist or rng.choice(["file", "file", "file", "mem", "none"])
    hb = rng.choice([5, 10, 30, 30, 60])
    kw = {"hb": hb, "asa": (asa if asa is not None else (1 if rng.random() < 0.1 else 0))}
    if rng.random() < 0.15:
        kw["t"] = T0 + rng.randrange(0, 400 * 86400) * 10**9 + rng.randrange(1000) * 10**6
    if rng.random() < 0.1:
        kw["sid"] = (word(rng, 1, 6).replace("-", "A"), word(rng, 1, 6).replace("-", "B"))
        if kw["sid"][0] == kw["sid"][1]:
            kw["sid"] = (kw["sid"][0], kw["sid"][1] + "Q")
    if rng.random() < 0.08:
        kw["ss"] = rng.randint(2, 40)
    if rng.random() < 0.05:
        kw["sd"] = 1
    if rng.random() < 0.05 and role == "I":
        kw["rsn"] = 1
    kw["allow_y"] = reset_y
    h = Hist(rng, role, persist, **kw)
    if logon and rng.random() < 0.93:
        h.logon_in(reset=h.logon_flag())
    n = nops if nops is not None else rng.randint(2, 14)
    for _ in range(n):
        r = rng.random()
        if r < 0.30:
            h.send(h.app_spec())
        elif r < 0.45:
            k = rng.randint(1, 4)
            sps = [h.app_spec() if rng.random() < 0.75 else h.admin_spec() for _ in range(k)]
            if rng.random() < 0.5:
                sps[-1] = h.app_spec() if rng.random() < 0.6 else h.admin_spec()
            h.batch(sps)
        elif r < 0.55 and admin:
            h.send(h.admin_spec())
        elif r < 0.62 and special:
            k = rng.randrange(5)
            if k == 0:
                h.send(h.app_spec(custom=rng.randint(1, 30)))
            elif k == 1:
                h.send(h.app_spec(noinc=True))
            elif k == 2:
                h.send(spec("4", [(36, rng.randint(1, 30)), (123, "Y")], custom=rng.randint(1, 10)))
            elif k == 3:    # a retransmission by hand: MsgSeqNum preset
                hdr = [(34, rng.randint(1, 10))]
                if rng.random() < 0.5:
                    hdr.append((43, "Y"))
                if rng.random() < 0.7:
                    hdr.append((52, ts(h.now - rng.randrange(0, 10**10))))
                t = rng.choice(["D", "F"])
                h.send(spec(t, app_fields(rng, t, h.now), hdr=hdr))
            else:
                h.send(spec("5", [(58, "bye")], noinc=True))
        elif r < 0.88 and inbound:
            k = rng.random()
            if k < 0.25:
                h.inb("0", [(112, word(rng))] if rng.random() < 0.3 else [])
            elif k < 0.40:
                h.inb("1", [(112, word(rng))])
            elif k < 0.60:
                t = rng.choice(IN_APP_TYPES)
                h.inb(t, app_fields(rng, t, h.now))
            elif k < 0.80:
                b = rng.randint(1, max(1, h.sent + 2))
                e = rng.choice([0, 0, 0, rng.randint(b, b + 6), rng.randint(1, max(1, b))])
                h.inb("2", [(7, b), (16, e)])
            elif k < 0.88:
                nsn = h.next_in + rng.randint(1, 5)
                h.inb("4", [(123, "Y"), (36, nsn)], bump=False)
                h.ops[-1] = h.ops[-1]
                h.next_in = nsn
            elif k < 0.92:
                h.inb("5", [])
            elif k < 0.92 + weird:
                # out of sequence / duplicates (C19 territory; here only for the tie)
                j = rng.randrange(3)
                if j == 0:
                    h.inb("0", [], seq=h.next_in + rng.randint(1, 3))
                elif j == 1:
                    h.inb("D", app_fields(rng, "D", h.now), seq=max(1, h.next_in - rng.randint(1, 2)),
                          extra_hdr=[(43, "Y"), (122, ts(h.now - 10**9))])
                else:
                    h.inb("D", app_fields(rng, "D", h.now, complete=False))
            else:
                # (an acceptor recovers its numbers in handle_logon; since /repo 760121b a MemoryPersister
                #  returns its last control record, so this is part of the tie for every persister)
                h.logon_in(reset=h.logon_flag())
        elif r < 0.95 and ticks:
            if rng.random() < 0.7:
                h.tick(rng.randint(1, int(hb * 1.4) + 1) * 10**9 + rng.randrange(1000) * 10**6)
            else:
                h.clock(rng.randrange(1, 3000) * 10**6)
        elif restart:
            h.restart()
            if rng.random() < 0.85:
                h.logon_in(reset=h.logon_flag())
        else:
            h.send(h.app_spec())
    return h.line()


def gen_acceptor_logon(rng, reset_y=True):
    """Acceptor start numbers: Logons with ResetSeqNumFlag absent / =N / =Y crossed with configured start numbers
    (ss, rs), file / memory / no persister and restarts; some traffic before and after so that the numbers are not 1/1."""
    persist = rng.choice(["file", "file", "file", "mem", "none"])
    kw = {"hb": 30, "asa": 0}
    if rng.random() < 0.5:
        kw["ss"] = rng.choice([2, 7, 23, 100])
    if rng.random() < 0.4:
        kw["rs"] = rng.choice([2, 5, 40])
    h = Hist(rng, "A", persist, **kw)
    if kw.get("rs"):
        h.next_in = kw["rs"]
    rounds = rng.randint(1, 3)
    for k in range(rounds):
        flag = rng.choice(["N", "N", False, False, "Y" if reset_y else "N"])
        h.logon_in(reset=flag)
        for _ in range(rng.randint(0, 3)):
            r = rng.random()
            if r < 0.5:
                h.send(h.app_spec())
            elif r < 0.7:
                h.inb("0", [])
            elif r < 0.85:
                t = rng.choice(["D", "F"] + TWOCHAR_TYPES)
                h.inb(t, app_fields(rng, t, h.now))
            else:
                h.batch([h.app_spec(), spec("0")])
        if k + 1 < rounds:
            h.restart()
            if kw.get("rs") and persist != "file":
                h.next_in = kw["rs"]
    return h.line()


def _long_order(rng, now, size):
    """a NewOrderSingle whose encoded size is about `size` bytes (one long Text; legal while < 8 KB)."""
    f = [(11, word(rng, 4, 8)), (21, "1"), (55, "IBM"), (54, "1"), (60, ts(now)), (40, "1")]
    pad = max(1, size - 120)
    f.append((58, "".join(rng.choice("ABCDEFGHJKLMNPQRSTUVWXYZ23456789") for _ in range(pad))))
    return spec("D", f)


def gen_big_batches(rng):
    """The batch SIZE dimension: total encoded size just below / above Persister::MaxMsgLen (8192) with few long
    and with many short messages; batches crossing the 82,240-byte reserve of the batch buffer on the last and on an
    inner message (every single message < 8 KB); application and administrative messages last.  A handful of cases."""
    out = []

    def hist(persist, role="I"):
        h = Hist(rng, role, persist, hb=30, asa=0)
        if role == "I":
            h.logon_in()
        return h

    # few long messages around 8192 in total
    for total, k in ((7900, 2), (8300, 2), (8192 + 600, 3), (8000, 3)):
        h = hist(rng.choice(["file", "mem"]), rng.choice("IA"))
        sizes = [total // k] * k
        h.batch([_long_order(rng, h.now, z) for z in sizes])
        h.send(h.app_spec())
        out.append(h.line())
    # many short ones: 50..80 ordinary orders (about 110 bytes each), last one application / admin
    for n, last_admin in ((50, False), (66, False), (80, False), (72, True)):
        h = hist(rng.choice(["file", "mem"]))
        sps = [spec("D", app_fields(rng, "D", h.now)) for _ in range(n)]
        if last_admin:
            sps[-1] = spec("0")
        h.batch(sps)
        h.send(h.app_spec())
        out.append(h.line())
    # crossing the 82,240-byte reserve: on the last message (11 x ~7.6 KB) and on an inner one (13 x ~7.0 KB)
    for n, z in ((11, 7600), (13, 7000)):
        h = hist("file")
        h.batch([_long_order(rng, h.now, z) for _ in range(n)])
        h.send(h.app_spec())
        out.append(h.line())
    # a long single message for contrast (unaffected by batch accounting)
    h = hist("file")
    h.send(_long_order(rng, h.now, 7000))
    h.batch([_long_order(rng, h.now, 4200), _long_order(rng, h.now, 4200)])
    out.append(h.line())
    return out
