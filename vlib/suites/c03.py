"""C03 — codec is memory-safe and total on arbitrary input."""
import os
import re
import subprocess
from concurrent.futures import ThreadPoolExecutor

from vlib import build as B
from vlib import codecgen as G
from vlib.core import Case

ID = "C03"
LEVEL = "proof"
TECHNIQUE = ("Coq proofs about the capacity-instrumented Gallina model of extract_element / extract_header / "
             "MessageBase::decode / decode_group / Message::factory / Message::encode(f8String&) (coq/Codec): every write "
             "into a stack buffer is checked against the buffer's capacity, results are Ok | Exc | OOB site | Diverge | Fuel. "
             "Safety of the repaired decoder for ALL byte strings (residual sites named), totality of the fuel, "
             "kernel-checked witnesses of the remaining overruns and, on the pre-repair definitions, of the repaired ones. "
             "The model is tied to the real code by differential execution of a malformed stream under ASan/UBSan (risky "
             "cases in a forked child with a CPU/RSS watchdog); the model must predict the class of every case (result "
             "dump, exception class, overrun site, UB site).")
LEVEL_TEXT = ("see coq/Props/Properties_C03.v: c03_decode_safe (every wf schema, every byte string < 2^32, any MsgType text, "
              "Length/data pairs included: Ok or a library exception -- no overrun, no uninitialised read, no Diverge, no "
              "Fuel), c03_pseudo_msgtype_orig_refuted + c03_decode_orig_safe_partial (old table lookup), "
              "c03_decode_total, c03_extract_element_safe, c03_extract_fixed_width_safe, c03_encode_safe_partial, "
              "c03_fast_atoi_safe, c03_fast_atoi_agrees_with_orig; refutations c03_encode_overflow_refuted, "
              "c03_datetime_ticks_refuted; on the pre-repair definitions c03_val_overflow_orig_refuted, "
              "c03_header_overflow_orig_refuted, c03_group_hang_orig_refuted, c03_fixed_width_orig_refuted, "
              "c03_datetime_ub_orig_refuted, c03_chksum_align_orig_refuted, c03_fast_atoi_ub_orig_refuted")
LEVEL_NOTE = ("Partial: output[] of encode(f8String&) and the 64-bit tick product of the "
              "date/time constructors still violate the property (known findings). Memory safety of the REAL code is not "
              "proved: it is observed under ASan/UBSan on the generated stream and tied to the model's capacity checks. "
              "Float parsers belong to C08; date/time texts in decoded messages are canonical or predicted UB (garbage "
              "dates are probed through DTPARSE only, their printed value is not modelled).")
DESIGN_REF = "DESIGN.md section 4, Codec group, C03; findings F06 (repaired d48d8ce + ce1e2cc), F07 (open), F08 (repaired a0d41df), F09 (fast_atoi repaired a8219b1 + 1965750, checksum load repaired 9d9ce26), date/time (repaired da4ab8c, tick product open)"
PROPS_FILE = "Props/Properties_C03.v"
COQ_TARGETS = ["Props/Properties_C03.vo", "Extract/Extract_C03.vo"]
TRUSTED_BASE = ["Coq 8.16.1 kernel (coqc), vm_compute for the witnesses", "Extraction with ExtrOcamlBasic, no Extract Constant; OCaml 4.13.1",
                "hand-written instrumented model coq/Codec/*.v of runtime/message.cpp + include/fix8/message.hpp (buffer "
                "capacities checked against the source: tag[32]/val[2048] extract_header, len[32]/mtype[32] factory, "
                "tag[2048]/val[2048] decode and decode_group, output[8224] encode), tied by differential execution",
                "g++ 12 -fsanitize=address,undefined (stack redzones detect the first byte written past tag/val/len/mtype/output)",
                "harness/h_c03.cpp (fork isolation, crash summary from the sanitizer report, CPU/RSS hang detection) + "
                "harness/h_codec.cpp + meta_dump.hpp; ocaml/prelude.ml + ocaml/c03_driver.ml; vlib/codecgen.py + this suite"]
ASSUMPTIONS = ["ASan reports the first write past a stack array (redzones >= 32 bytes): an overrun never goes unnoticed",
               "the model follows /repo 408434c (factory refuses the pseudo rows header/trailer, extract_element and extract_element_fixed_width bounded, decode_group leaves "
               "its loop on an empty element, fast_atoi with sign, accumulating in the unsigned type, memcpy word loads in calc_chksum, "
               "date/time parsers without shifts and with a clamped month)",
               "texts of float/date/time typed fields in generated inputs are the unchanged canonical texts of a valid "
               "message (their parsers are C08/C09's subject) or texts for which the model predicts UB in parse_decimal / "
               "time_to_epoch; int texts are arbitrary and fast_atoi<int> UB is predicted",
               "a run that burns > 2 s CPU or grows by > 1 GB is a hang (legitimate 8 KB decodes take milliseconds); every HANG "
               "verdict has to be reproduced in fresh processes (once for inputs of the hang shape, twice otherwise)"]
RULE = ("valid messages generated from the dumped metadata (wire bytes built independently in Python, and RT through the "
        "real encoder); malformed stream derived from them: truncation at every offset, byte flips (NUL, SOH, '=', digits, "
        ">= 0x80), deleted '=' / SOH, tags of 31/32/33/2047/2048/2049 digits and tags >= 65536, values of "
        "2046..2049/3000/5000 bytes in header, body, group and trailer fields, BeginString/BodyLength/MsgType at their "
        "capacities, huge / UB group counts, NULs, Length/data pairs with wrong lengths, the former group-hang shape in groups "
        "with and without mandatory members (now Ok/Exc), a Length field followed by 2049+ digits; ENC with a string field of 0..9000 bytes around the output[] boundary; "
        "the text of Length fields (2^32-k, 2^32+k, 2^31+-k, characters below '0', signs, empty, remaining size) on the "
        "sanitized and on an unsanitized build (DECW: fast_atoi<int> wraps, as the model); "
        "MsgType texts header / trailer (pseudo rows of the message table) and near misses; "
        "history dependence: SEQ cases prime the stack in the harness frame (a valid message of several types decoded first, "
        "or the stack filled with 0x00/'Z'/0x7f/0xff) and then decode inputs whose second header element fails -- the tie "
        "covers stale-stack behaviour, the exception text is compared and must be a piece of the input, a returned message must "
        "have the type the input names; "
        "REENC of long messages; fast_atoi, date/time parser and calc_chksum site probes; non-trivial = input of >= 40 bytes whose run "
        "produced a classified result; distinct = distinct case lines")

SOH = b"\x01"
STRINGISH = set(range(15, 21)) | {7, 8, 28, 29}      # string classes, char, Boolean, data, XMLData
INT_TYPES = set(range(1, 7))


def schemas(tier):
    return ("utest", "fix44") if tier == "thorough" else ("utest",)


_state = {}


def build(tier):
    built = G.build_codec(schemas(tier))
    # alignment checking only in the harness translation unit (CHKSUM op); runtime objects as everywhere
    built["exes3"] = {s: B.harness("h_c03", runtime=None, schema=s, extra=["-fsanitize=alignment"]) for s in schemas(tier)}
    # the same harness WITHOUT sanitizers (DECW cases): texts on which fast_atoi<int> is UB abort the
    # sanitized run before the code under test is reached; here they wrap as the model says
    built["exesW"] = {s: B.harness("h_c03", runtime=None, schema=s, variant="plain") for s in schemas(tier)}
    built["impl"] = [built["exes3"][schemas(tier)[0]]]
    _state["built"] = built
    return built


# ------------------------------------------------------------------------------ running
# no symbolisation and no DWARF unwinding inside the crashing child (seconds of CPU per report on a
# 40 MB binary): the frame is reported as an offset and resolved here with one `nm` per binary
ENV = {"ASAN_OPTIONS": "detect_leaks=0:abort_on_error=0:halt_on_error=1:allocator_may_return_null=1:"
                       "detect_stack_use_after_return=0:symbolize=0:fast_unwind_on_fatal=1",
       "UBSAN_OPTIONS": "print_stacktrace=0:halt_on_error=1"}
def risky(case, rest):
    """Run the case in a forked child?  Exactly those expected to end abnormally (a miss only costs
    a restart of the harness: the culprit is then re-run isolated)."""
    if case.origin != "gen" or case.cls.startswith("ub-date"):
        return True
    w = rest.split(" ")
    try:
        if w[0] in ("DEC", "REENC"):
            data = bytes.fromhex(w[2]) if w[2] != "-" else b""
            return w[0] == "REENC" and len(data) > 8000
        if w[0] == "ENC":
            return len(rest) > 16000
        if w[0] == "ATOI":
            return py_atoi_ub(bytes.fromhex(w[1]) if w[1] != "-" else b"")
        if w[0] == "DTPARSE":
            return bool(py_dt_ub({"ts": 22, "time": 23, "date": 24}[w[1]], bytes.fromhex(w[2]) if w[2] != "-" else b""))
    except Exception:
        return True
    return False


def _meta_of(case):
    built = _state["built"]
    schema, _ = G.schema_of(case.line, next(iter(built["exes3"])))
    return built["metas"][schema]


def run_chunk(exe, lines, flags, confirm=True, expected=()):
    """Line protocol with crash recovery: a case that kills the harness is re-run isolated ('!')."""
    n = len(lines)
    res = [None] * n
    forced = set()
    start = 0
    env = dict(os.environ)
    env.update(ENV)
    while start < n:
        batch = [("!" if (flags[k] or k in forced) else "") + lines[k] for k in range(start, n)]
        try:
            p = subprocess.run([exe], input=("\n".join(batch) + "\n").encode(), stdout=subprocess.PIPE,
                               stderr=subprocess.PIPE, timeout=900, env=env)
            raw, rc = p.stdout, p.returncode
        except subprocess.TimeoutExpired as e:
            raw, rc = (e.stdout or b""), -1
        out = raw.decode(errors="replace").split("\n")
        out.pop()
        out = out[:len(batch)]
        for k, r in enumerate(out):
            res[start + k] = r
        start += len(out)
        if start < n:
            if start in forced:
                res[start] = "CRASH harness died (rc=%d)" % rc
                start += 1
            else:
                forced.add(start)
    # a HANG verdict rests on CPU / memory accounting of a child on a possibly overloaded machine:
    # it must be reproduced in fresh processes (once if the input has the hang shape, twice otherwise)
    if confirm:
        for rnd in range(2):
            hangs = [k for k in range(n) if res[k] == "HANG" and not (rnd == 1 and k in expected)]
            if not hangs:
                break
            again = run_chunk(exe, [lines[k] for k in hangs], [True] * len(hangs), confirm=False)
            for k, r in zip(hangs, again):
                res[k] = r
    return res


def run_impl(built, cases, tier):
    default = next(iter(built["exes3"]))
    res = [None] * len(cases)
    by = {}
    for k, c in enumerate(cases):
        s, rest = G.schema_of(c.line, default)
        exp = False
        w = rest.split(" ")
        if w[0] in ("DEC", "DECW", "REENC") and len(w) == 3:
            exp = False          # since /repo a0d41df / 408434c no input is expected to run away
        if w[0] == "DECW":
            by.setdefault(s + "+plain", []).append((k, "DEC " + rest[5:], True, exp))
            continue
        by.setdefault(s, []).append((k, rest, risky(c, rest), exp))
    jobs = []
    workers = 8
    for s, items in by.items():
        # interleave so that the expensive (isolated) cases spread over the workers
        for w in range(workers):
            part = items[w::workers]
            if part:
                jobs.append((built["exesW"][s[:-6]] if s.endswith("+plain") else built["exes3"][s], part))
    with ThreadPoolExecutor(max_workers=workers) as ex:
        outs = list(ex.map(lambda j: run_chunk(j[0], [x[1] for x in j[1]], [x[2] for x in j[1]],
                                               expected={i for i, x in enumerate(j[1]) if x[3]}), jobs))
    for (exe, part), out in zip(jobs, outs):
        for (k, _, _, _), r in zip(part, out):
            res[k] = r
    return res


_syms = {}


def resolve(exe, off):
    """Function containing the code offset `off` of the (PIE) binary, demangled, without arguments."""
    if exe not in _syms:
        out = subprocess.run(["nm", "-n", "-C", "--defined-only", exe], stdout=subprocess.PIPE, timeout=300).stdout.decode(errors="replace")
        tab = []
        for line in out.split("\n"):
            w = line.split(" ", 2)
            if len(w) == 3 and w[1] in "TtWw":
                try:
                    tab.append((int(w[0], 16), w[2]))
                except ValueError:
                    pass
        _syms[exe] = tab
    tab = _syms[exe]
    lo, hi = 0, len(tab)
    while lo < hi:
        mid = (lo + hi) // 2
        if tab[mid][0] <= off:
            lo = mid + 1
        else:
            hi = mid
    if lo == 0:
        return "?"
    name = tab[lo - 1][1]
    depth, cut = 0, len(name)
    for i, ch in enumerate(name):
        if ch == "<":
            depth += 1
        elif ch == ">":
            depth -= 1
        elif ch == "(" and depth == 0:
            cut = i
            break
    return name[:cut].split(" ")[-1]


FRAME_CLASS = {"FIX8::MessageBase::extract_header": "OOB extract_header", "FIX8::Message::factory": "OOB extract_header",
               "FIX8::MessageBase::decode": "OOB decode", "FIX8::MessageBase::decode_group": "OOB decode",
               "FIX8::Message::encode": "OOB encode"}


PSEUDO = (b"header", b"trailer")


def py_mtype(data):
    """The MsgType text Message::factory looks up (what extract_header delivers), None if the header
    is rejected before: 8..=<2048|9..=<32|35..=<32| with tags of < 32 digits."""
    m = re.match(rb"(8\d{0,30})=([^\x01]{0,2047})\x01(9\d{0,30})=([^\x01]{0,31})\x01(35\d{0,29})=([^\x01]{0,31})(\x01?)", data)
    if not m:
        return None
    return m.group(6).split(b"\0")[0]


def postprocess(case, r):
    """Sanitizer summaries of h_c03 -> the model's vocabulary (function level)."""
    if r.startswith("CRASH asan stack-buffer-overflow WRITE"):
        m = re.search(r"frame=(\S+)", r)
        if m:
            fn = m.group(1)
            if fn.startswith("+0x"):
                built = _state["built"]
                schema, _ = G.schema_of(case.line, next(iter(built["exes3"])))
                fn = resolve(built["exes3"][schema], int(fn[1:], 16))
            if fn in FRAME_CLASS:
                return FRAME_CLASS[fn]
            return r + " [" + fn + "]"
    if r.startswith("CRASH ubsan f8utils.hpp") and "signed integer overflow" in r:
        return "UB fast_atoi"
    if r.startswith("CRASH ubsan field.hpp") and ("out of bounds for type 'int [13]'" in r or "left shift of" in r
                                                  or "signed integer overflow" in r):
        return "UB datetime"
    if r.startswith("CRASH ubsan message.hpp") and "misaligned address" in r and "uint32_t" in r:
        return "UB calc_chksum"
    m = re.match(r"EXC MissingRepeatingGroupField -(\d+)$", r)
    if m:       # the harness prints the unsigned tag through an int
        return "EXC MissingRepeatingGroupField %d" % (2 ** 32 - int(m.group(1)))
    return r


# ------------------------------------------------------------------------------ wire messages
def fld_bytes(meta, owner, fs):
    """Fields of one part / element in schema-position order, groups expanded."""
    def pos(f):
        t = meta.trait(owner, f.fnum)
        return t.pos if t is not None and (t.flags & 4) else 0
    out = b""
    for f in sorted(fs, key=pos):
        out += b"%d=%s\x01" % (f.fnum, f.val)
        if f.elems:
            sub = meta.groups.get(owner, {}).get(f.fnum)
            for e in f.elems:
                out += fld_bytes(meta, sub, e)
    return out


def finish(begin, body, length=None, chksum=None):
    pre = b"8=" + begin + SOH + b"9=" + (str(len(body)).encode() if length is None else length) + SOH
    msg = pre + body
    cs = sum(msg) % 256 if chksum is None else chksum
    return msg + b"10=%03d\x01" % cs


def wire(meta, mt, hdr, body, trl, **kw):
    b = b"35=" + mt.encode() + SOH + fld_bytes(meta, "header", hdr) + fld_bytes(meta, mt, body) + fld_bytes(meta, "trailer", trl)
    return finish(meta.begin, b, **kw)


def refix(data):
    """Recompute BodyLength and CheckSum of a message-shaped byte string (best effort)."""
    m = re.match(rb"8=([^\x01]*)\x019=[^\x01]*\x01", data)
    if not m or not re.search(rb"10=...\x01$", data):
        return data
    return finish(m.group(1), data[m.end():-7])


def tokens(data):
    """(tag digits, value) of every SOH-terminated 'digits=value' token, scanning like a tokenizer
    that restarts after every SOH."""
    out = []
    for t in data.split(SOH):
        m = re.match(rb"(\d*)=(.*)$", t, re.S)
        if m:
            out.append((m.group(1), m.group(2)))
    return out


def py_atoi(txt):
    """fast_atoi<int> since /repo 1965750: accumulation in unsigned (wraps), sign applied at the end:
    (ub = False, value)."""
    t = txt.split(b"\0")[0]
    neg = t[:1] == b"-"
    r = 0
    for ch in (t[1:] if neg else t):
        r = (r * 10 + (ch - 256 if ch >= 128 else ch) - 48) % 2 ** 32
    if neg:
        r = (-r) % 2 ** 32
    return False, r - 2 ** 32 if r >= 2 ** 31 else r


def py_atoi_ub(txt):
    return py_atoi(txt)[0]


DT_TS, DT_TIME, DT_DATES = 22, 23, (21, 24, 25)
MON_DAYS = [0, 31, 59, 90, 120, 151, 181, 212, 243, 273, 304, 334, 365]


def _i32(x):
    return -2 ** 31 <= x < 2 ** 31


def _pd(chars):
    """parse_decimal since /repo da4ab8c: to = to * 10 + (ch - '0'), no shifts (<= 4 chars: no overflow)"""
    r = 0
    for ch in chars:
        c = ch - 256 if ch >= 128 else ch
        r = r * 10 + (c - 48)
    return False, r


def _i64(x):
    return -2 ** 63 <= x < 2 ** 63


def _tte_ub(year, mon, mday, hour, mi, sec, acc=0):
    cmon = min(max(mon, 0), 11)           # clamped for the table lookup since da4ab8c
    ty = 0 if year == 0 else year - 70
    t1 = MON_DAYS[cmon] + (0 if mday == 0 else mday - 1) + ty * 365
    q = abs(ty + 2) // 4 * (1 if ty + 2 >= 0 else -1)
    t2 = t1 + q
    tdays = t2 - 1 if (year != 0 and abs(year) % 4 == 0 and mon < 2) else t2
    e = (tdays * 86400 + hour * 3600 + mi * 60 + sec) * 10 ** 9     # seconds in time_t (repair 4d1009d), ticks in int64
    return not (all(_i32(x) for x in (ty * 365, t1, t2, tdays)) and _i64(e) and _i64(acc + e))


def py_dt_ub(ft, v):
    """Bounds.dt_ub: True / False, None = reads beyond the text (not determined)."""
    s = v.split(b"\0")[0]
    n = len(s)
    if n == 0 or s == b"now":
        return False
    if ft == DT_TS:
        if n < 17:
            return None
        ps = [_pd(s[a:a + k]) for a, k in ((0, 4), (4, 2), (6, 2), (9, 2), (12, 2), (15, 2))]
        ub = any(u for u, _ in ps)
        ms = 0
        if n == 21:
            u7, ms = _pd(s[18:21])
            ub = ub or u7
        if n in (17, 21) and not ub:
            ub = _tte_ub(ps[0][1] - 1900, ps[1][1] - 1, ps[2][1], ps[3][1], ps[4][1], ps[5][1], ms * 10 ** 6)
        return ub
    if ft == DT_TIME:
        if n < 8:
            return None
        ub = any(_pd(s[a:a + 2])[0] for a in (0, 3, 6))
        return ub or (n == 12 and _pd(s[9:12])[0])
    if ft in DT_DATES:
        if n < 6:
            return None
        (u1, y), (u2, mo) = _pd(s[0:4]), _pd(s[4:6])
        u3, d = _pd(s[6:8]) if n == 8 else (False, 1)
        return u1 or u2 or u3 or _tte_ub(y - 1900, mo - 1, d, 0, 0, 0)
    return False


def py_atoi_u32(txt):
    r = 0
    for ch in txt.split(b"\0")[0]:
        r = (r * 10 + (ch - 256 if ch >= 128 else ch) - 48) % 2 ** 32
    return r


def admissible(meta, data, allowed=None, ub_ok=False, int_ub_ok=False):
    """Generator-side filter (see ASSUMPTIONS): typed texts unchanged or plain digits, no
    uninitialised tag read, no fast_atoi UB unless the case is about it."""
    toks = tokens(data)
    if len(toks) > 1 and py_atoi_u32(toks[1][1]) >= 2 ** 31:
        # BodyLength >= 2^31 is stored as a negative int; the codec model keeps texts and re-renders
        # "-381" through fast_atoi (dump differs: "-2619"): not this property's subject
        return False
    for i, (tag, val) in enumerate(toks):
        if not tag or len(tag) > 12 or i < 3:       # 8, 9, 35 are not built from their text by decode
            continue
        f = int(tag) % 65536
        ft = meta.fields.get(f, (None,))[0]
        if ft is None or ft in STRINGISH:
            continue
        v = val.split(b"\0")[0]
        if ft in INT_TYPES:
            if py_atoi_ub(v) and not (ub_ok or int_ub_ok):
                return False
        elif ub_ok and py_dt_ub(ft, v) is True:
            continue
        elif allowed is not None and (tag, val) not in allowed:
            return False
    # a Length field directly followed by bytes that are not a token: the fixed-width extractor sees them
    return True


# ------------------------------------------------------------------------------ generation
def dec(px, mode, data, cls):
    return Case("%sDEC %s %s" % (px, mode, data.hex() or "-"), cls)


def pick_modes(rng):
    return rng.choice(("s", "s", "s", "p", "sn", "pn"))


def string_fields(meta, owner, groups=False):
    return [t for t in meta.traits.get(owner, []) if t.ftype == G.FT_STRING and not t.group and t.fnum not in G.AUTO]


def nomand_groups(meta):
    """(owner, count fnum, sub owner) of group classes without a mandatory member / with one."""
    no, yes = [], []
    for owner, gs in meta.groups.items():
        for f, sub in gs.items():
            (yes if any(t.mandatory for t in meta.traits.get(sub, [])) else no).append((owner, f, sub))
    return sorted(no), sorted(yes)


def gen_schema(rng, tier, meta, px, cs):
    thorough = tier == "thorough"
    k = (lambda q, t: t if thorough else q)
    gen = G.MsgGen(meta, rng)
    rich = G.MsgGen(meta, rng, p_opt=0.6)
    types = sorted(meta.msgs)

    def valid(g=gen, mtype=None, max_wire=3000):
        mt, hdr, body, trl = g.message(mtype, max_wire=max_wire)
        return mt, hdr, body, trl, wire(meta, mt, hdr, body, trl)

    def allowed_of(data):
        return frozenset(tokens(data))

    def add(data, cls, mode=None, allowed=None, ub_ok=False):
        if admissible(meta, data, allowed, ub_ok):
            cs.append(dec(px, mode or pick_modes(rng), data, cls))
            return True
        return False

    # -- mostly valid
    for mt in types:
        cs.append(dec(px, "s", valid(mtype=mt)[4], "valid-type"))
    for i in range(k(200, 800)):
        g = rich if i % 4 == 0 else gen
        mt, hdr, body, trl, w = valid(g)
        cs.append(dec(px, pick_modes(rng), w, "valid"))
    for _ in range(k(60, 300)):
        cs.append(Case(px + "RT s " + G.ser_msg(*gen.message()), "roundtrip"))

    # -- truncation at every offset
    for _ in range(k(3, 8)):
        mt, hdr, body, trl, w = valid(max_wire=260 if not thorough else 400)
        for n in range(len(w)):
            cs.append(dec(px, "s" if n % 5 else "p", w[:n], "truncate"))
    # -- byte flips
    alphabet = [0, 1, 1, 61, 61, 48, 57, 49, 0x80, 0xff, 65, 32, 124]
    n = 0
    while n < k(320, 1500):
        mt, hdr, body, trl, w = valid()
        al = allowed_of(w)
        b = bytearray(w)
        for _ in range(rng.choice((1, 1, 1, 2, 3))):
            b[rng.randrange(len(b))] = rng.choice(alphabet) if rng.random() < 0.7 else rng.randrange(256)
        data = bytes(b)
        if rng.random() < 0.5:
            data = refix(data)
        if add(data, "flip", allowed=al):
            n += 1
    # -- deleted / duplicated separators, swapped tokens, junk
    n = 0
    while n < k(120, 500):
        mt, hdr, body, trl, w = valid()
        al = allowed_of(w)
        idx = [i for i, ch in enumerate(w) if ch in (1, 61)]
        i = rng.choice(idx)
        how = rng.randrange(5)
        if how == 0:
            data = w[:i] + w[i + 1:]
        elif how == 1:
            data = w[:i] + w[i:i + 1] * 2 + w[i + 1:]
        elif how == 2:
            data = w[:i + 1] + rng.choice((b"A=1\x01", b"=\x01", b"\x01", b"999999=zz\x01", b"65648=zz\x01", b"0=\x01")) + w[i + 1:]
        elif how == 3:
            parts = w.split(SOH)
            a, c = rng.randrange(len(parts) - 1), rng.randrange(len(parts) - 1)
            parts[a], parts[c] = parts[c], parts[a]
            data = SOH.join(parts)
        else:
            data = w[:i] + bytes(rng.randrange(256) for _ in range(rng.randint(1, 6))) + w[i:]
        if rng.random() < 0.6:
            data = refix(data)
        if add(data, "separator", allowed=al):
            n += 1
    # -- long tags (decode: tag[2048]; the tag value wraps mod 2^16 / 2^32)
    for nd in (5, 12, 31, 32, 33, 100, 2046, 2047, 2048, 2049, 2500):
        for where in range(k(2, 4)):
            mt, hdr, body, trl, w = valid()
            parts = w.split(SOH)
            at = rng.randrange(3, len(parts) - 1)
            digits = b"".join(rng.choice(b"0123456789").to_bytes(1, "big") for _ in range(nd))
            parts.insert(at, digits + b"=zz")
            add(refix(SOH.join(parts)), "long-tag", allowed=allowed_of(w))
    for _ in range(k(30, 200)):
        mt, hdr, body, trl, w = valid()
        parts = w.split(SOH)
        at = rng.randrange(3, len(parts) - 1)
        f = rng.choice(sorted(meta.fields))
        tag = f + 65536 * rng.choice((1, 2, 3, 65535, 65536))
        parts.insert(at, b"%d=%s" % (tag, G.gen_string(rng)))
        add(refix(SOH.join(parts)), "tag-wrap", allowed=allowed_of(w))
    # -- long values in header / body / group / trailer string fields
    sizes = (2046, 2047, 2048, 2049, 3000, 5000)
    hs, ts = string_fields(meta, "header"), [t for t in meta.traits.get("trailer", []) if t.ftype in (15, 28) and t.fnum != 10]
    for sz in sizes:
        for rep in range(k(2, 6)):
            mt = rng.choice(types)
            bs = string_fields(meta, mt)
            mt, hdr, body, trl, w = valid(mtype=mt)
            cand = [("header", hs)] + ([(mt, bs)] if bs else [])
            owner, lst = rng.choice(cand)
            t = rng.choice(lst)
            val = bytes(rng.choice(b"abcXYZ =.") for _ in range(sz))
            tgt = hdr if owner == "header" else body
            tgt[:] = [f for f in tgt if f.fnum != t.fnum] + [G.Fld(t.fnum, val)]
            add(wire(meta, mt, hdr, body, trl), "long-value-%d" % sz)
    no, yes = nomand_groups(meta)
    grp_str = []
    for owner, f, sub in no + yes:
        if owner in meta.msgs:
            ss = [t for t in meta.traits.get(sub, []) if t.ftype == G.FT_STRING and not t.group]
            first = meta.first_field(sub)
            if ss and first is not None:
                grp_str.append((owner, f, sub, ss, first))
    for sz in (2047, 2048, 2049):
        for rep in range(k(2, 5)):
            if not grp_str:
                break
            owner, f, sub, ss, first = rng.choice(grp_str)
            mt, hdr, body, trl, w = valid(mtype=owner)
            ft = meta.trait(sub, first)
            elem = [G.Fld(first, G.gen_value(rng, ft.ftype))]
            t = rng.choice(ss)
            elem = [e for e in elem if e.fnum != t.fnum] + [G.Fld(t.fnum, b"g" * sz)]
            body[:] = [x for x in body if x.fnum != f] + [G.Fld(f, b"1", [elem])]
            add(wire(meta, mt, hdr, body, trl), "long-group-value-%d" % sz)
    # -- MsgType texts around the pseudo rows "header" / "trailer" of the generated message table
    for mtxt in (b"header", b"trailer"):
        for _ in range(k(2, 6)):
            mt, hdr, body, trl, w = valid()
            rest = w[w.index(b"\x0135=") + 1:-7]
            body_after = rest[rest.index(SOH) + 1:]
            how = rng.randrange(4)
            data = finish(meta.begin, b"35=" + mtxt + SOH + body_after,
                          length=b"5" if how == 1 else None, chksum=7 if how == 2 else None)
            if how == 3:
                data = finish(meta.begin, b"35=" + mtxt + SOH)
            add(data, "pseudo-msgtype")
    for mtxt in (b"Header", b"header1", b"trailer ", b"heade", b"HEADER", b"traile", b"trailers", b"header\0x", b"head\0er",
                 b" header", b"", b"headertrailer", b"0header"):
        mt, hdr, body, trl, w = valid()
        rest = w[w.index(b"\x0135=") + 1:-7]
        body_after = rest[rest.index(SOH) + 1:]
        add(finish(meta.begin, b"35=" + mtxt + SOH + body_after), "msgtype-near-pseudo")
    # -- the three header tokens at their capacities
    for _ in range(k(1, 3)):
        mt, hdr, body, trl, w = valid()
        rest = w[w.index(b"\x0135=") + 1:-7]
        for nb in (31, 32, 40, 2047, 2048, 2100):
            add(finish(b"F" * nb, rest), "hdr-begin-%d" % nb)
        for nl in (9, 31, 32, 33, 100):
            add(finish(meta.begin, rest, length=b"1" * nl), "hdr-bodylength-%d" % nl)
        body_after = rest[rest.index(SOH) + 1:]
        for nm in (2, 31, 32, 33, 100, 3000):
            add(finish(meta.begin, b"35=" + b"D" * nm + SOH + body_after), "hdr-msgtype-%d" % nm)
        for nt in (2, 31, 32, 33, 64):
            add(b"8" * nt + w[1:], "hdr-tag8-%d" % nt)
            i9 = w.index(b"\x019=") + 1
            add(w[:i9] + b"9" * nt + w[i9 + 1:], "hdr-tag9-%d" % nt)
            i35 = w.index(b"\x0135=") + 1
            add(w[:i35] + b"35" + b"5" * (nt - 2 if nt > 2 else 0) + w[i35 + 2:], "hdr-tag35-%d" % nt)
    # -- group counts: huge, zero, mismatching the number of elements
    msg_groups = [g for g in no + yes if g[0] in meta.msgs and meta.first_field(g[2]) is not None]
    for _ in range(k(40, 300)):
        owner, f, sub = rng.choice(msg_groups)
        mt, hdr, body, trl, w = valid(mtype=owner)
        elems = [gen.part(sub, 1, True) for _ in range(rng.choice((0, 1, 2, 3)))]
        cnt = rng.choice((b"0", b"1", b"2", b"7", b"999999999", b"2147483599", b"00000000001", b"1x", b""))
        body[:] = [x for x in body if x.fnum != f] + [G.Fld(f, cnt, elems)]
        add(wire(meta, mt, hdr, body, trl), "group-count")
    # -- fast_atoi<int> UB inside otherwise valid messages: counts whose wrapped value stays positive
    #    (the elements are still decoded), any text in plain int fields
    for cnt in (b"9999999999", b"99999999999", b"3000000000000"):
        for _ in range(k(2, 5)):
            owner, f, sub = rng.choice(msg_groups)
            mt, hdr, body, trl, w = valid(mtype=owner)
            body[:] = [x for x in body if x.fnum != f] + [G.Fld(f, cnt, [gen.part(sub, 1, True)])]
            add(wire(meta, mt, hdr, body, trl), "ub-int", mode="s", ub_ok=True)
    plain_int = {}
    for mt in types:
        cand = [t for t in meta.traits.get(mt, []) if t.ftype in (1, 3, 4, 6) and not t.group and meta.fields.get(t.fnum, (0,))[0] in (1, 3, 4, 6)]
        if cand:
            plain_int[mt] = cand
    for txt in (b"2147483647", b"2147483648", b"-2147483648", b"-2147483649", b"-5", b"-", b"1-", b"999999999999", b"\xff\xff",
                b"12a", b"/1", b"+5", b" 1", b"-1", b"4294967296", b"-99999999999", b"\x7f\x7f\x7f\x7f\x7f\x7f\x7f\x7f\x7f"):
        if not plain_int:
            break
        mt = rng.choice(sorted(plain_int))
        mt, hdr, body, trl, w = valid(mtype=mt)
        t = rng.choice(plain_int[mt])
        body[:] = [x for x in body if x.fnum != t.fnum] + [G.Fld(t.fnum, txt)]
        add(wire(meta, mt, hdr, body, trl), "ub-int", mode="s", ub_ok=True)
    # -- NULs
    n = 0
    while n < k(40, 300):
        mt, hdr, body, trl, w = valid()
        al = allowed_of(w)
        i = rng.randrange(len(w))
        data = w[:i] + b"\0" * rng.choice((1, 1, 2, 5)) + w[i + rng.choice((0, 1)):]
        if add(refix(data) if rng.random() < 0.7 else data, "nul", allowed=al):
            n += 1
    # -- the group-hang shape (F08) and its harmless neighbours
    junk = (b"A=1\x01", b"\x01", b"x", b"=", b"12", b"\x0158=a\x01")
    hang_owners = [g for g in no if g[0] in meta.msgs]
    for _ in range(k(5, 14)):
        owner, f, sub = rng.choice(hang_owners)
        mt, hdr, body, trl, w = valid(mtype=owner)
        body[:] = [x for x in body if x.fnum != f]
        w = wire(meta, mt, hdr, body, trl)
        i = len(w) - 7
        data = refix(w[:i] + b"%d=%d\x01" % (f, rng.choice((1, 2, 30))) + rng.choice(junk[:2]) + w[i:])
        add(data, "hang-shape", mode=rng.choice(("s", "p")))
    for _ in range(k(10, 40)):
        owner, f, sub = rng.choice([g for g in yes if g[0] in meta.msgs] or hang_owners)
        mt, hdr, body, trl, w = valid(mtype=owner)
        body[:] = [x for x in body if x.fnum != f]
        w = wire(meta, mt, hdr, body, trl)
        i = len(w) - 7
        data = refix(w[:i] + b"%d=%d\x01" % (f, rng.choice((1, 2))) + rng.choice(junk) + w[i:])
        add(data, "hang-neighbour-mandatory")
    for _ in range(k(10, 40)):
        owner, f, sub = rng.choice(hang_owners)
        mt, hdr, body, trl, w = valid(mtype=owner)
        body[:] = [x for x in body if x.fnum != f]
        w = wire(meta, mt, hdr, body, trl)
        i = len(w) - 7
        # count 0 (no decode_group), or the junk directly before the trailer with nothing left
        data = refix(w[:i] + b"%d=0\x01" % f + rng.choice(junk) + w[i:])
        add(data, "hang-neighbour-zero")
    # -- Length / data pairs
    pairs = []
    for owner in ["header", "trailer"] + [m for m in types]:
        ts_ = sorted(meta.traits.get(owner, []), key=lambda t: t.pos)
        for a, b in zip(ts_, ts_[1:]):
            if a.ftype == 2 and a.fnum != 9 and b.ftype in (28, 29) and b.pos == a.pos + 1:
                pairs.append((owner, a.fnum, b.fnum))
    for _ in range(k(70, 400)):
        owner, lf, df = rng.choice(pairs)
        mt = owner if owner in meta.msgs else rng.choice(types)
        mt, hdr, body, trl, w = valid(mtype=mt)
        tgt = {"header": hdr, "trailer": trl}.get(owner, body)
        data_v = rng.choice((b"abc", b"a\x01b", b"", b"x" * 100, b"q" * 2047, b"q" * 2046, b"a=b\x0158=c", G.gen_string(rng, 1, 30)))
        ln = rng.choice((len(data_v), len(data_v), len(data_v) + 1, max(0, len(data_v) - 1), 0, 2047, 2048, 99999, 4294967295 if False else 2000000000))
        tgt[:] = [x for x in tgt if x.fnum not in (lf, df)]
        w = wire(meta, mt, hdr, body, trl)
        # place the pair where its part is decoded: header pairs right after 35=, body/trailer pairs before 10=
        tok = b"%d=%d\x01%d=%s\x01" % (lf, ln, df, data_v)
        if owner == "header":
            i = w.index(SOH, w.index(b"\x0135=") + 1) + 1
        else:
            i = len(w) - 7
        if rng.random() < 0.15:
            tok = b"%d=%d\x01%s" % (lf, ln, data_v)          # no data tag at all
            if re.match(rb"\d{%d,}" % (len(str(lf)) + 1), data_v):
                continue
        add(refix(w[:i] + tok + w[i:]), "data-pair")
    # -- the TEXT of a Length field (val_sz = fast_atoi<unsigned>(val), compared with 2047 as unsigned):
    #    the 32-bit wrap neighbourhood, 2^31 +- k, characters just below '0' (negative under a signed
    #    reading), signs, empty text, and lengths around what is left of the message.  Every text goes
    #    through the unsanitized build (DECW); those on which Field<int>'s fast_atoi<int> has no UB
    #    also through the sanitized one.
    wrap_texts = [str(2 ** 32 - j).encode() for j in range(1, 9)] + [str(2 ** 32 + j).encode() for j in (0, 1, 2, 3, 5, 2047, 2048)] + \
                 [str(2 ** 31 + j).encode() for j in (-2, -1, 0, 1, 2)] + \
                 [b"-", b".", b"/", b"+", b",", b"--", b"-.", b"/-", b"+/", b"..", b"-/-", b"/0", b"-0", b"+0", b"",
                  b"-1", b"-2", b"-3", b"-5", b"+5", b"-2047", b"-2048", b"0", b"2047", b"2048", b"99999"]
    for pi, (owner, lf, df) in enumerate(pairs[:k(4, 12)]):
        texts = list(wrap_texts)
        if not thorough:
            # every run: all single characters and the 2^32 - k block; a rotating sample of the rest
            must = [t for t in texts if len(t) <= 1 or t in wrap_texts[:8]]
            texts = must + rng.sample([t for t in texts if t not in must], 10)
        for txt in texts + ["rem-8", "rem-7", "rem-1", "rem", "rem+1"]:
            mt = owner if owner in meta.msgs else rng.choice(types)
            mt, hdr, body, trl, w = valid(mtype=mt)
            tgt = {"header": hdr, "trailer": trl}.get(owner, body)
            tgt[:] = [x for x in tgt if x.fnum not in (lf, df)]
            w = wire(meta, mt, hdr, body, trl)
            i = w.index(SOH, w.index(b"\x0135=") + 1) + 1 if owner == "header" else len(w) - 7
            data_v = rng.choice((b"abcdefgh", b"x" * 40, b"a\x01b", G.gen_string(rng, 3, 30)))
            if isinstance(txt, str):
                # what is left of the message after "<df>=": data, SOH and everything behind it
                rem = len(data_v) + 1 + len(w) - i
                txt = str(max(0, rem + {"rem-8": -8, "rem-7": -7, "rem-1": -1, "rem": 0, "rem+1": 1}[txt])).encode()
            data = refix(w[:i] + b"%d=%s\x01%d=%s\x01" % (lf, txt, df, data_v) + w[i:])
            mode = pick_modes(rng)
            if admissible(meta, data, int_ub_ok=True):
                cs.append(Case("%sDECW %s %s" % (px, mode, data.hex()), "length-text-plain"))
            add(data, "length-text", mode=mode)

    # the fixed-width extractor (bounded and terminating since ce1e2cc): a Length field followed by a
    # data tag of any length -- longer than the Length field's own tag (formerly an uninitialised
    # read), 2047 digits (fit), 2048 and more (formerly past tag[2048], now a failed extraction)
    for nd_ in (3, 4, 7, 40, 2046, 2047, 2048, 2049, 2050, 3000):
        for owner, lf, df in pairs[:k(3, 8)]:
            mt = owner if owner in meta.msgs else rng.choice(types)
            mt, hdr, body, trl, w = valid(mtype=mt)
            tgt = {"header": hdr, "trailer": trl}.get(owner, body)
            tgt[:] = [x for x in tgt if x.fnum not in (lf, df)]
            w = wire(meta, mt, hdr, body, trl)
            digits = bytes(rng.choice(b"0123456789") for _ in range(nd_))
            tok = b"%d=%d\x01%s=abc\x01" % (lf, rng.choice((0, 1, 3)), digits)
            i = w.index(SOH, w.index(b"\x0135=") + 1) + 1 if owner == "header" else len(w) - 7
            add(refix(w[:i] + tok + w[i:]), "fw-digits-%d" % nd_)
    # the fixed-width extractor at its limit: val_sz = 2047 is copied, 2048 is refused
    for ln in (2046, 2047, 2048, 2049):
        for owner, lf, df in pairs[:k(2, 6)]:
            mt = owner if owner in meta.msgs else rng.choice(types)
            mt, hdr, body, trl, w = valid(mtype=mt)
            tgt = {"header": hdr, "trailer": trl}.get(owner, body)
            tgt[:] = [x for x in tgt if x.fnum not in (lf, df)]
            w = wire(meta, mt, hdr, body, trl)
            tok = b"%d=%d\x01%d=%s\x01" % (lf, ln, df, b"q" * ln)
            i = w.index(SOH, w.index(b"\x0135=") + 1) + 1 if owner == "header" else len(w) - 7
            add(refix(w[:i] + tok + w[i:]), "data-limit-%d" % ln)

    # -- history dependence (stale stack): in ONE frame of the harness the stack is primed (a valid
    #    message of some type is decoded / the stack is filled with a byte), then factory runs on an
    #    input whose SECOND header element cannot be extracted (extract_header returns after 8=..|, the
    #    MsgType buffer is never written).  The answer must be the same InvalidMessage with the same
    #    text whatever the history.
    primers = []
    for mt in [t for t in ("0", "D", "A", "8") if t in meta.msgs] + [rng.choice(types) for _ in range(k(2, 6))]:
        primers.append("M" + valid(mtype=mt)[4].hex())
    primes = ["N", "S0", "S90", "S127", "S255"] + primers
    for _ in range(k(2, 6)):
        mt, hdr, body, trl, w = valid()
        i9 = w.index(b"\x019=") + 1
        e9 = w.index(SOH, i9)
        lenv = w[i9 + 2:e9]
        shapes = [w[:i9 + 2] + b"0" * (32 - len(lenv)) + lenv + w[e9:],        # BodyLength of exactly 32 characters
                  w[:i9 + 2] + b"0" * 37 + lenv + w[e9:],                        # ... of 40
                  w[:i9 + 1], w[:i9 + 2], w[:e9],                                # truncated inside tag 9
                  w[:i9] + b"X5=A\x01" + w[i9:],                                # non-digit tag after BeginString
                  w[:i9] + b"\x01" + w[i9:], w[:i9] + b"9" + w[e9:],            # empty element / 9 without '='
                  w[:e9 + 1] + b"\x01" + w[e9 + 1:],                            # third element fails (harmless)
                  w[:i9 + 2] + b"0" * (31 - len(lenv)) + lenv + w[e9:]]          # 31 characters: still fits
        for sh in shapes:
            for pr in (primes if thorough else rng.sample(primes[:5], 3) + rng.sample(primers, 2)):
                cs.append(Case("%sSEQ %s %s %s" % (px, rng.choice(("s", "p")), pr, sh.hex() or "-"), "seq-stale"))

    # -- encode: one string field of growing size around the output[] boundary
    big = None
    for mt in ("D", "8", "0"):
        if mt in meta.msgs and string_fields(meta, mt):
            big = mt
            break
    if big:
        t = string_fields(meta, big)[0]
        flat = G.MsgGen(meta, rng, p_opt=0.0, max_elems=0)
        mt, hdr, body, trl = flat.message(big)
        body = [f for f in body if f.elems is None and f.fnum != t.fnum]
        base = len(b"35=%s\x01" % mt.encode()) + G.wire_estimate(hdr) + G.wire_estimate(body) + G.wire_estimate(trl) + len(str(t.fnum)) + 2
        edge = 8184 - base            # largest value length that still fits (msgLen = 8184)
        lens = [0, 1, 100, 2047, 2048, 5000, 8000, edge - 40, edge - 2, edge - 1, edge, edge + 1, edge + 2, edge + 8, edge + 33, edge + 100, 9000]
        if thorough:
            lens += list(range(edge - 20, edge + 40, 3)) + [12000, 20000]
        for ln in lens:
            if ln >= 0:
                b2 = body + [G.Fld(t.fnum, b"v" * ln)]
                cs.append(Case(px + "ENC " + G.ser_msg(mt, hdr, b2, trl), "enc-size"))
        # decode a long (valid) message and re-encode it
        for ln in (edge - 200, edge - 1, edge, edge + 1):
            if 0 < ln < 2048 * 4:
                # split over several string fields so that every value stays < 2048
                ss = string_fields(meta, big)[:6]
                per = ln // len(ss)
                b2 = [f for f in body if f.fnum not in [s.fnum for s in ss]]
                used = 0
                for j, s_ in enumerate(ss):
                    sz = per if j < len(ss) - 1 else ln - used
                    sz = min(sz, 2047)
                    used += sz
                    b2.append(G.Fld(s_.fnum, b"r" * sz))
                w = wire(meta, mt, hdr, b2, trl)
                cs.append(Case("%sREENC s %s" % (px, w.hex()), "reenc"))

    # -- UB in the date/time parsers inside otherwise valid messages (SendingTime is in every header)
    ts_bad = (b"20390101-00:00:00", b"20380119-03:14:08.000", b"20239901-00:00:00.000", b"20230001-00:00:00.000",
              b"2023-101-00:00:00.000", b"99999999-99:99:99.999", b"20231401-00:00:00", b"+0230101-00:00:00.000",
              b"20230101-0/:00:00", b"20230101 00:00:00.00/")
    date_bad = (b"20390101", b"20239901", b"20230001", b"203901", b"20231401", b"2023/101", b"\xff\xff\xff\xff\xff\xff\xff\xff", b"zzzzzz")
    time_bad = (b"/0:00:00", b"00:-0:00", b"00:00:+0.000", b"00:00:00./00")
    n = 0
    for _ in range(k(60, 300)):
        mt, hdr, body, trl, w = valid(rich)
        cands = []
        for owner, fs in (("header", hdr), (mt, body)):
            for f in fs:
                t = meta.trait(owner, f.fnum)
                ft = meta.fields.get(f.fnum, (0,))[0]
                if t is not None and f.elems is None and ft in (DT_TS, DT_TIME) + DT_DATES:
                    cands.append((f, ft))
        if not cands:
            continue
        f, ft = rng.choice(cands)
        txt = rng.choice(ts_bad if ft == DT_TS else time_bad if ft == DT_TIME else date_bad)
        if py_dt_ub(ft, txt) is not True:
            continue
        f.val = txt
        if add(wire(meta, mt, hdr, body, trl), "ub-date", mode="s", ub_ok=True):
            n += 1
        if n >= k(14, 80):
            break
    for kind, ft, texts in (("ts", DT_TS, ts_bad + (b"20230101-00:00:00.000", b"19700101-00:00:00", b"20380119-03:14:07", b"20231301-00:00:00",
                                                     b"20230101-00:00:00.0000", b"now", b"")),
                            ("time", DT_TIME, time_bad + (b"23:59:59.999", b"00:00:00", b"99:99:99", b"now", b"12:00:00.5")),
                            ("date", 24, date_bad + (b"20230101", b"202301", b"20371231", b"20380119", b"20380120", b"19700101", b"20231301"))):
        for txt in texts:
            if py_dt_ub(ft, txt) is not None:
                cs.append(Case(px + "DTPARSE %s %s" % (kind, txt.hex() or "-"), "dtparse"))
    for _ in range(k(30, 200)):
        kind, ft, ln = rng.choice((("ts", DT_TS, 17), ("ts", DT_TS, 21), ("time", DT_TIME, 8), ("time", DT_TIME, 12), ("date", 24, 8), ("date", 24, 6)))
        base = {17: b"20230615-12:30:45", 21: b"20230615-12:30:45.123", 8: b"12:30:45" if kind == "time" else b"20230615",
                12: b"12:30:45.123", 6: b"202306"}[ln]
        b2 = bytearray(base)
        for _ in range(rng.choice((1, 1, 2))):
            b2[rng.randrange(len(b2))] = rng.choice(b"0123456789/:-+ 9\xff")
        if py_dt_ub(ft, bytes(b2)) is not None:
            cs.append(Case(px + "DTPARSE %s %s" % (kind, bytes(b2).hex()), "dtparse"))

    # -- site probes
    for txt in (b"0", b"7", b"2147483599", b"2147483600", b"2147483647", b"2147483648", b"4294967295", b"99999999999999",
                b"-2147483648", b"-2147483649", b"-2147483647", b"--1", b"-+1", b"1e3", b"214748364\x7f", b"-214748364\x7f",
                b"-", b"-5", b"-0", b"+1", b" 1", b"1 ", b"0x10", b"\x80", b"1\x80", b"9" * 9, b"9" * 10, b"/", b"1/", b"", b"12\x0034"):
        cs.append(Case(px + "ATOI " + (txt.hex() or "-"), "atoi"))
    for _ in range(k(12, 60)):
        cs.append(Case(px + "ATOI " + bytes(rng.choice(b"0123456789-+ 9") for _ in range(rng.randint(1, 12))).hex(), "atoi"))
    for mis in (0, 1, 2, 3, 4, 5, 8):
        for ln in (0, 7, 8, 9, 64):
            cs.append(Case(px + "CHKSUM %d %s" % (mis, bytes(rng.randrange(256) for _ in range(ln)).hex() or "-"), "chksum"))


def gen_cases(rng, tier):
    built = _state.get("built") or build(tier)
    cs = []
    default = schemas(tier)[0]
    for schema in schemas(tier):
        meta = built["metas"][schema]
        px = "" if schema == default else "@%s " % schema
        gen_schema(rng, tier, meta, px, cs)
    return cs


# ------------------------------------------------------------------------------ classification
def _parts(case):
    built = _state["built"]
    default = next(iter(built["exes3"]))
    schema, rest = G.schema_of(case.line, default)
    w = rest.split(" ")
    return built["metas"][schema], w


def _dec_bytes(case):
    meta, w = _parts(case)
    if w[0] in ("DEC", "DECW", "REENC") and len(w) == 3:
        return meta, bytes.fromhex(w[2]) if w[2] != "-" else b""
    return meta, None


def nontrivial(case, r):
    meta, data = _dec_bytes(case)
    if data is not None:
        return len(data) >= 40 and r.split(" ")[0] in ("OK", "EXC", "OOB", "HANG", "UB")
    return r.split(" ")[0] in ("OK", "EXC", "OOB", "UB")


def fw_violates(meta, data):
    """a Length-typed token (other than BodyLength) directly followed by a run of >= 2049 digits:
    extract_element_fixed_width writes the 2049th digit past tag[2048]"""
    toks = tokens(data)
    for i, (tag, val) in enumerate(toks[:-1]):
        if tag and len(tag) < 12 and i >= 3:
            f = int(tag) % 65536
            if meta.fields.get(f, (None,))[0] == 2 and f != 9 and len(toks[i + 1][0]) >= 2049:
                return True
    return False


def run_violates(data, tcap=2048, vcap=2048):
    """negation of run_ok: a digit run >= tcap, or >= vcap bytes between an '=' and the next SOH."""
    if re.search(rb"\d{%d}" % tcap, data):
        return True
    for seg in data.split(SOH):
        i = seg.find(b"=")
        if i >= 0 and len(seg) - i - 1 >= vcap:
            return True
    return False


def hdr_violates(data):
    """negation of hdr_bounded: one of the first three tokens has >= 32 tag digits, or the
    BeginString value >= 2048 bytes, or the BodyLength / MsgType value >= 32 bytes."""
    rest = data
    for vcap in (2048, 32, 32):
        m = re.match(rb"(\d*)", rest)
        if len(m.group(1)) >= 32:
            return True
        rest = rest[m.end():]
        if not rest.startswith(b"="):
            return False
        i = rest.find(SOH)
        vlen = (len(rest) if i < 0 else i) - 1
        if vlen >= vcap:
            return True
        if i < 0:
            return False
        rest = rest[i + 1:]
    return False


def c_value_overflow(case, r, m):
    meta, data = _dec_bytes(case)
    return data is not None and r == "OOB decode" and run_violates(data)


def c_header_overflow(case, r, m):
    meta, data = _dec_bytes(case)
    return data is not None and r == "OOB extract_header" and hdr_violates(data)


def c_encode_overflow(case, r, m):
    meta, w = _parts(case)
    if r != "OOB encode":
        return False
    if w[0] == "ENC":
        mt, hdr, body, trl = G.parse_msg(w[1])
        est = len(b"35=%s\x01" % mt.encode()) + G.wire_estimate(hdr) + G.wire_estimate(body) + G.wire_estimate(trl)
        return est > 8184 - 64          # rendering may change a value's length by a few bytes
    if w[0] == "REENC":
        return len(bytes.fromhex(w[2])) > 8100
    return False


def hang_shape(meta, data):
    """Follow the group nesting the way decode_group does (a tag foreign to the innermost open group
    closes it and is looked at again one level up; a count > 0 opens the nested class) up to the
    first bytes extract_element rejects: True if at that point the innermost open group is of a
    class without mandatory member."""
    m35 = re.match(rb"\d*=[^\x01]*\x01\d*=[^\x01]*\x0135=([^\x01]*)\x01", data)
    bottom = ["header", m35.group(1).decode("latin1") if m35 else "", "trailer"]
    stack = []
    pos = 0
    while pos < len(data):
        m_ = re.match(rb"(\d*)=([^\x01]*)\x01", data[pos:])
        if not m_:
            return bool(stack) and not any(t.mandatory for t in meta.traits.get(stack[-1], []))
        pos += m_.end()
        if not m_.group(1) or len(m_.group(1)) > 11:
            tag = -1
        else:
            tag = int(m_.group(1)) % 2 ** 32 % 65536
        while stack and all(t.fnum != tag for t in meta.traits.get(stack[-1], [])):
            stack.pop()
        v = py_atoi_u32(m_.group(2))
        if 0 < v < 2 ** 31:
            for o in ([stack[-1]] if stack else bottom):
                sub = meta.groups.get(o, {}).get(tag)
                if sub is not None:
                    stack.append(sub)
                    break
    return False


def c_group_hang(case, r, m):
    """The input opens a group whose class has no mandatory member (count > 0) and, while that group
    is the innermost open one, presents bytes that extract_element rejects."""
    meta, data = _dec_bytes(case)
    return data is not None and r == "HANG" and hang_shape(meta, data)


def c_atoi_ub(case, r, m):
    meta, w = _parts(case)
    if r != "UB fast_atoi":
        return False
    if w[0] == "ATOI":
        return py_atoi_ub(bytes.fromhex(w[1]) if w[1] != "-" else b"")
    meta, data = _dec_bytes(case)
    if data is None:
        return False
    for tag, val in tokens(data):
        if tag and len(tag) < 12 and meta.fields.get(int(tag) % 65536, (None,))[0] in INT_TYPES and py_atoi_ub(val):
            return True
    return False


def c_datetime_ub(case, r, m):
    meta, w = _parts(case)
    if r != "UB datetime":
        return False
    if w[0] == "DTPARSE":
        return py_dt_ub({"ts": 22, "time": 23, "date": 24}[w[1]], bytes.fromhex(w[2]) if w[2] != "-" else b"") is True
    meta, data = _dec_bytes(case)
    if data is None:
        return False
    for tag, val in tokens(data):
        if tag and len(tag) < 12:
            ft = meta.fields.get(int(tag) % 65536, (None,))[0]
            if ft in (DT_TS, DT_TIME) + DT_DATES and py_dt_ub(ft, val) is True:
                return True
    return False


def c_fw_tag(case, r, m):
    meta, data = _dec_bytes(case)
    return data is not None and r == "OOB decode" and fw_violates(meta, data)


def c_pseudo_msgtype(case, r, m):
    meta, data = _dec_bytes(case)
    return data is not None and r == "CRASH pseudo-msgtype" and py_mtype(data) in PSEUDO


def c_chksum_align(case, r, m):
    meta, w = _parts(case)
    return r == "UB calc_chksum" and w[0] == "CHKSUM" and int(w[1]) % 4 != 0 and len(w[2]) // 2 >= 8


CLASSIFIERS = {"value-ge-capacity": c_value_overflow, "header-token-ge-capacity": c_header_overflow,
               "encoded-size-gt-output": c_encode_overflow, "group-hang-shape": c_group_hang,
               "fixed-width-tag-ge-2049": c_fw_tag, "msgtype-is-pseudo-entry": c_pseudo_msgtype, "fast-atoi-ub": c_atoi_ub, "datetime-parse-ub": c_datetime_ub, "datetime-tick-overflow": c_datetime_ub, "chksum-misaligned": c_chksum_align}


def extra_search(rng, seeds, tier):
    return gen_cases(rng, tier)[:2500]


def shrink(case):
    """Shorten a failing decode input: drop one whole token, or halve the longest run."""
    try:
        meta, w = _parts(case)
        if w[0] not in ("DEC", "REENC"):
            return []
        prefix = case.line[:len(case.line) - len(w[2])]
        data = bytes.fromhex(w[2]) if w[2] != "-" else b""
    except Exception:
        return []
    out = []
    parts = data.split(SOH)
    for i in range(len(parts) - 1):
        d = SOH.join(parts[:i] + parts[i + 1:])
        out.append(Case(prefix + (d.hex() or "-"), "shrink"))
    runs = sorted(re.finditer(rb"(.)\1{7,}", data, re.S), key=lambda m_: -(m_.end() - m_.start()))
    for m_ in runs[:2]:
        half = (m_.end() - m_.start()) // 2
        d = data[:m_.start() + half] + data[m_.end():]
        out.append(Case(prefix + (d.hex() or "-"), "shrink"))
    return out[:24]


def extra_evidence(ctx):
    """Which hypotheses of the theorems the compiled schemas meet (driver's SCHEMA line), and the
    distribution of result classes."""
    built = _state["built"]
    out = {}
    try:
        lines = []
        default = next(iter(built["exes3"]))
        for s in built["exes3"]:
            lines.append(("" if s == default else "@%s " % s) + "SCHEMA\t")
        p = subprocess.run(built["driver"], input=("\n".join(lines) + "\n").encode(), stdout=subprocess.PIPE, timeout=120)
        out["schema_hypotheses"] = dict(zip(built["exes3"], [l.split("\t")[0] for l in p.stdout.decode().split("\n") if l]))
    except Exception as e:
        out["schema_hypotheses"] = "error: %s" % e
    classes = {}
    for r in ctx["impl"]:
        w = r.split(" ")
        key = " ".join(w[:2]) if w[0] in ("OOB", "UB", "EXC", "CRASH") else w[0]
        classes[key] = classes.get(key, 0) + 1
    out["result_classes"] = classes
    return out
