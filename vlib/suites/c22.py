"""C22 — heartbeat and test-request supervision follows the protocol."""
import subprocess
import threading

from vlib import build as B
from vlib import core
from vlib.core import Case
from vlib.suites import _sess as S

ID = "C22"
LEVEL = "proof"
TECHNIQUE = ("Coq proof (case analysis of the supervision tick with exact integer thresholds; monadic state invariants over the "
             "whole inbound path; induction over timelines of ticks / receptions / sends) about the shared hand-written Gallina "
             "session model (coq/Sess, transcription of runtime/session.cpp); model tied to the code by differential execution: "
             "the real FIX8::Session over an in-memory socket under a virtual clock against the extracted model, byte for byte")
LEVEL_TEXT = ("Theorems for every schema satisfying the run-time-checked hypothesis schema_ok, every session state, every "
              "instant and every H >= 1: c22_tick_exact (what a supervision tick sends, in order, and the new state), c22_heartbeat "
              "(Heartbeat without TestReqID first on the wire when floor(now-last_sent) >= H), c22_testreq (TestRequest and state "
              "test_request_sent when not pending and floor(now-last_recv) > H+H/5), c22_only (the converses), c22_testreq_answer "
              "(Heartbeat echoing the TestReqID), c22_hb_resets, c22_inbound_invariant (the whole inbound path never enters "
              "test_request_sent and keeps the two timestamps honest), c22_timestamps_trace (the timestamps are the observable "
              "instants, for all timelines), c22_trace_heartbeat, c22_logout_partial / c22_trace_logout_partial (the tick meets the "
              "rule when both ways of measuring the period agree; a supervision Logout only from test_request_sent entered by an "
              "earlier tick and only after more than the period of silence), and c22_logout_refuted (F27: the Logout follows the "
              "TestRequest at the very next tick).")
LEVEL_NOTE = ("Trusted: Coq kernel, extraction, the hand transcription coq/Sess/*.v (checked by the correspondence run), the "
              "harness (virtual clock interposition, in-memory socket, timer thread stopped so that heartbeat_service runs only "
              "on TICK). The theorems are about the model; the defect F27 is listed as a known finding.")
DESIGN_REF = "DESIGN.md section 4, C22"
PROPS_FILE = "Props/Properties_C22.v"
COQ_TARGETS = ["Props/Properties_C22.vo", "Extract/Extract_C22.vo"]
TRUSTED_BASE = ["Coq 8.16.1 kernel (coqc), vm_compute only for closed witnesses",
                "Extraction with ExtrOcamlBasic, no Extract Constant; OCaml 4.13.1",
                "hand-written session model coq/Sess/*.v of runtime/session.cpp (heartbeat_service, handle_test_request, "
                "handle_heartbeat, send_process, process), tied by differential execution on whole traces",
                "ocaml/prelude.ml + ocaml/c22_driver.ml, harness/h_sess.cpp + sess_harness.hpp + vsock.hpp + vclock.cpp, vlib",
                "g++ 12 -fsanitize=address,undefined"]
ASSUMPTIONS = ["heartbeat_service is driven by the harness (TICK) instead of the 1 s timer thread; the clock is virtual",
               "threaded process model; SessionConfig absent (no schedules); authenticate() = true",
               "H >= 1 (with H = 0 truncation toward zero and floor differ for a clock that runs backwards)"]
RULE = ("for every H in 1..60 and both roles: ticks aimed at the exact thresholds (last_sent + H s and last_recv + (H+H/5+1) s, "
        "each -1 s, -1 ns, +0, +1 ns, +999999999 ns), TestRequest followed by the next tick 1 s later (F27), by a tick after more "
        "than the period, by an answering Heartbeat, by other traffic; inbound TestRequests with arbitrary ids in every phase "
        "(before logon, continuous, pending, stopped); random timelines (1 s ticks and irregular steps, inbound heartbeats / test "
        "requests / application messages, sends, clock running backwards, acceptor adopting another HeartBtInt, silent_disconnect, "
        "restarts) and a malformed stream (bad checksum, missing TestReqID, wrong sequence numbers / CompIDs, inbound Logout, peer close, stop). "
        "non-trivial = some TICK put a message on the wire or an inbound TestRequest was answered; distinct = distinct case lines")

NSHARDS = 6
NS = 10**9
T0 = S.T0


def build(tier):
    return S.build_sess()


def run_impl(built, cases, tier):
    """The harness costs ~20 ms per session instance: shard the cases over a few processes."""
    lines = [c.line for c in cases]
    n = min(NSHARDS, max(1, len(lines) // 50))
    res = [None] * len(lines)

    def work(k):
        idx = list(range(k, len(lines), n))
        out = core.run_lines(built["impl"], [lines[i] for i in idx], env=built.get("env"),
                             per_case_timeout=built.get("per_case_timeout", 30), timeout_per_batch=1500)
        for i, r in zip(idx, out):
            res[i] = r

    core.run_dir()
    ths = [threading.Thread(target=work, args=(k,)) for k in range(n)]
    for t in ths:
        t.start()
    for t in ths:
        t.join()
    return res


def period(h):
    return h + h // 5


# ------------------------------------------------------------------------------------ timelines
class TL:
    """One timeline: absolute virtual instants; keeps a rough picture of what the real session does
    (only to aim the generators; nothing is checked against it)."""

    def __init__(self, rng, role, hb, persist="none", logon_hb=None, t0=T0, **kw):
        self.rng = rng
        self.h = S.Hist(rng, role, persist, hb=hb, asa=0, t=(t0 if t0 != T0 else None), **kw)
        self.h.now = t0
        self.role = role
        self.H = hb
        self.now = t0
        self.ls = t0 if role == "I" else 0      # the initiator's Logon goes out at START
        self.lr = 0
        self.pending = False
        self.down = False
        self.logon_hb = logon_hb

    # -- primitive operations
    def at(self, t):
        """Move the clock (CLOCK) to the absolute instant t."""
        if t != self.now:
            self.h.ops.append("CLOCK %d" % t)
            self.now = t
            self.h.now = t

    def logon(self):
        hb = self.H if self.logon_hb is None else self.logon_hb
        self.h.logon_in(hb=hb)
        self.lr = self.now
        if self.role == "A":
            self.ls = self.now
            self.H = hb

    def tick(self, t):
        self.h.ops.append("TICK %d" % t)
        self.now = t
        self.h.now = t
        if self.down:
            return
        if (t - self.ls) // NS >= self.H:
            self.ls = t
        if (t - self.lr) // NS > period(self.H):
            self.ls = t
            if self.pending:
                self.down = True
            else:
                self.pending = True

    def inb(self, mtype, body=(), **kw):
        self.h.inb(mtype, body, **kw)
        if not self.down:
            self.lr = self.now
            if mtype == "0":
                self.pending = False
            if mtype == "1":
                self.ls = self.now

    def send_app(self):
        self.h.send(self.h.app_spec())
        if not self.down:
            self.ls = self.now

    def line(self):
        return self.h.line()


def start(rng, role, hb, **kw):
    """START + logon exchange at a random sub-second offset."""
    t0 = T0 + (rng.randrange(0, 86400) * NS + rng.randrange(1000) * 10**6 if rng.random() < 0.5 else 0)
    tl = TL(rng, role, hb, t0=t0, **kw)
    if role == "I":
        tl.at(t0 + rng.randrange(1, 900) * 10**6)
    tl.logon()
    return tl


DELTAS = [-NS, -1, 0, 1, NS - 1]


def hb_boundary(rng, role, H, d):
    """Nothing sent since `ls`; the peer stays audible; one tick at ls + H s + d."""
    tl = start(rng, role, H)
    target = tl.ls + H * NS + d
    # keep last_recv fresh: an inbound heartbeat shortly before the tick
    tl.at(max(tl.now, target - rng.randrange(1, 400) * 10**6 - (NS if d < 0 else 0)))
    tl.inb("0")
    if target < tl.now:
        target = tl.now
    tl.tick(target)
    tl.tick(target + NS)
    return tl.line()


def quiet_boundary(rng, role, H, d, follow):
    """Nothing received since `lr`; one tick at lr + (period+1) s + d, then the follow-up."""
    tl = start(rng, role, H)
    if rng.random() < 0.5:       # keep the outbound side busy so that only the TestRequest is due
        tl.at(tl.lr + period(H) * NS - rng.randrange(0, 500) * 10**6)
        tl.send_app()
    tp = tl.lr + (period(H) + 1) * NS + d
    tl.tick(tp)
    if follow == "next":          # F27: the very next tick
        tl.tick(tp + NS)
        tl.tick(tp + 2 * NS)
    elif follow == "period":      # legitimate: more than the period later
        d2 = rng.choice([0, 1, NS - 1, 3 * NS])
        tl.tick(tp + (period(H) + 1) * NS + d2)
        tl.tick(tp + (period(H) + 2) * NS + d2)
    elif follow == "short":       # one ns short of the period (still F27-shaped)
        tl.tick(tp + (period(H) + 1) * NS - 1)
    elif follow == "answer":
        tl.at(tp + rng.randrange(1, 900) * 10**6)
        tl.inb("0", [(112, "TEST")] if rng.random() < 0.7 else [])
        tl.tick(tp + NS)
        t2 = tl.lr + (period(H) + 1) * NS
        tl.tick(t2 - 1)
        tl.tick(t2)
    elif follow == "traffic":     # something else than the answer arrives: stays pending
        tl.at(tp + rng.randrange(1, 900) * 10**6)
        if rng.random() < 0.5:
            tl.inb("D", S.app_fields(rng, "D", tl.now))
        else:
            tl.inb("1", [(112, S.word(rng))])
        tl.tick(tp + NS)
        t2 = tl.lr + (period(H) + 1) * NS
        tl.tick(t2 - 1)
        tl.tick(t2)
        tl.tick(t2 + NS)
    return tl.line()


WEIRD_IDS = ["TEST", "x", "a=b", "112=7", "id with spaces", "\xe9\xff", "0", "T" * 40, "=", "10=000"]


def testreq_in(rng, role, H, phase):
    if phase == "prelogon":
        tl = TL(rng, role, H)
        tl.at(T0 + rng.randrange(1, 900) * 10**6)
        tl.inb("1", [(112, rng.choice(WEIRD_IDS))])
        tl.tick(tl.now + NS)
        return tl.line()
    tl = start(rng, role, H)
    if phase == "pending":
        tl.tick(tl.lr + (period(H) + 1) * NS)
        tl.at(tl.now + rng.randrange(1, 900) * 10**6)
    elif phase == "stopped":
        tl.h.ops.append("STOP")
        tl.down = True
    else:
        tl.at(tl.now + rng.randrange(1, H * 1000) * 10**6)
    for _ in range(rng.randint(1, 3)):
        tl.inb("1", [(112, rng.choice(WEIRD_IDS) if rng.random() < 0.7 else S.word(rng))])
    tl.tick(tl.now + NS)
    return tl.line()


def random_timeline(rng, role, H, steps=None):
    kw = {}
    if rng.random() < 0.08:
        kw["sd"] = 1
    if rng.random() < 0.15:
        kw["persist"] = rng.choice(["mem", "file"]) if role == "I" else "file"
    logon_hb = None
    if role == "A" and rng.random() < 0.3:
        logon_hb = rng.randint(1, 60)
    tl = start(rng, role, H, logon_hb=logon_hb, **kw)
    H = tl.H
    mode = rng.choice(["sec", "sec", "irregular", "mixed"])
    n = steps if steps is not None else rng.randint(6, 28)
    for _ in range(n):
        r = rng.random()
        if tl.pending and not tl.down and rng.random() < 0.6:
            # the peer answers before the next tick (otherwise F27 ends the session at once)
            tl.at(tl.now + rng.randrange(1, 990) * 10**6)
            tl.inb("0", [(112, "TEST")] if rng.random() < 0.7 else [])
        elif r < 0.55:
            if mode == "sec" or (mode == "mixed" and rng.random() < 0.5):
                tl.tick(tl.now + NS)
            else:
                k = rng.randrange(6)
                if k == 0:
                    tl.tick(tl.now + rng.randrange(1, 2000) * 10**6)
                elif k == 1:
                    tl.tick(max(tl.now, tl.ls + H * NS + rng.choice(DELTAS)))
                elif k == 2:
                    tl.tick(max(tl.now, tl.lr + (period(H) + 1) * NS + rng.choice(DELTAS)))
                elif k == 3:
                    tl.tick(tl.now + rng.randint(1, H + H // 5 + 2) * NS + rng.randrange(1000) * 10**6)
                elif k == 4:
                    tl.tick(tl.now + H * NS // 2 + rng.randrange(1000))
                else:
                    tl.tick(tl.now)
        elif r < 0.75:
            tl.at(tl.now + rng.choice([rng.randrange(1, 1500) * 10**6, rng.randrange(1, H + 1) * NS]))
            k = rng.random()
            if k < 0.55:
                tl.inb("0", [(112, "TEST")] if tl.pending and rng.random() < 0.7 else [])
            elif k < 0.75:
                tl.inb("1", [(112, S.word(rng))])
            else:
                t = rng.choice(["D", "8", "F"])
                tl.inb(t, S.app_fields(rng, t, tl.now))
        elif r < 0.9:
            tl.at(tl.now + rng.randrange(1, 1500) * 10**6)
            tl.send_app()
        elif r < 0.93:
            tl.at(tl.now - rng.randrange(1, 3 * NS))      # the clock runs backwards
        elif r < 0.95 and kw.get("persist") == "file":
            tl.h.restart()
            tl.ls = tl.now if role == "I" else 0
            tl.lr = 0
            tl.pending = tl.down = False
            tl.H = tl.h.hb
            tl.logon()
            H = tl.H
        else:
            tl.tick(tl.now + NS)
    return tl.line()


def prelogon(rng, role, H):
    """Ticks in the logon phases (the harness ticks although the real timer is not yet scheduled)."""
    tl = TL(rng, role, H)
    t = T0 + rng.choice([0, 1, NS - 1, NS, H * NS - 1, H * NS])
    tl.tick(t)
    if rng.random() < 0.6:
        tl.at(t + rng.randrange(1, 900) * 10**6)
        tl.logon()
    tl.tick(tl.now + NS)
    tl.tick(tl.now + NS)
    return tl.line()


def malformed(rng, role, H):
    tl = start(rng, role, H)
    pend = rng.random() < 0.6
    if pend:
        tl.tick(tl.lr + (period(H) + 1) * NS)
        tl.at(tl.now + rng.randrange(1, 900) * 10**6)
    else:
        tl.at(tl.now + rng.randrange(1, 900) * 10**6)
    k = rng.randrange(8)
    if k == 0:
        tl.inb("0", bad_chk=True)                       # rejected: does not count as an answer
    elif k == 1:
        tl.inb("1", [])                                 # TestRequest without TestReqID
    elif k == 2:
        tl.inb("0", seq=tl.h.next_in + rng.randint(1, 3))
    elif k == 3:
        tl.inb("0", seq=max(1, tl.h.next_in - 1), bump=False)
    elif k == 4:
        tl.h.ops.append("IN " + S.fixmsg("0", tl.h.next_in, "XXX", tl.h.me, now=tl.now).hex())
        tl.h.next_in += 1
    elif k == 5:
        tl.h.ops.append("PEERCLOSE")
        tl.down = True
    elif k == 6:
        tl.h.ops.append("STOP")
        tl.down = True
    else:
        tl.inb("5", [])                                 # the peer logs out
    tl.tick(tl.now + NS)
    tl.tick(tl.lr + (period(H) + 1) * NS)
    tl.tick(tl.now + NS)
    return tl.line()


def gen_cases(rng, tier):
    cs = []
    thorough = tier == "thorough"

    def add(line, cls):
        cs.append(Case(line, cls))

    for H in range(1, 61):
        for role in "IA":
            mine = thorough or H <= 4 or (H % 2 == 0) == (role == "A")     # quick: alternate the roles over H
            if thorough or (mine and (H <= 6 or H % 3 != 1)):
                for d in (DELTAS if thorough or H <= 10 else [-1, 0, NS - 1]):
                    add(hb_boundary(rng, role, H, d), "hb-boundary")
            if mine:
                for d in (DELTAS if thorough or H <= 6 or H % 10 == 0 else [-1, 0]):
                    add(quiet_boundary(rng, role, H, d, "none"), "quiet-boundary")
                add(quiet_boundary(rng, role, H, rng.choice([0, 1, NS - 1]), "period"), "testreq-then-period")
                add(quiet_boundary(rng, role, H, 0, "answer"), "testreq-answered")
                add(quiet_boundary(rng, role, H, rng.choice([0, 1, NS - 1]), "traffic"), "testreq-then-traffic")
                if thorough or H % 4 <= 1 or H <= 5:
                    add(quiet_boundary(rng, role, H, rng.choice([0, 1, NS - 1]), "next"), "testreq-then-next-tick")
                if thorough or H % 6 == 2:
                    add(quiet_boundary(rng, role, H, 0, "short"), "testreq-then-short")
            for _ in range(6 if thorough else (2 if H <= 10 else 1)):
                add(random_timeline(rng, role, H), "random-timeline")
        role = rng.choice("IA")
        add(testreq_in(rng, role, H, rng.choice(["continuous", "continuous", "pending", "prelogon", "stopped"])), "testreq-in")
        add(malformed(rng, rng.choice("IA"), H), "malformed")
        if H % 3 == 0 or thorough:
            add(prelogon(rng, rng.choice("IA"), H), "prelogon")
    # long stretches of 1 s ticks with an audible peer: periodic heartbeats
    for H in ([1, 2, 3, 5, 10] if not thorough else [1, 2, 3, 4, 5, 7, 10, 15, 30]):
        for role in "IA":
            tl = start(rng, role, H)
            t = (tl.now // NS) * NS + NS + rng.randrange(1000) * 10**6
            for i in range(4 * H + 8):
                tl.tick(t + i * NS)
                if i % max(1, H) == H // 2:
                    tl.at(tl.now + 10**8)
                    tl.inb("0")
            add(tl.line(), "one-second-ticks")
    return cs


# ------------------------------------------------------------------------------------ reading traces
def steps_of(case_line, result):
    ops = case_line.split("|")
    steps = result.split(" | ")
    return ops, steps


def out_types(step):
    res = []
    for it in step.split(";"):
        if it.startswith("OUT "):
            try:
                raw = bytes.fromhex(it[4:])
            except ValueError:
                continue
            f = dict(p.split(b"=", 1) for p in raw.split(b"\x01") if b"=" in p)
            res.append((f.get(b"35", b"?").decode("latin-1"), f))
    return res


def nontrivial(case, r):
    ops, steps = steps_of(case.line, r)
    for o, s in zip(ops, steps):
        if o.startswith("TICK") and "OUT " in s:
            return True
        if o.startswith("IN ") and any(t == "0" and b"112" in f for t, f in out_types(s)):
            return True
    return False


_DRIVER = {}


def first_bad(case_line, result):
    """Index of the first step at which the extracted oracle c22_step fails (driver --first-bad)."""
    if "argv" not in _DRIVER:
        b = S.build_sess()
        _DRIVER["argv"] = [B.ocaml_driver(ID)] + b["driver_args"] + ["--first-bad"]
    p = subprocess.run(_DRIVER["argv"], input=(case_line + "\t" + result + "\n").encode(), stdout=subprocess.PIPE,
                       stderr=subprocess.PIPE, timeout=120)
    try:
        return int(p.stdout.decode().strip())
    except ValueError:
        return -1


def c_next_tick_logout(case, r, m):
    """F27, the negation of the hypothesis of c22_logout_partial: the oracle's first (and only examined)
    violation is a TICK that emits the supervision Logout although the TestRequest, sent at an earlier TICK
    with nothing received since, has been out for no more than the period."""
    ops, steps = steps_of(case.line, r)
    if len(ops) != len(steps):
        return False
    j = first_bad(case.line, r)
    if j < 0 or j >= len(ops) or not ops[j].startswith("TICK "):
        return False
    if [t for t, _ in out_types(steps[j])][-1:] != ["5"]:
        return False
    # the tick that sent the TestRequest: the latest earlier TICK with a TestRequest on the wire
    i = j - 1
    while i >= 0 and not (ops[i].startswith("TICK ") and any(t == "1" for t, _ in out_types(steps[i]))):
        if ops[i].startswith("IN ") and "RET " in steps[i]:
            return False                       # something was received in between
        if ops[i].startswith(("START", "RESTART")):
            return False
        i -= 1
    if i < 0:
        return False
    tp, tj = int(ops[i].split()[1]), int(ops[j].split()[1])
    # interval in force: START hb=, or the HeartBtInt adopted by an acceptor
    H = None
    for k in range(i, -1, -1):
        if ops[k].startswith("START"):
            toks = ops[k].split()
            role = toks[1]
            H = 30
            for t in toks[3:]:
                if t.startswith("hb="):
                    H = int(t[3:])
            if role == "A":
                for q in range(k + 1, i):
                    if ops[q].startswith("IN ") and any(t == "A" for t, _ in out_types(steps[q])):
                        raw = bytes.fromhex(ops[q].split()[1].split(",")[0])
                        f = dict(p.split(b"=", 1) for p in raw.split(b"\x01") if b"=" in p)
                        if f.get(b"35") == b"A" and f.get(b"108", b"").isdigit():
                            H = int(f[b"108"])
            break
    if H is None:
        return False
    return (tj - tp) // NS <= period(H)


CLASSIFIERS = {"next-tick-logout": c_next_tick_logout}


def extra_search(rng, seeds, tier):
    out = gen_cases(rng, "quick")
    rng.shuffle(out)
    return out[:1500]


def shrink(case):
    ops = case.line.split("|")
    out = []
    for k in range(len(ops) - 1, 1, -1):
        cand = ops[:k] + ops[k + 1:]
        out.append(Case("|".join(cand), "shrink"))
    if len(ops) > 3:
        out.append(Case("|".join(ops[:-1]), "shrink"))
    return out[:12]
