"""C08 — numeric field text conversions are exact inverses (itoa / fast_atoi / modp_dtoa / fast_atof)."""
import math
import re
import struct
from fractions import Fraction

from vlib import build as B
from vlib.core import Case, run_lines

ID = "C08"
LEVEL = "proof"
TECHNIQUE = ("Coq proofs (induction on the digit loops; Flocq binary64 for the float routines) about hand-written "
             "Gallina models of itoa<int>/itoa<unsigned>/fast_atoi<T>/modp_dtoa/fast_atof; models tied to the code by "
             "differential execution (extracted OCaml vs the real templates/functions under ASan/UBSan, texts and "
             "double bit patterns compared exactly); oracle = canonical decimal / exact inverse for integers, correct "
             "rounding and half-ulp distance in exact integer arithmetic for doubles")
LEVEL_TEXT = ("Integers (fast_atoi as of a8219b1 + 1965750: sign honoured, unsigned accumulator), full strength: for EVERY int32 v, "
              "INT_MIN and INT_MAX included, the modelled itoa yields the canonical decimal text and the modelled fast_atoi<int> "
              "parses it back to v; every uint32 likewise; fast_atoi is total and free of undefined operations on every text and "
              "all three instantiations return the value whenever the text is a canonical decimal of the type; "
              "witnesses that the routine before the repair failed (-5 -> -25, signed overflow on INT_MAX).  Doubles: the general "
              "round-trip law is refuted by kernel-checked witnesses (double rounding onto an exact half, inexact parser, "
              "exponential format and int overflow just below 2^31; the tie-branch roll-over only for the code before a6c4c45); proved: every integral double below 2^31 renders as its "
              "decimal and parses back bit-exactly at every precision 0..9 (accepted by the oracle); for every finite double every "
              "rendered text has the shape [-]digits[.digits] with 1..p fraction digits and inside the 2^31-1 threshold a text is "
              "always produced; the stage's frac is < 10^p and the text denotes exactly (whole*10^p+frac)/10^p; whenever the tie test "
              "diff == 0.5 is false the TEXT is the correctly rounded decimal (precision 1..9); precision 0 is always correctly "
              "rounded (half-even).")
LEVEL_NOTE = ("Trusted: Coq kernel, Flocq 4.1.0 (binary64 operations; its Reals axioms), extraction (ExtrOcamlBasic), the "
              "hand transcriptions (checked by the correspondence run), x86-64 SSE2 double arithmetic (round to nearest "
              "even, no x87 excess precision, no FMA contraction), char signed; one fully sanitized harness build "
              "(ASan + UBSan incl. shift and signed-overflow checks): any sanitizer report inside fast_atoi is a failure.")
DESIGN_REF = "DESIGN.md section 4, C08; findings F01 (fixed by a8219b1; accumulator unsigned since 1965750), F02 (fixed by a6c4c45), F03 (section 5)"
PROPS_FILE = "Props/Properties_C08.v"
COQ_TARGETS = ["Props/Properties_C08.vo", "Extract/Extract_C08.vo"]
TRUSTED_BASE = [
    "Coq 8.16.1 kernel (coqc), vm_compute only",
    "Flocq 4.1.0 IEEE754.BinarySingleNaN/Binary/Bits (binary64 operations and bit decoding); float theorems depend on "
    "the Coq Reals axioms ClassicalDedekindReals.sig_forall_dec, ClassicalDedekindReals.sig_not_dec, "
    "FunctionalExtensionality.functional_extensionality_dep, Classical_Prop.classic (listed by Print Assumptions); the integer "
    "theorems are axiom-free",
    "Extraction with ExtrOcamlBasic, no Extract Constant; OCaml 4.13.1",
    "hand-written models coq/C08/NumInt.v (itoa<int>, itoa<unsigned>, fast_atoi<T> of include/fix8/f8utils.hpp) and "
    "coq/C08/NumFloat.v (modp_dtoa of runtime/modp_numtoa.c, fast_atof of f8utils.hpp), tied by differential execution",
    "ocaml/prelude.ml + ocaml/c08_driver.ml (text and bit-pattern conversion), harness/h_c08.cpp, vlib (generators, comparison, "
    "finding classifiers in vlib/suites/c08.py)",
    "g++ 12, x86-64 SSE2 arithmetic; harness built with the framework's default sanitizer flags (no -fwrapv): UBSan reports "
    "signed overflow / invalid shifts in the fast_atoi template",
]
ASSUMPTIONS = [
    "double arithmetic of the build is IEEE binary64 round-to-nearest-even without excess precision or fused multiply-add",
    "the in-place character reversal at the end of itoa/modp_dtoa is modelled as list reversal",
    "for |value| > 2^31-1 modp_dtoa calls sprintf(\"%e\"): glibc's output is not modelled, both sides are reduced to the token EXP",
    "static_cast<int>(unsigned) in fast_atoi is the two's complement reinterpretation (implementation-defined, gcc/x86-64)",
]
RULE = ("integers: boundaries (0, +-1, INT_MIN/MAX, UINT_MAX, 65535/6), powers of ten and of two +-1, random values of every "
        "digit count, both signs; raw parser texts (digits, signs, leading zeros, other bytes, SOH-terminated); doubles: for each "
        "precision 0..9 decimal grid points k*10^-p +-{0,1,2} ulp, half-way points (k+1/2)*10^-p +-{0,1,2} ulp, runs of nines, "
        "exact binary fractions, integral doubles, the 2^31 threshold, random doubles below 2^31, plus out-of-domain values "
        "(>= 2^31, inf, nan, precision outside 0..9) and raw parser texts incl. exponents and malformed bytes. "
        "non-trivial = integer with >= 2 digits / parser text >= 2 bytes / non-zero in-domain double; distinct = distinct case lines")

def build(tier):
    # one fully sanitized build (framework default flags): since a8219b1 nothing needs -fwrapv any more
    return {"impl": [B.harness("h_c08", runtime=["modp_numtoa.c"])]}


UB_RE = re.compile(r"([^\s:]+):(\d+):\d+: (runtime error: [^\n]*)")


def run_batch(argv, lines):
    """Line protocol with cheap crash isolation.  The harness answers every case with one flushed line,
    so when the process dies the culprit is the first case without an answer; its sanitizer report is on
    stderr.  UBSan's stack trace (seconds of symbolizing per report) is switched off: the report line
    itself carries file:line.  Result format as vlib.core.run_lines: 'CRASH <report> at <file>:<line>'."""
    import os
    import subprocess
    env = dict(os.environ)
    env["ASAN_OPTIONS"] = "detect_leaks=0:abort_on_error=0:halt_on_error=1:allocator_may_return_null=1"
    env["UBSAN_OPTIONS"] = "print_stacktrace=0:halt_on_error=1"
    out = []
    while len(out) < len(lines):
        rest = lines[len(out):]
        try:
            p = subprocess.run(argv, input=("\n".join(rest) + "\n").encode(), stdout=subprocess.PIPE,
                               stderr=subprocess.PIPE, timeout=600, env=env)
        except subprocess.TimeoutExpired:
            # fall back to the generic runner (isolates hangs one by one)
            return out + run_lines(argv, rest)
        got = p.stdout.decode(errors="replace").split("\n")
        got.pop()
        got = got[:len(rest)]
        out += got
        if len(got) < len(rest):
            err = p.stderr.decode(errors="replace")
            m = UB_RE.search(err)
            if m:
                f = m.group(1)
                f = os.path.relpath(f, B.REPO) if f.startswith(B.REPO) else f
                out.append("CRASH %s at %s:%s" % (re.sub(r"\s+", " ", m.group(3))[:160], f, m.group(2)))
            else:
                m = re.search(r"ERROR: AddressSanitizer: [a-z\-]+", err)
                out.append("CRASH " + (m.group(0) if m else "exit %d" % p.returncode))
    return out


def run_impl(built, cases, tier):
    return run_batch(built["impl"], [c.line for c in cases])


# ------------------------------------------------------------------------------ helpers

def bits_of(d):
    return struct.unpack("<Q", struct.pack("<d", d))[0]


def dbl_of(bits):
    return struct.unpack("<d", struct.pack("<Q", bits & (2 ** 64 - 1)))[0]


def hx(d):
    return "%016x" % bits_of(d)


def step(d, n):
    """n ulps away from d (n may be negative), staying finite"""
    b = bits_of(d)
    if d == 0.0:
        b = 0
        mag = abs(n)
        return dbl_of(mag) if n >= 0 else -dbl_of(mag)
    sign = b >> 63
    mag = b & (2 ** 63 - 1)
    mag = max(0, min(0x7fefffffffffffff, mag + n))
    return dbl_of((sign << 63) | mag)


def I(v):
    return Case("itoa %d" % v, "itoa")


def U(v):
    return Case("utoa %d" % v, "utoa")


def A(ty, term, text, cls="atoi"):
    if isinstance(text, str):
        text = text.encode("latin1")
    assert 0 not in text
    return Case("atoi %s %d %s" % (ty, term, text.hex() or "-"), cls)


def D(p, d, cls):
    return Case("dtoa %d %s" % (p, hx(d)), cls)


def F(text, cls="atof"):
    if isinstance(text, str):
        text = text.encode("latin1")
    assert 0 not in text
    return Case("atof %s" % (text.hex() or "-"), cls)


# ------------------------------------------------------------------------------ generators

INT_MIN, INT_MAX, UINT_MAX = -2 ** 31, 2 ** 31 - 1, 2 ** 32 - 1


def rand_digits(rng, nd):
    if nd == 1:
        return rng.randrange(0, 10)
    return rng.randrange(10 ** (nd - 1), 10 ** nd)


def gen_int(rng, tier):
    thorough = tier == "thorough"
    cs = []
    vals = {0, 1, -1, 9, -9, 10, -10, 11, -11, INT_MIN, INT_MIN + 1, INT_MAX, INT_MAX - 1, -2115098112,
            -2115098111, -2115098113, 2115098112}
    for k in range(1, 10):
        for d in (-1, 0, 1):
            vals.add(10 ** k + d)
            vals.add(-(10 ** k + d))
    for k in range(1, 31):
        for d in (-1, 0, 1):
            vals.add(2 ** k + d)
            vals.add(-(2 ** k + d))
    for k in range(1, 10):          # repdigits: every digit value in every position
        for dg in range(1, 10):
            vals.add(int(str(dg) * k))
            vals.add(-int(str(dg) * k))
    for v in sorted(vals):
        if INT_MIN <= v <= INT_MAX:
            cs.append(I(v))
    for _ in range(2000 if thorough else 250):
        nd = rng.randrange(1, 11)
        v = rand_digits(rng, nd)
        if v > INT_MAX:
            v = rng.randrange(10 ** 9, INT_MAX + 1)
        cs.append(I(v if rng.random() < 0.6 else -v))
    for _ in range(500 if thorough else 60):
        cs.append(I(rng.randrange(INT_MIN, INT_MAX + 1)))
    # the edge that used to overflow in the last digit (v + 48 > INT_MAX from 2147483600 on) and the
    # accumulate-down edge at INT_MIN
    for v in (2147483590, 2147483598, 2147483599, 2147483600, 2147483601, 2147483609, 2147483610, 2147483639,
              2147483640, 2147483646, -2147483590, -2147483599, -2147483600, -2147483601, -2147483639, -2147483640,
              -2147483641, -2147483647):
        cs.append(I(v))
    for _ in range(200 if thorough else 25):
        cs.append(I(rng.randrange(2147483600, INT_MAX + 1)))
        cs.append(I(-rng.randrange(2147483600, INT_MAX + 2)))
    for _ in range(300 if thorough else 40):
        cs.append(I(rng.choice((1, -1)) * rng.randrange(10 ** 9, 2147483600)))
    uvals = {0, 1, 9, 10, UINT_MAX, UINT_MAX - 1, 2 ** 31, 2 ** 31 - 1, 2 ** 31 + 1, 4 * 10 ** 9, 4294967290}
    for k in range(1, 10):
        for d in (-1, 0, 1):
            uvals.add(10 ** k + d)
    for v in sorted(uvals):
        cs.append(U(v))
    for _ in range(1500 if thorough else 150):
        nd = rng.randrange(1, 11)
        v = rand_digits(rng, nd)
        if v > UINT_MAX:
            v = rng.randrange(10 ** 9, UINT_MAX + 1)
        cs.append(U(v))
    return cs


def gen_atoi(rng, tier):
    thorough = tier == "thorough"
    cs = []
    fixed = ["0", "1", "9", "10", "007", "0000", "65535", "65536", "65537", "99999", "2147483647", "2147483648",
             "4294967295", "4294967296", "4294967297", "9999999999", "12345678901", "-1", "-5", "-10", "-2147483648",
             "-2147483647", "-2115098112", "-2147483649", "-9999999999", "-4294967296", "-4294967295", "99999999999999999999",
             "-99999999999999999999", "-007", "-00", "-0", "+5", " 5", "5 ", "1.5", "12a", "a", "-", "--1", "1-1", "", "3e2",
             "\x7f", "\xff1", "1\x80", "\xb0"]
    for t in fixed:
        for ty in "ius":
            cs.append(A(ty, 0, t))
    # SOH-terminated (Session::get_next... style call: term = default_field_separator)
    for t in ("34\x0135=A", "7\x01", "\x01", "123456\x01junk", "-3\x01"):
        for ty in "ius":
            cs.append(A(ty, 1, t, "atoi-term"))
    for ty in "ius":
        cs.append(A(ty, 61, "35=8", "atoi-term"))
    for _ in range(1500 if thorough else 200):
        ty = rng.choice("ius")
        mode = rng.randrange(6)
        if mode <= 2:      # canonical in-range decimal
            hi = {"i": INT_MAX, "u": UINT_MAX, "s": 65535}[ty]
            nd = rng.randrange(1, len(str(hi)) + 1)
            v = min(rand_digits(rng, nd), hi)
            t = str(v)
        elif mode == 3:    # leading zeros / out of range digits
            t = "0" * rng.randrange(0, 3) + str(rng.randrange(0, 10 ** rng.randrange(1, 14)))
        elif mode == 4:    # negative (canonical for int up to INT_MIN, wrap-around for the unsigned types)
            v = rand_digits(rng, rng.randrange(1, 11))
            t = "-" + str(min(v, 2 ** 31) if ty == "i" and rng.random() < 0.6 else v * rng.choice((1, 7, 1000)))
        else:              # arbitrary bytes
            t = bytes(rng.choice((rng.randrange(48, 58), rng.randrange(1, 256))) for _ in range(rng.randrange(0, 9)))
        cs.append(A(ty, 0, t, "atoi-digits" if mode <= 3 else "atoi-neg" if mode == 4 else "atoi-bytes"))
    return cs


def grid_cases(rng, p, n, cs):
    """decimal grid points and half-way points of precision p, +- 0,1,2 ulp"""
    for _ in range(n):
        mode = rng.randrange(8)
        if mode == 0:
            whole = 0
        elif mode == 1:
            whole = rng.randrange(0, 10)
        elif mode <= 4:
            whole = rng.randrange(0, 10 ** rng.randrange(1, 10))
        else:
            whole = rng.randrange(0, 2 ** rng.randrange(1, 32))
        whole = min(whole, INT_MAX - 1)
        k = rng.randrange(0, 10 ** p) if p else 0
        if rng.random() < 0.25 and p:
            nines = rng.randrange(1, p + 1)            # fraction ending in a run of nines
            k = k // 10 ** nines * 10 ** nines + 10 ** nines - 1
        half = rng.random() < 0.5
        num = Fraction(whole * 10 ** p + k) + (Fraction(1, 2) if half else 0)
        d = float(num / 10 ** p)                         # correctly rounded by Python
        for u in (0, 1, -1, 2, -2):
            x = step(d, u)
            if rng.random() < 0.3:
                x = -x
            cs.append(D(p, x, ("half" if half else "grid") + ("" if u == 0 else "+-ulp")))


def gen_float(rng, tier):
    thorough = tier == "thorough"
    cs = []
    # known defect witnesses and their neighbourhoods
    for p, d in ((1, 0.95), (1, 1.95), (2, 0.995), (1, 0.45), (1, 0.05), (2, 0.005), (1, 0.25), (1, 0.35), (3, 1.0005),
                 (2, 38.85), (4, 7.6641), (6, 906028226.364559)):
        for u in (0, 1, -1):
            cs.append(D(p, step(d, u), "witness"))
            cs.append(D(p, -step(d, u), "witness"))
    for p in range(0, 10):
        grid_cases(rng, p, 400 if thorough else 48, cs)
        # all-nines fractions: 0.9..95 style ties whose ++frac reaches 10^p
        for whole in (0, 1, 9, 99, 1234, 2 ** 20, INT_MAX - 1):
            for extra in (Fraction(1, 2), Fraction(0), Fraction(1, 4), Fraction(3, 4)):
                if p == 0 and extra == 0:
                    continue
                num = Fraction(whole * 10 ** p + 10 ** p - 1) + extra
                d = float(num / 10 ** p)
                for u in (0, 1, -1):
                    cs.append(D(p, step(d, u), "nines"))
        # exact binary fractions (exact ties at some precisions)
        for _ in range(60 if thorough else 8):
            b = rng.randrange(1, 12)
            d = rng.randrange(0, 2 ** rng.randrange(1, 31)) + Fraction(rng.randrange(0, 2 ** b), 2 ** b)
            d = float(d)
            cs.append(D(p, d if rng.random() < 0.7 else -d, "binary-fraction"))
        # integral doubles
        for v in (0, 1, 2, 9, 10, 99, 100, 12345, 10 ** 9, INT_MAX, INT_MAX - 1, 2 ** 30, 999999999):
            cs.append(D(p, float(v), "integral"))
            cs.append(D(p, -float(v), "integral"))
        for _ in range(40 if thorough else 6):
            v = rng.randrange(0, 2 ** rng.randrange(1, 32))
            cs.append(D(p, float(v) if rng.random() < 0.6 else -float(v), "integral"))
        cs.append(D(p, -0.0, "integral"))
        # x.5 at precision 0 and friends
        for w in (0, 1, 2, 3, 4, 1000000, 1000001, INT_MAX - 1, INT_MAX - 2):
            for fr in (0.5, 0.25, 0.75, 0.4999999, 0.5000001):
                cs.append(D(p, w + fr, "halves"))
        # the threshold
        t = float(INT_MAX)
        for u in (-3, -2, -1, 0):
            cs.append(D(p, step(t, u), "threshold-below"))
            cs.append(D(p, -step(t, u), "threshold-below"))
        for u in (1, 2, 3):
            cs.append(D(p, step(t, u), "threshold-sliver"))
            cs.append(D(p, -step(t, u), "threshold-sliver"))
        cs.append(D(p, 2147483647.5, "threshold-sliver"))
        cs.append(D(p, step(2147483648.0, -1), "threshold-sliver"))
        # random doubles below 2^31
        for _ in range(600 if thorough else 60):
            e = rng.randrange(-40, 31)
            d = math.ldexp(1.0 + rng.random(), e)
            if rng.random() < 0.3:
                d = float("%.*f" % (rng.randrange(0, 12), d))      # short decimals as users write them
            if abs(d) < 2 ** 31:
                cs.append(D(p, d if rng.random() < 0.7 else -d, "random"))
        # tiny values
        for d in (1e-10, 4.9e-324, 2.2250738585072014e-308, 1e-300, 0.5 * 10 ** -p if p else 0.49, 0.4999999999999999 * 10 ** -p):
            cs.append(D(p, d, "tiny"))
            cs.append(D(p, -d, "tiny"))
    # out of the property's domain: only the correspondence is checked
    for p in (0, 2, 9):
        for d in (2147483648.0, 2147483649.0, 4294967296.0, 1e10, 1e15, 1.7976931348623157e308, 1e300, 123456789012.345):
            cs.append(D(p, d, "out-of-domain"))
            cs.append(D(p, -d, "out-of-domain"))
        cs.append(Case("dtoa %d 7ff0000000000000" % p, "out-of-domain"))
        cs.append(Case("dtoa %d fff0000000000000" % p, "out-of-domain"))
        cs.append(Case("dtoa %d 7ff8000000000000" % p, "out-of-domain"))
    for p in (-1, -5, 10, 11, 15, 100, -2147483648, 2147483647):
        for d in (0.123456789012, 1.95, 42.0, 0.999999999999, 2147483646.75):
            cs.append(D(p, d, "precision-clamp"))
    return cs


def gen_atof(rng, tier):
    thorough = tier == "thorough"
    cs = []
    fixed = ["0", "1", "-1", "+1", "0.0", "1.5", "38.85", "7.6641", "906028226.364559", "0.1", "0.2", "0.3", "-0.3",
             "2147483647.0", "2147483646.999999999", "0.000000001", "123", "007", "1.", ".5", "-.5", ".", "-", "", "+",
             "1e5", "1E5", "1.5e-3", "1e+2", "1e308", "1e309", "1e400", "1e-400", "12e307", "1E50", "1e49", "1e58", "1e7",
             "1e8", "1e", "1e-", "1ex", "e5", " 1.5", "\t\n 2.25", "1.5 ", "1,5", "--1", "+-1", "1.2.3", "1e5e5", "nan",
             "inf", "1e4294967297", "1e4294967296", "0e0", "-0", "-0.0", "5e-324", "4.9e-324", "\xb11", "1\xb2", "1.\xff5",
             "\x0b7", "\x0c7", "\r7", "\x1c7", "\xa07"]
    for t in fixed:
        cs.append(F(t))
    for _ in range(3000 if thorough else 350):
        mode = rng.randrange(6)
        if mode <= 2:       # plain decimals, the shape the renderer emits
            ip = str(rng.randrange(0, 10 ** rng.randrange(1, 11)))
            fp = "".join(rng.choice("0123456789") for _ in range(rng.randrange(0, 10)))
            t = ("-" if rng.random() < 0.3 else "") + ip + ("." + fp if fp else "")
            cls = "atof-decimal"
        elif mode == 3:     # exponents
            t = "%s%d.%de%s%d" % (rng.choice(("", "-", "+")), rng.randrange(0, 1000), rng.randrange(0, 1000),
                                  rng.choice(("", "-", "+")), rng.randrange(0, 330))
            cls = "atof-exponent"
        elif mode == 4:     # one fraction digit / few digits
            t = "%d.%s" % (rng.randrange(0, 2 ** rng.randrange(1, 31)), rng.choice("0123456789") * rng.randrange(1, 3))
            cls = "atof-decimal"
        else:
            t = bytes(rng.choice((rng.randrange(48, 58), rng.choice(b" +-.eE"), rng.randrange(1, 256)))
                      for _ in range(rng.randrange(0, 12)))
            cls = "atof-bytes"
        cs.append(F(t, cls))
    return cs


def gen_cases(rng, tier):
    return gen_int(rng, tier) + gen_atoi(rng, tier) + gen_float(rng, tier) + gen_atof(rng, tier)


# ------------------------------------------------------------------------------ result handling

EXP_RE = re.compile(r"^(-?\d\.\d{6}e[+-]\d+|-?inf) [0-9a-f]{16}$")


def postprocess(case, r):
    # value > 2^31-1: modp_dtoa hands over to sprintf("%e"); glibc's text is not modelled
    if case.line.startswith("dtoa ") and EXP_RE.match(r):
        return "EXP"
    if case.line.startswith(("itoa ", "atoi i ")) and r.startswith("CRASH") and "f8utils.hpp" in r:
        # which rule is reported first depends on how the arithmetic is spelled (shift or multiply):
        # one token for "undefined behaviour reported inside fast_atoi"
        if "left shift of negative value" in r or "signed integer overflow" in r or "left shift of" in r:
            return "UB"
    # ++whole on INT_MAX in the rounding stage (UBSan stops the process there)
    if case.line.startswith("dtoa ") and r.startswith("CRASH") and "signed integer overflow: 2147483647 + 1" in r \
            and "modp_numtoa.c" in r:
        return "UB-INT-OVERFLOW"
    return r


def nontrivial(case, r):
    w = case.line.split()
    if w[0] in ("itoa", "utoa"):
        return abs(int(w[1])) >= 10
    if w[0] == "atoi":
        return len(w[3]) >= 4 and w[3] != "-"
    if w[0] == "dtoa":
        d = dbl_of(int(w[2], 16))
        return d == d and 0 < abs(d) < 2 ** 31 and 0 <= int(w[1]) <= 9
    if w[0] == "atof":
        return len(w[1]) >= 4
    return False


# ------------------------------------------------------------------------------ finding classifiers
# Each classifier re-derives, in exact rational arithmetic, WHICH clause of the property the case
# violates and accepts the case only if every violated clause lies in the narrow region of a
# recorded defect and the region of this particular finding is among them.

DEC_RE = re.compile(r"^(-?)(\d+)(?:\.(\d+))?$")


def unshow(t):
    if t == "<>":
        return ""
    return re.sub(r"\\x([0-9a-f]{2})", lambda m: chr(int(m.group(1), 16)), t)


def floor_log2(x):
    """floor(log2 x) for a positive Fraction"""
    l = x.numerator.bit_length() - x.denominator.bit_length()
    if Fraction(2) ** l > x:
        l -= 1
    elif Fraction(2) ** (l + 1) <= x:
        l += 1
    return l


def ulp_at(x):
    return Fraction(2) ** max(floor_log2(abs(x)) - 52, -1074)


def round_half_even(x):
    q = x.numerator // x.denominator
    r = x - q
    if r < Fraction(1, 2):
        return q
    if r > Fraction(1, 2):
        return q + 1
    return q if q % 2 == 0 else q + 1


def render_ok(v, p, text):
    m = DEC_RE.match(text)
    if not m:
        return False
    neg, ip, fp = m.group(1) == "-", m.group(2), m.group(3) or ""
    if len(ip) > 1 and ip[0] == "0":
        return False
    if len(fp) > p:
        return False
    R = round_half_even(abs(Fraction(v)) * 10 ** p)
    if int(ip + fp) * 10 ** (p - len(fp)) != R:
        return False
    return R == 0 or neg == (math.copysign(1.0, v) < 0)


def parse_err_ulps(text, parsed):
    """|parsed - exact| / ulp(exact) as a Fraction, None if the text is not a plain decimal;
    also returns the number of non-zero fraction digits"""
    m = DEC_RE.match(text)
    if not m or parsed != parsed or parsed in (float("inf"), float("-inf")):
        return None, 0
    fp = m.group(3) or ""
    x = Fraction(int(m.group(2) + fp), 10 ** len(fp)) * (-1 if m.group(1) else 1)
    k = sum(1 for c in fp if c != "0")
    if x == 0:
        return (Fraction(0) if parsed == 0 else Fraction(10 ** 9)), k
    return abs(Fraction(parsed) - x) / ulp_at(x), k


def stage(v, p):
    """the doubles modp_dtoa computes before rounding (Python floats are binary64)"""
    value = abs(v)
    whole = int(value)
    tmp = (value - whole) * float(10 ** p)
    frac = int(tmp)
    diff = tmp - frac
    exact = (Fraction(value) - whole) * 10 ** p
    return value, whole, tmp, frac, diff, exact


def parse_explained(text, parsed):
    """the parser defect: accumulated rounding error of the digit-by-digit fraction loop.
    Region: at least one non-zero fraction digit; error bounded by 2 ulp per such digit."""
    e, k = parse_err_ulps(text, parsed)
    return e is not None and k >= 1 and Fraction(1, 2) < e <= 2 * k


def analyse_dtoa(case, r):
    w = case.line.split()
    if w[0] != "dtoa":
        return None
    p = int(w[1])
    v = dbl_of(int(w[2], 16))
    if not (0 <= p <= 9) or v != v or not abs(v) < 2 ** 31:
        return None
    a = {"p": p, "v": v, "text": None, "render": False, "parse": False, "parsed": None}
    if r == "EXP":
        a["exp"] = True
        return a
    if r == "UB-INT-OVERFLOW":
        a["ub"] = True
        return a
    parts = r.split(" ")
    if len(parts) != 2 or not re.match(r"^[0-9a-f]{16}$", parts[1]):
        return None
    a["text"] = unshow(parts[0])
    a["parsed"] = dbl_of(int(parts[1], 16))
    a["render"] = render_ok(v, p, a["text"])
    e, k = parse_err_ulps(a["text"], a["parsed"])
    a["parse"] = e is not None and e <= Fraction(1, 2)
    return a


def rendered_units(p, text):
    """the rendered decimal as an integer number of units 10^-p, None if not [-]digits[.digits]"""
    m = DEC_RE.match(text)
    if not m or len(m.group(3) or "") > p:
        return None
    fp = m.group(3) or ""
    return int(m.group(2) + fp) * 10 ** (p - len(fp))


def is_inexact_half(v, p, text):
    """the remaining rendering defect (double rounding): precision >= 1, the COMPUTED diff is exactly 0.5
    although the exact product (|v| - whole) * 10^p is not half-way -- negation of the hypothesis of
    c08_dtoa_correct_partial -- and, the roll-over being repaired (a6c4c45), the text is exactly one unit
    in the last place away from the correctly rounded decimal"""
    value, whole, tmp, frac, diff, exact = stage(v, p)
    if not (p >= 1 and diff == 0.5 and exact != Fraction(2 * frac + 1, 2)):
        return False
    units = rendered_units(p, text)
    return units is not None and abs(units - round_half_even(abs(Fraction(v)) * 10 ** p)) == 1


def is_sliver(v):
    return 2 ** 31 - 1 < abs(v) < 2 ** 31


def dtoa_explained(a, want):
    """all violated clauses are explained by recorded defects and `want` is one of them"""
    if a is None:
        return False
    if a.get("exp"):
        return want == "sliver" and is_sliver(a["v"])
    if a.get("ub"):
        value, whole, tmp, frac, diff, exact = stage(a["v"], a["p"])
        return want == "overflow" and is_sliver(a["v"]) and whole == INT_MAX and diff > 0.5 and frac + 1 >= 10 ** a["p"]
    reasons = set()
    if not a["render"]:
        if is_inexact_half(a["v"], a["p"], a["text"]):
            reasons.add("inexact-half")
        else:
            return False
    if not a["parse"]:
        if parse_explained(a["text"], a["parsed"]):
            reasons.add("parse")
        else:
            return False
    return want in reasons


def c_inexact_half(case, r, m):
    return dtoa_explained(analyse_dtoa(case, r), "inexact-half")


def c_sliver(case, r, m):
    return dtoa_explained(analyse_dtoa(case, r), "sliver")


def c_overflow(case, r, m):
    return dtoa_explained(analyse_dtoa(case, r), "overflow")


def c_atof_inexact(case, r, m):
    w = case.line.split()
    if w[0] == "dtoa":
        return dtoa_explained(analyse_dtoa(case, r), "parse")
    if w[0] == "atof" and re.match(r"^[0-9a-f]{16}$", r):
        t = bytes.fromhex(w[1]).decode("latin1") if w[1] != "-" else ""
        mm = DEC_RE.match(t)
        if not mm or (len(mm.group(2)) > 1 and mm.group(2)[0] == "0") or len(mm.group(2)) > 10 or len(mm.group(3) or "") > 9:
            return False
        return parse_explained(t, dbl_of(int(r, 16)))
    return False


# (the integer findings atoi-negative / atoi-top-overflow / atoi-negative-shift are FIXED by a8219b1: no classifier,
#  their witnesses must simply pass)
# (dtoa-tie-rollover is FIXED by a6c4c45: no classifier; its witness 0.95@1 now prints "1.0" and is explained,
#  like every input of that kind, by dtoa-inexact-half)
CLASSIFIERS = {"dtoa-inexact-half": c_inexact_half,
               "dtoa-exp-sliver": c_sliver, "dtoa-whole-overflow": c_overflow, "atof-inexact": c_atof_inexact}


# ------------------------------------------------------------------------------ search / evidence

def extra_search(rng, seeds, tier):
    out = gen_cases(rng, "thorough")
    rng.shuffle(out)
    out = out[:6000]
    for c in seeds[:30]:
        w = c.line.split()
        if w[0] in ("itoa", "utoa"):
            v = int(w[1])
            for d in (-2, -1, 1, 2, 10, -10):
                if (w[0] == "itoa" and INT_MIN <= v + d <= INT_MAX) or (w[0] == "utoa" and 0 <= v + d <= UINT_MAX):
                    out.append(Case("%s %d" % (w[0], v + d), "neighbour"))
        elif w[0] == "dtoa":
            d = dbl_of(int(w[2], 16))
            if d == d and abs(d) < 1e300:
                for u in (-2, -1, 1, 2):
                    out.append(D(int(w[1]), step(d, u), "neighbour"))
                for p in range(0, 10):
                    out.append(D(p, d, "neighbour"))
    return out


def extra_evidence(ctx):
    by = {}
    for c, r, (m, oi, om) in zip(ctx["cases"], ctx["impl"], ctx["model"]):
        if not oi:
            by[c.cls] = by.get(c.cls, 0) + 1
    return {"oracle_failures_by_class": by}
