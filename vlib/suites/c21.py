"""C21 — two fix8 sessions deliver every application message across failures."""
import itertools
import os
import subprocess
import threading

from vlib import build as B
from vlib import core
from vlib.core import Case
from vlib.suites import _sess as S

ID = "C21"
LEVEL = "proof"
TECHNIQUE = ("Coq: two instances of the shared session model coq/Sess (initiator, acceptor; FilePersister models) joined by "
             "two in-flight buffers (coq/C21/TwoParty.v) under schedules of sends, deliveries, drops and restarts; induction "
             "over fault-free schedules with the invariant 'what is in flight is exactly the consecutively numbered messages "
             "between the receiver's expected number and the sender's next number'; oracle c21_ok applied to the trace of TWO "
             "REAL fix8 sessions in one process joined by two in-memory sockets (harness/h_c21.cpp); model traces tied byte "
             "for byte")
LEVEL_TEXT = ("c21_refuted: one drop suffices -- an application message lost in flight makes the sender's next Logon carry a "
              "number above the one expected (C20's failing history between two fix8 endpoints): InvalidMsgSequence in "
              "logon_received, Logout, the sessions never re-establish; c21_logon_lost_refuted: the same for a lost Logon.  "
              "c21_nofault_partial (all schedules, induction): from a synced pair of sessions, for every schedule of sends and "
              "deliveries without drops or restarts, in every interleaving, whose messages the codec reads back (valid_run, "
              "executable per message), each side's application is handed exactly the other side's messages: once each, in send "
              "order, never PossDup, and the pair is synced again; c21_nofault_twoparty: the same statement about the events of "
              "TwoParty.run_sops (simulation between the two Sess.Wire worlds and the session pair); c21_nofault_nonvacuous: the "
              "hypotheses hold for the model after the Logon exchange and a concrete schedule; c21_examples: a fault-free "
              "schedule and a drop on a quiet connection satisfy c21_ok and c21_exact.")
LEVEL_NOTE = ("Trusted: Coq kernel, extraction, the hand transcription coq/Sess of session.cpp / persist.cpp / filepersist.cpp "
              "(checked by the correspondence run on every case: the model's trace of BOTH sessions must equal the real one "
              "byte for byte), the harness (h_c21.cpp on sess_harness.hpp, vsock, vclock).  That restarts / drops on a quiet "
              "connection are harmless is observed on every generated schedule of that kind (class 0 => c21_ok) and shown for "
              "one example, not proved in general.")
DESIGN_REF = "DESIGN.md section 4, C21; finding F26"
PROPS_FILE = "Props/Properties_C21.v"
COQ_TARGETS = ["Props/Properties_C21.vo", "Extract/Extract_C21.vo"]
TRUSTED_BASE = ["Coq 8.16.1 kernel (coqc), vm_compute only",
                "Extraction with ExtrOcamlBasic, no Extract Constant; OCaml 4.13.1",
                "hand-written session model coq/Sess/*.v tied to runtime/session.cpp, persist.cpp, filepersist.cpp by "
                "differential execution of whole schedules on two real sessions; coq/C21/TwoParty.v only joins two instances",
                "Sess.SimpleCodec.simple_decode as the decoder of the executable model (exact on the well-formed messages "
                "fix8 itself writes)",
                "ocaml/prelude.ml + ocaml/c21_driver.ml, harness/h_c21.cpp + sess_harness.hpp + vsock.hpp + vclock.cpp, vlib"]
ASSUMPTIONS = ["sequence numbers stay below 2^31 (MsgSeqNum is a Field<int>: 2^31 is written as 34=-2147483648)",
               "a reconnect re-creates BOTH sessions on their FilePersister files (what an acceptor's SessionInstance and a "
               "restarted initiator do; an initiator that keeps its Session object calls recover_seqnums in start() all the same)",
               "a process restart lets the bytes in flight towards the surviving side arrive first (TCP), its answers are lost",
               "the virtual clock stands still (no heartbeats / test requests); pm_thread; always_seqnum_assign off",
               "application handlers in the canonical form `enforce(seqnum,msg) || msg->process(router)`"]
RULE = ("schema: FIX42UTEST plus ten application messages with two-character MsgTypes whose first character is an admin type "
        "(A0 AD 0X 1Z 2B 3C 4D 5E DD ZZ; derived schema utest2c); messages sent are D/F/8 mixed with these.  "
        "schedules over SI/SA (application send on the initiator/acceptor), DA/DI (deliver what is in flight towards the "
        "acceptor/initiator), D (deliver until quiet), DROP (in-flight bytes lost, both sides reconnect), RI/RA (process "
        "restart), OI/OA (OVERLAP: a send during which, inside the modify_outbound hook, the peer's message in flight is "
        "processed by the reader thread -- then a reconnect re-loads the control record), CFG a b (both sides re-created with forced start numbers: initiator sends from a / expects b; later "
        "reconnects recover from the files) with a, b around and beyond 8192 up to 2^31 - 100, followed by traffic and a reconnect / "
        "restart; every schedule ends with D.  quick: all schedules up to length 2, all fault-free ones over {SI,SA,DA,DI} up "
        "to length 4 after the logon exchange, and a random sample of longer ones (up to 12 operations, mostly fault-free "
        "prefixes with one or two faults).  thorough: ALL schedules up to length 4 over the 8 operations, all schedules up to "
        "length 5 over {SA, SI, D, DROP} after the logon exchange, random beyond.  non-trivial = at least one application "
        "message was delivered on either side; distinct = distinct schedule lines")


def build(tier):
    # schema utest2c = /repo's FIX42UTEST + application messages with TWO-character MsgTypes whose first character is
    # that of an administrative type (A0 AD 0X 1Z 2B 3C 4D 5E DD ZZ): Session::process must send them to
    # handle_application, not into its one-character admin switch
    exe = B.harness("h_c21", runtime=None, schema="utest2c", extra_srcs=["vclock.cpp"])
    # the model driver's schema metadata comes from THIS harness (so the added types are known to the model's decoder)
    meta = exe + ".meta"
    if not os.path.exists(meta):
        env = dict(os.environ, ASAN_OPTIONS="detect_leaks=0")
        out = subprocess.run([exe, "--meta"], stdout=subprocess.PIPE, stderr=subprocess.PIPE, env=env, timeout=120,
                             cwd=core.run_dir())
        if out.returncode != 0 or not out.stdout:
            raise B.BuildError("h_c21 --meta failed: " + out.stderr.decode(errors="replace")[-2000:])
        tmp = meta + ".tmp%d" % os.getpid()
        open(tmp, "wb").write(out.stdout)
        os.rename(tmp, meta)
    return {"impl": [exe], "driver_args": [meta], "per_case_timeout": 60}


def EXHAUSTIVE(tier):
    return tier == "thorough"


NSHARDS = 8
# case line -> (class, exact)
_CLS = {}


def run_impl(built, cases, tier):
    lines = [c.line for c in cases]
    n = min(NSHARDS, max(1, len(lines) // 30))
    res = [None] * len(lines)

    def work(k):
        idx = list(range(k, len(lines), n))
        out = core.run_lines(built["impl"], [lines[i] for i in idx], env=built.get("env"),
                             per_case_timeout=built.get("per_case_timeout", 60), timeout_per_batch=3000)
        for i, r in zip(idx, out):
            res[i] = r

    core.run_dir()
    ths = [threading.Thread(target=work, args=(k,)) for k in range(n)]
    for t in ths:
        t.start()
    for t in ths:
        t.join()
    # classification of (schedule, trace): did a reconnect lose bytes in flight?  (extracted coq/C21/Loss.v)
    drv = [B.ocaml_driver(ID)] + built.get("driver_args", []) + ["--class"]
    inp = "\n".join(l + "\t" + (r or "") for l, r in zip(lines, res)) + "\n"
    p = subprocess.run(drv, input=inp.encode(), stdout=subprocess.PIPE, stderr=subprocess.PIPE, timeout=3600)
    out = p.stdout.decode(errors="replace").split("\n")
    if out and out[-1] == "":
        out.pop()
    if p.returncode == 0 and len(out) == len(lines):
        for l, o in zip(lines, out):
            a, b = o.split("\t")
            _CLS[l] = (int(a), b == "1")
    return res


# ------------------------------------------------------------------------------------ schedules
_TS = S.ts(S.T0)


def order(k, t="D"):
    """msgspec of an application message with ClOrdID k"""
    if t == "D":
        f = [(11, "C%d" % k), (21, "1"), (55, "IBM"), (54, "1"), (60, _TS), (40, "1")]
    elif t == "F":
        f = [(41, "O%d" % k), (11, "C%d" % k), (55, "IBM"), (54, "1"), (60, _TS), (9999, "x"), (9991, "y")]
    elif t == "8":
        f = [(37, "O%d" % k), (17, "E%d" % k), (20, "0"), (150, "0"), (39, "0"), (55, "IBM"), (54, "1"), (151, "1.0"),
             (14, "0.0"), (6, "0.0")]
    else:                       # the two-character application types of schema utest2c: ClOrdID [, Text]
        f = [(11, "C%d" % k)] + ([(58, "t%d" % k)] if k % 2 else [])
    return S.spec(t, f)


TWOCHAR = [t for _, t in B.UTEST2C_MESSAGES]


def render(ops, rng=None, types=None):
    """ops: list of op names; sends get distinct message ids; types: cycle of message types (default: D, or random
    with a rng: single-character D/F/8 mixed with the two-character types)"""
    out = []
    k = 0
    for o in ops:
        if o in ("SI", "SA", "OI", "OA"):
            k += 1
            if types:
                t = types[(k - 1) % len(types)]
            else:
                t = "D" if rng is None else rng.choice(["D", "D", "F", "8"] + TWOCHAR)
            out.append("%s %s" % (o, order(k, t)))
        else:
            out.append(o)
    return "|".join(out)


# (numbers stay below 2^31: MsgSeqNum is a Field<int>, 2^31 goes out as 34=-2147483648 -- outside the modelled domain)
BIGNUMS = [1, 5, 8190, 8191, 8192, 8193, 8200, 65535, 65536, 2**31 - 100]
BIGNUMS_QUICK = [5, 8191, 8192, 8193, 65536, 2**31 - 100]
ALL = ["SI", "SA", "DA", "DI", "D", "DROP", "RI", "RA"]
CLEAN = ["SI", "SA", "DA", "DI"]


def valid(ops):
    """the acceptor's application sends only on a logged-on session (after a delivery to the acceptor since the
    last (re)connect)"""
    logged = False
    for o in ops:
        if o in ("D", "DA"):
            logged = True
        elif o in ("DROP", "RI", "RA") or o.startswith("CFG"):
            logged = False
        elif o in ("SA", "OA") and not logged:
            return False
    return True


def gen_cases(rng, tier):
    thorough = tier == "thorough"
    cases = []
    seen = set()

    def add(ops, cls, r=None, types=None):
        if not valid(ops):
            return
        line = render(list(ops) + ["D"], r, types)
        if line not in seen:
            seen.add(line)
            cases.append(Case(line, cls))

    for n in range(0, (4 if thorough else 2) + 1):
        for ops in itertools.product(ALL, repeat=n):
            add(ops, "exhaustive-all")
    for n in range(1, 5):
        for ops in itertools.product(CLEAN, repeat=n):
            add(["D"] + list(ops), "exhaustive-faultfree")
    # every two-character type, sent by both sides, before and after a drop / a restart of either side on a quiet
    # connection, mixed with a one-character type
    for k, t in enumerate(TWOCHAR):
        fault = ["DROP", "RI", "RA"][k % 3]
        add(["D", "SI", "SA", "SI", "SA", "D", fault, "D", "SI", "SA", "SA", "SI"], "two-char-types", types=[t, t, "D", t])
        add(["D", "SA", "SI", "DA", "DI", "SI", "SA"], "two-char-types", types=[t, TWOCHAR[(k + 3) % len(TWOCHAR)], "F"])
    # OVERLAP: a send during which (modify_outbound hook: after the number assignment, before the control record is
    # written) the peer's message in flight is fully processed by the reader thread; nothing repairs the control record
    # afterwards; then the store is re-loaded (drop / restart).  Only on an established, quiet connection and with an
    # application message in flight (the processing must not write: the sender holds the writer lock)
    k = 0
    for first in ("SA", "SI"):
        ov = "OI" if first == "SA" else "OA"
        for fault in ("DROP", "RI", "RA"):
            for tail in ([], ["SI"], ["SA"], ["SI", "SA"]):
                k += 1
                add(["D", first, ov, "D", fault, "D"] + tail, "overlap", types=["D", TWOCHAR[k % len(TWOCHAR)]])
                add(["D", first, first, ov, ov, fault, "D"] + tail, "overlap", types=["D", "F", TWOCHAR[k % len(TWOCHAR)]])
            add(["D", first, ov, fault, "D", "SI", "SA"], "overlap")
    # carried-over numbers around and beyond 8192 (the FilePersister index record of a message holds its length, <= 8192,
    # where the control record holds the expected receive number; a message's record holds an offset where the control
    # record holds the send number) up to 2^31: the operators force the numbers (CFG a b: initiator sends from a,
    # expects b), a few messages each way, then a reconnect / restart that must recover them from the files
    big = BIGNUMS if thorough else BIGNUMS_QUICK
    k = 0
    for a in big:
        for b in big:
            if not thorough and a < 8000 and b < 8000:
                continue
            for fault in (["DROP", "RI", "RA"] if thorough else [["DROP", "RI", "RA"][k % 3]]):
                k += 1
                pre = [["SI", "SA"], ["SA", "SI", "SI"], []][k % 3]
                add(["CFG %d %d" % (a, b), "D"] + pre + ["D", fault, "D", "SI", "SA"], "carried-over-numbers",
                    types=["D", TWOCHAR[k % len(TWOCHAR)]])
    if thorough:
        for n in range(1, 4):
            for ops in itertools.product(["SI", "SA", "DA", "DI", "DROP"], repeat=n):
                for t in ("AD", "0X", "5E"):
                    add(["D"] + list(ops), "exhaustive-two-char", types=[t, "D"])
    if thorough:
        for n in range(1, 6):
            for ops in itertools.product(["SA", "SI", "D", "DROP"], repeat=n):
                add(["D"] + list(ops), "exhaustive-drop")
    for _ in range(1000 if thorough else 120):
        # fault-free, any interleaving
        n = rng.randint(3, 12)
        ops = ["D"] if rng.random() < 0.9 else []
        ops += [rng.choice(["SI", "SA", "SI", "SA", "DA", "DI", "D"]) for _ in range(n)]
        add(ops, "random-faultfree", rng)
    for _ in range(1000 if thorough else 120):
        # one or two faults somewhere
        n = rng.randint(3, 10)
        ops = ["D"] + [rng.choice(["SI", "SA", "SI", "SA", "DA", "DI", "D"]) for _ in range(n)]
        for _ in range(rng.randint(1, 2)):
            pos = rng.randint(1, len(ops))
            fault = rng.choice(["DROP", "RI", "RA"])
            if rng.random() < 0.5:
                ops[pos:pos] = ["D", fault, "D"]       # on a quiet connection
            else:
                ops[pos:pos] = [fault]
        add(ops, "random-faults", rng)
    return cases


def extra_search(rng, seeds, tier):
    out = []
    for _ in range(250):
        n = rng.randint(2, 8)
        ops = ["D"] + [rng.choice(ALL) for _ in range(n)] + ["D"]
        if valid(ops):
            out.append(Case(render(ops, rng), "extra"))
    return out


def shrink(case):
    ops = case.line.split("|")
    out = []
    for i in range(len(ops) - 1, -1, -1):
        if len(ops) > 1:
            out.append(Case("|".join(ops[:i] + ops[i + 1:]), "shrink"))
    return out


def nontrivial(case, impl_out):
    return "DELIVER " in impl_out and impl_out.count(" | ") >= 3


CLASSIFIERS = {
    # negation of the hypothesis "no message is lost in flight" (coq/C21/Loss.v c21_class = 0): the schedule contains
    # a drop / restart that loses in-flight messages
    "drop_of_inflight_messages": lambda case, r, m: _CLS.get(case.line, (0, False))[0] == 1,
}


def extra_evidence(ctx):
    lossy = sum(1 for c in ctx["cases"] if _CLS.get(c.line, (0, False))[0] == 1)
    exact = sum(1 for c in ctx["cases"] if _CLS.get(c.line, (0, False))[1])
    faults = sum(1 for c in ctx["cases"] if any(o in ("DROP", "RI", "RA") for o in c.line.split("|")))
    return {"c21": {"schedules_with_reconnect": faults, "schedules_losing_inflight_messages": lossy,
                    "exactly_once_schedules": exact}}
