"""C02 — encoded messages are well-formed FIX on the wire."""
import itertools

from vlib import build as B
from vlib import codecgen as G
from vlib.core import Case

ID = "C02"
LEVEL = "proof"
TECHNIQUE = ("Coq proof about a hand-written Gallina model of MessageBase::encode / encode_group / Message::encode "
             "(coq/Codec), property stated as an independent executable validator wire_ok (tokenizer + BodyLength + "
             "CheckSum + schema-position order + group shape); model tied to the real encoder by differential execution "
             "on messages generated from the metadata dumped from the compiled schema classes")
LEVEL_TEXT = ("see coq/Props/Properties_C02.v: theorems about the model's encoder; the model is tied to "
              "Message::encode(f8String&) by byte-identical outputs on generated messages, and wire_ok is evaluated on "
              "the real encoder's bytes")
LEVEL_NOTE = ("Trusted: Coq kernel, extraction (ExtrOcamlBasic), the hand transcription in coq/Codec (checked by the "
              "correspondence run), the metadata dump of harness/meta_dump.hpp, the OCaml driver's parsers, vlib generators.")
DESIGN_REF = "DESIGN.md section 4, Codec group, C02"
PROPS_FILE = "Props/Properties_C02.v"
COQ_TARGETS = ["Props/Properties_C02.vo", "Extract/Extract_C02.vo"]
TRUSTED_BASE = ["Coq 8.16.1 kernel (coqc), vm_compute only", "Extraction with ExtrOcamlBasic, no Extract Constant; OCaml 4.13.1",
                "hand-written model coq/Codec/*.v of runtime/message.cpp + include/fix8/message.hpp, tied by differential execution",
                "harness/h_codec.cpp + harness/meta_dump.hpp (metadata taken from the compiled generated classes)",
                "ocaml/prelude.ml + ocaml/c02_driver.ml (metadata / msgspec parsers), vlib/codecgen.py (generators)"]
ASSUMPTIONS = ["field values are canonical for their type (render = identity on floats and date/time texts; ints, chars, "
               "Booleans are rendered by the model itself): any deviation shows up as a model/implementation disagreement",
               "values contain neither SOH nor NUL (data fields with SOH belong to C06)"]
RULE = ("messages generated from the dumped metadata: every message type, mandatory fields plus a random optional subset, "
        "values per field type, groups with 0..3 elements nested to the schema's depth, random insertion order; all insertion "
        "permutations of small messages; large (1.1 KB .. 7.9 KB) messages of bytes >= 0x80 (0xff, random, UTF-8 Cyrillic/CJK; ASCII controls) in string fields and in groups of text lines; BodyLength boundaries 99/100/101 and 999/1000/1001; second encode (ENC2) and "
        "elements without their first field as known-finding classes; data-typed fields (header, body, group elements, trailer) with payloads containing NUL, '=', high bytes and every byte value except SOH, handed over as length-carrying strings, with their Length fields; every ENC case is encoded through both Message::encode overloads; A->copy_legal(B) across message types followed by B's own insertions (XCOPY), all ordered pairs of types sharing >= 3 fields, preferring pairs whose schema orders differ; RT cases decode the real bytes on both sides. "
        "non-trivial = an OK result with at least 8 tokens; distinct = distinct case lines")


def schemas(tier):
    return ("utest", "fix44") if tier == "thorough" else ("utest",)


_state = {}


def build(tier):
    built = G.build_codec(schemas(tier))
    _state["built"] = built
    return built


def run_impl(built, cases, tier):
    """HYP cases have no implementation side (they evaluate the theorem's hypotheses on the
    generated object): constant "1"; everything else goes to the harness of its schema."""
    default = next(iter(built["exes"]))
    real = [c for c in cases if not G.schema_of(c.line, default)[1].startswith("HYP ")]
    out = iter(G.run_impl_multi(built, real, tier))
    return ["1" if G.schema_of(c.line, default)[1].startswith("HYP ") else next(out) for c in cases]


def pre(schema, default):
    return "" if schema == default else "@%s " % schema


def flat_len(mt, hdr, body, trl):
    """msgLen of a message without groups whose values are canonical: 35=<mt>| + fields."""
    return len("35=%s\x01" % mt) + G.wire_estimate(hdr) + G.wire_estimate(body) + G.wire_estimate(trl)


def gen_cases(rng, tier):
    built = _state.get("built") or build(tier)
    thorough = tier == "thorough"
    cs = []
    default = schemas(tier)[0]
    for schema in schemas(tier):
        meta = built["metas"][schema]
        px = pre(schema, default)
        gen = G.MsgGen(meta, rng)
        types = sorted(meta.msgs)
        # every message type at least once (twice in thorough), then random ones
        reps = 3 if thorough else 1
        for mt in types * reps:
            cs.append(Case(px + "ENC " + G.ser_msg(*gen.message(mt)), "enc-type"))
        for _ in range(1500 if thorough else 500):
            cs.append(Case(px + "ENC " + G.ser_msg(*gen.message()), "enc-random"))
        rich = G.MsgGen(meta, rng, p_opt=0.7)
        for _ in range(300 if thorough else 80):
            cs.append(Case(px + "ENC " + G.ser_msg(*rich.message(max_wire=5000)), "enc-rich"))
        # decode the real bytes on both sides as well
        for _ in range(600 if thorough else 200):
            cs.append(Case(px + "RT s " + G.ser_msg(*gen.message()), "roundtrip"))
        # all insertion orders of small messages
        small = G.MsgGen(meta, rng, p_opt=0.08, max_elems=1, shuffle=False)
        for _ in range(12 if thorough else 4):
            mt, hdr, body, trl = small.message()
            body = body[:4]
            for perm in itertools.permutations(body):
                cs.append(Case(px + "ENC " + G.ser_msg(mt, hdr, list(perm), trl), "permutation"))
            for perm in itertools.islice(itertools.permutations(hdr), 24):
                cs.append(Case(px + "ENC " + G.ser_msg(mt, list(perm), body, trl), "permutation"))
        # BodyLength ladder: pad a string field so that msgLen hits the digit-count boundaries
        strs = [f for f, (ty, _) in meta.fields.items() if ty == G.FT_STRING]
        for mt in types:
            cand = [t for t in meta.traits.get(mt, []) if t.ftype == G.FT_STRING and not t.group]
            if not cand:
                continue
            t = cand[0]
            flat = G.MsgGen(meta, rng, p_opt=0.0, max_elems=0, shuffle=True)
            mt2, hdr, body, trl = flat.message(mt)
            body = [f for f in body if f.elems is None and f.fnum != t.fnum]
            base = flat_len(mt, hdr, body, trl) + len(str(t.fnum)) + 2
            for target in (99, 100, 101, 999, 1000, 1001):
                need = target - base
                if 1 <= need <= 2000:
                    b2 = body + [G.Fld(t.fnum, b"x" * need)]
                    rng.shuffle(b2)
                    cs.append(Case(px + "ENC " + G.ser_msg(mt, hdr, b2, trl), "bodylength-%d" % target))
            if not thorough and len([c for c in cs if c.cls.startswith("bodylength")]) > 60:
                break
        # large messages made of bytes >= 0x80 (0xff runs, random high bytes, UTF-8 Cyrillic / CJK) and ASCII
        # controls, about 1.1 / 1.6 / 2.4 / 4 KB and close to the 8 KB encode limit, through string fields and
        # through groups of text lines: the byte lanes of calc_chksum carry only on such content, and only
        # an independent byte sum (wire_ok uses C07's specification sum) sees a wrong CheckSum
        for cls, mt, hdr, body, trl in G.highbyte_messages(meta, rng, max_types=6 if thorough else 4):
            cs.append(Case(px + "ENC " + G.ser_msg(mt, hdr, body, trl), cls))
        # data-typed fields with arbitrary payload bytes -- NUL, '=', high bytes, every byte value except SOH
        # (a SOH inside a value cannot be told from the field separator by a Length-unaware tokenizer: C06) --
        # handed over as length-carrying std::string ("~hex": Field<f8String>(const f8String&)), with the
        # matching Length field, in header (90/91, 212/213), body, group elements and trailer (93/89)
        def data_payloads():
            allb = bytes(b for b in range(256) if b != 1)
            yield b"a\x00b"
            yield b"\x00"
            yield b"\x00tail"
            yield b"head\x00"
            yield allb
            yield bytes(rng.choice(allb) for _ in range(rng.randint(1, 300)))
            yield b"x=y\x00=z"

        def data_sites(owner):
            ts = sorted(meta.traits.get(owner, []), key=lambda t: t.pos)
            bypos = {t.pos: t for t in ts}
            for t in ts:
                if t.ftype in (G.FT_DATA, G.FT_XMLDATA) and (t.flags & 4):
                    prev = bypos.get(t.pos - 1)
                    yield t, (prev if prev is not None and prev.ftype == G.FT_LENGTH else None)
        dgen = G.MsgGen(meta, rng, p_opt=0.1, max_elems=1, no_pairs=True)
        nd = 0
        for mt in types:
            sites = [("B", mt, t, ln) for t, ln in data_sites(mt)]
            sites += [("G", (gf, sub), t, ln) for gf, sub in sorted(meta.groups.get(mt, {}).items()) for t, ln in data_sites(sub)]
            if nd < 8:
                sites += [("H", "header", t, ln) for t, ln in data_sites("header")] + [("T", "trailer", t, ln) for t, ln in data_sites("trailer")]
            for where, own, t, ln in sites[:6 if thorough else 3]:
                for payload in data_payloads():
                    mt2, hdr, body, trl = dgen.message(mt, max_wire=1500)
                    pair = ([G.Fld(ln.fnum, str(len(payload)).encode())] if ln is not None else []) + [G.Fld(t.fnum, payload, raw=True)]
                    if where == "B":
                        body = [f for f in body if f.fnum not in {x.fnum for x in pair}] + pair
                    elif where == "H":
                        hdr = [f for f in hdr if f.fnum not in {x.fnum for x in pair}] + pair
                    elif where == "T":
                        trl = pair
                    else:
                        gf, sub = own
                        first = meta.first_field(sub)
                        el = list(pair)
                        if first is not None and first not in {x.fnum for x in el}:
                            el.insert(0, G.Fld(first, G.gen_value(rng, meta.trait(sub, first).ftype, first)))
                        for mt_ in meta.traits.get(sub, []):
                            if mt_.mandatory and not mt_.group and mt_.fnum not in {x.fnum for x in el}:
                                el.append(G.Fld(mt_.fnum, G.gen_value(rng, mt_.ftype, mt_.fnum)))
                        body = [f for f in body if f.fnum != gf] + [G.Fld(gf, b"1", [el])]
                    cs.append(Case(px + "ENC " + G.ser_msg(mt, hdr, body, trl), "data-bytes-%s" % where))
                    nd += 1
            if not thorough and nd > 260:
                break
        # copy_legal as the insertion path (the idiom of the example servers: NewOrderSingle -> ExecutionReport):
        # A->copy_legal(B) with B of ANOTHER message type, then B's own fields; B must encode in B's schema order
        def same_group(oa, ob):
            ta, tb = meta.traits.get(oa, []), meta.traits.get(ob, [])
            if [(t.fnum, t.pos) for t in ta] != [(t.fnum, t.pos) for t in tb]:
                return False
            ga, gb = meta.groups.get(oa, {}), meta.groups.get(ob, {})
            return set(ga) == set(gb) and all(same_group(ga[k], gb[k]) for k in ga)

        def positioned_fields(mt):
            return {t.fnum: t for t in meta.traits.get(mt, []) if t.flags & 4}
        pairs = []
        for a in types:
            fa = positioned_fields(a)
            for b in types:
                if a == b:
                    continue
                fb = positioned_fields(b)
                shared = [f for f in fa if f in fb and (not fa[f].group or (fb[f].group and f in meta.groups.get(a, {})
                          and f in meta.groups.get(b, {}) and same_group(meta.groups[a][f], meta.groups[b][f])))
                          and fa[f].group == fb[f].group]
                # the order must be able to differ: some shared pair whose relative position differs between the types
                differ = any((fa[x].pos < fa[y].pos) != (fb[x].pos < fb[y].pos) for x in shared for y in shared if x < y)
                if len(shared) >= 3:
                    pairs.append((a, b, set(shared), differ))
        pairs.sort(key=lambda p: (not p[3], -len(p[2])))
        xg = G.MsgGen(meta, rng, p_opt=0.5)
        chosen_pairs = pairs[:60 if thorough else 25] + [rng.choice(pairs) for _ in range(200 if thorough else 60)] if pairs else []
        for a, b, shared, differ in chosen_pairs:
            mta, hda, bda, tra = xg.message(a, max_wire=3000)
            bda = [f for f in bda if f.fnum in shared or (meta.trait(a, f.fnum).flags & 4)]
            bda = [f for f in bda if meta.trait(a, f.fnum).flags & 4]
            mtb, hdb, bdb, trb = xg.message(b, max_wire=3000)
            copied = {f.fnum for f in bda if f.fnum in shared}
            # what copy_legal will not bring: B's own fields (never an unpositioned -F field, never one legal in both)
            bdb = [f for f in bdb if f.fnum not in copied and (meta.trait(b, f.fnum).flags & 4)
                   and not (f.fnum in {x.fnum for x in bda} and meta.trait(b, f.fnum) is not None)]
            cs.append(Case(px + "XCOPY " + G.ser_msg(mta, hda, bda, tra) + " " + G.ser_msg(mtb, hdb, bdb, trb),
                           "copy-legal-%s" % ("reorder" if differ else "same-order")))
        # the hypotheses of c02_wellformed (wf_ctx of the message type, wf_msg, fresh) must hold for
        # generated well-formed objects: message types with -F fields that lack the position bit
        # are outside the theorem (see known finding unpositioned-order) and are skipped here
        def positioned(owner):
            return all(t.flags & 4 for t in meta.traits.get(owner, [])) and all(positioned(s) for s in meta.groups.get(owner, {}).values())
        good = [mt for mt in types if positioned(mt)]
        _state.setdefault("hyp_types", {})[schema] = (len(good), len(types))
        for mt in good:
            cs.append(Case(px + "HYP " + G.ser_msg(*gen.message(mt)), "hypotheses"))
        for _ in range(300 if thorough else 100):
            cs.append(Case(px + "HYP " + G.ser_msg(*gen.message(rng.choice(good))), "hypotheses"))
        # known-finding classes
        for _ in range(40 if thorough else 12):
            cs.append(Case(px + "ENC2 " + G.ser_msg(*gen.message()), "second-encode"))
        nod = G.MsgGen(meta, rng, p_opt=0.3, p_nodelim=0.5)
        k = 0
        for _ in range(4000):
            mt, hdr, body, trl = nod.message()
            if G.lacks_delimiter(meta, mt, body) or G.lacks_delimiter(meta, "header", hdr):
                cs.append(Case(px + "ENC " + G.ser_msg(mt, hdr, body, trl), "no-delimiter"))
                k += 1
                if k >= (40 if thorough else 12):
                    break
    return cs


def _spec_of(case):
    built = _state["built"]
    default = next(iter(built["exes"]))
    schema, rest = G.schema_of(case.line, default)
    w = rest.split(" ")
    return built["metas"][schema], w[0], w[-1]


def nontrivial(case, r):
    if r == "1":
        return True
    if not r.startswith("OK "):
        return False
    hx = r.split(" ")[1]
    return bytes.fromhex(hx).count(b"\x01") >= 8


def c_second_encode(case, r, m):
    meta, op, spec = _spec_of(case)
    return op == "ENC2"


def c_no_delimiter(case, r, m):
    meta, op, spec = _spec_of(case)
    if op not in ("ENC", "RT", "ENC2", "XCOPY"):
        return False
    mt, hdr, body, trl = G.parse_msg(spec)
    return G.lacks_delimiter(meta, mt, body) or G.lacks_delimiter(meta, "header", hdr) or G.lacks_delimiter(meta, "trailer", trl)


def _unpositioned_misordered(meta, owner, fs):
    """Two fields whose trait lacks the 'position' flag bit (getPos() = 0: both are filed under
    _pos key 0 and come out in insertion order) inserted against their schema position."""
    last = 0
    for f in fs:
        t = meta.trait(owner, f.fnum)
        if t is not None and not (t.flags & 4):
            if t.pos < last:
                return True
            last = max(last, t.pos)
    for f in fs:
        sub = meta.groups.get(owner, {}).get(f.fnum)
        if f.elems and sub and any(_unpositioned_misordered(meta, sub, e) for e in f.elems):
            return True
    return False


def c_unpositioned(case, r, m):
    meta, op, spec = _spec_of(case)
    if op not in ("ENC", "RT", "ENC2"):
        return False
    mt, hdr, body, trl = G.parse_msg(spec)
    return (_unpositioned_misordered(meta, mt, body) or _unpositioned_misordered(meta, "header", hdr)
            or _unpositioned_misordered(meta, "trailer", trl))


def extra_evidence(ctx):
    return {"hypotheses_hold_for_message_types": {k: "%d of %d" % v for k, v in _state.get("hyp_types", {}).items()}}


CLASSIFIERS = {"second-encode": c_second_encode, "no-delimiter": c_no_delimiter, "unpositioned-order": c_unpositioned}


def extra_search(rng, seeds, tier):
    return gen_cases(rng, tier)[:3000]


def shrink(case):
    """Drop one top-level optional field / one group element at a time."""
    try:
        meta, op, spec = _spec_of(case)
        prefix = case.line[:len(case.line) - len(spec)]
        mt, hdr, body, trl = G.parse_msg(spec)
    except Exception:
        return []
    out = []

    def variants(fs, owner):
        for i, f in enumerate(fs):
            t = meta.trait(owner, f.fnum)
            if t is not None and not t.mandatory:
                yield fs[:i] + fs[i + 1:]
            if f.elems:
                for j in range(len(f.elems)):
                    els = f.elems[:j] + f.elems[j + 1:]
                    yield fs[:i] + [G.Fld(f.fnum, str(len(els)).encode(), els)] + fs[i + 1:]
    for v in variants(hdr, "header"):
        out.append(Case(prefix + G.ser_msg(mt, v, body, trl), "shrink"))
    for v in variants(body, mt):
        out.append(Case(prefix + G.ser_msg(mt, hdr, v, trl), "shrink"))
    for v in variants(trl, "trailer"):
        out.append(Case(prefix + G.ser_msg(mt, hdr, body, v), "shrink"))
    return out[:60]
