"""C20 — sequence gaps are recovered with a conformant counterparty."""
import itertools
import subprocess
import threading

from vlib import build as B
from vlib import core
from vlib.core import Case
from vlib.suites import _sess as S

ID = "C20"
LEVEL = "proof"
TECHNIQUE = ("Coq: executable specification of a FIX-conformant counterparty (coq/C20/Peer.v: consecutive numbering, replay "
             "with PossDup / SequenceReset-GapFill answers to ResendRequests, Logon above expected) run against the shared "
             "session model coq/Sess; proofs by induction over the counterparty's transmissions and over the replay burst "
             "(invariant relating next_recv to the replay position); oracle c20_ok applied to the trace of the REAL "
             "Session/Connection code on the very history the counterparty specification produces; model traces tied byte "
             "for byte")
LEVEL_TEXT = ("c20_refuted (witness on the run of the counterparty spec against the session model): expected 3, message 5 "
              "arrives -> ResendRequest(3,0) but process still increments to 4; the replay 3,4,5 (PossDup) is accepted as 'low' "
              "and leaves 7; the counterparty's next message 6 is MsgSequenceTooLow and the session stops.  "
              "c20_refuted_every_gap: the same for EVERY gap size/position and EVERY burst without a GapFill (universal).  "
              "c20_logon_refuted: a Logon above the expected number throws in logon_received (Logout, stop).  "
              "c20_reject_refuted / c20_reject_unchecked (new): a Reject is never sequence-checked, messages lost before it are "
              "never requested.  c20_gap_and_burst: invariant over the burst (expected = position+1 in resend_request_sent until "
              "the first GapFill, expected = position in continuous after it): with a GapFill the session ends aligned with the "
              "counterparty's next number, without it one ahead; every replayed application message is delivered.  "
              "c20_burst_one_ahead: the burst from ANY running state one ahead (resend_request_sent, or continuous after the session "
              "served the counterparty's own ResendRequest that revealed the gap); c20_rr_reveals_example: that history as an "
              "accepted witness (run satisfies c20_ok; the intermediate state meets the hypotheses); "
              "c20_gapfill_partial: whole streams of episodes (in sequence | gap + burst containing a GapFill): alive, aligned, "
              "everything delivered.  c20_nogap: no losses => aligned throughout, each application message delivered once, in "
              "order.  c20_gapfill_nonvacuous / c20_gapfill_example: the hypotheses hold for the spec's own bytes and the run "
              "satisfies c20_ok.  c20_run_is_session_model: run_with_peer's trace = Sess.Wire.run_history of its history.")
LEVEL_NOTE = ("Trusted: Coq kernel, extraction, the hand transcription coq/Sess of session.cpp (checked by the correspondence "
              "run on every case: the model's trace must equal the real trace byte for byte), the harness (vsock/vclock).  The "
              "stream theorems hold for ANY schema and ANY decoder, for raw messages classified by `is_item` (number scanned from "
              "the raw bytes + decoded form); that the counterparty's encoder + Sess.SimpleCodec produce such messages is shown "
              "by computation for the witness (item_of, c20_gapfill_nonvacuous) and by the correspondence run for the rest.")
DESIGN_REF = "DESIGN.md section 4, C20; finding F26"
PROPS_FILE = "Props/Properties_C20.v"
COQ_TARGETS = ["Props/Properties_C20.vo", "Extract/Extract_C20.vo"]
TRUSTED_BASE = ["Coq 8.16.1 kernel (coqc), vm_compute only",
                "Extraction with ExtrOcamlBasic, no Extract Constant; OCaml 4.13.1",
                "hand-written session model coq/Sess/*.v (Session.process, sequence_check, enforce, handle_sequence_reset, "
                "handle_logon, ...) tied to runtime/session.cpp by differential execution of whole histories; "
                "coq/C20/Peer.v only drives it",
                "Sess.SimpleCodec.simple_decode as the decoder of the executable model (exact on the well-formed messages "
                "the counterparty specification emits)",
                "ocaml/prelude.ml + ocaml/c20_driver.ml, harness/h_sess.cpp + sess_harness.hpp + vsock.hpp + vclock.cpp, vlib"]
ASSUMPTIONS = ["the counterparty answers a ResendRequest synchronously with one burst (no new traffic interleaved)",
               "the application handles messages in the canonical form `enforce(seqnum,msg) || msg->process(router)`; "
               "handle_admin / authenticate / handle_reject are the defaults",
               "no SessionConfig, not `reliable`, pm_thread, always_seqnum_assign off, enforce_compids on; correctly framed input",
               "trailing lost messages (nothing transmitted after them) are not owed: the session cannot know about them yet"]
RULE = ("scenarios (coq/C20/Scenario.v): START (initiator/acceptor; file/memory/no persister; sometimes a receive number "
        "argument with the counterparty starting at, or above, that number), the counterparty's Logon (ResetSeqNumFlag absent / =N / =Y on the first connection; also after every restart, crossed "
        "with carried-over numbers), then transmissions "
        "(application D/F/8/j, Heartbeat, TestRequest, Reject, the counterparty's own ResendRequest for the session's messages, an "
        "orderly Logout, an unsolicited SequenceReset-GapFill) of which runs of 1..4 are LOST, the session's own sends, "
        "clock steps, restarts (file: numbers recovered; memory/none: forgotten, so the counterparty's Logon is above "
        "expected), decisions for the replay (replay/gap-fill per Reject, split points of gap-fill runs).  Gap shapes "
        "(kinds of the lost messages x kind of the message that reveals the gap x decisions) are enumerated exhaustively "
        "up to 2 lost messages (thorough: 3, plus a sample of 4) and embedded at random positions; the gap is also revealed by a TestRequest, by the counterparty's ResendRequest "
        "(both sides lost messages: the session requests AND serves a resend; file / memory / no persister, stores with holes), "
        "by a Logout and by a SequenceReset; the rest is random.  The extracted "
        "counterparty specification produces the IN bytes; the REAL session runs that history.  non-trivial = the session "
        "delivered at least one message and processed at least three; distinct = distinct scenario lines")


def build(tier):
    return S.build_sess()


def EXHAUSTIVE(tier):
    return False


NSHARDS = 8

# scenario line -> (history line, class, exact)
_HIST = {}


def _translate(built, lines):
    todo = [l for l in dict.fromkeys(lines) if l not in _HIST]
    if not todo:
        return
    drv = [B.ocaml_driver(ID)] + built.get("driver_args", []) + ["--hist"]
    p = subprocess.run(drv, input=("\n".join(todo) + "\n").encode(), stdout=subprocess.PIPE, stderr=subprocess.PIPE,
                       timeout=3600)
    out = p.stdout.decode(errors="replace").split("\n")
    if out and out[-1] == "":
        out.pop()
    if p.returncode != 0 or len(out) != len(todo):
        raise B.BuildError("c20 driver --hist failed (rc=%d, %d/%d): %s" %
                           (p.returncode, len(out), len(todo), p.stderr.decode(errors="replace")[-2000:]))
    for l, o in zip(todo, out):
        parts = o.split("\t")
        _HIST[l] = (parts[0], int(parts[1]), parts[2] == "1")


def run_impl(built, cases, tier):
    """The extracted counterparty specification (run against the session model) turns each scenario into the
    history for h_sess; the REAL session then runs that history.  ~20 ms per session instance: sharded."""
    lines = [c.line for c in cases]
    _translate(built, lines)
    hist = [_HIST[l][0] for l in lines]
    n = min(NSHARDS, max(1, len(hist) // 40))
    res = [None] * len(hist)

    def work(k):
        idx = list(range(k, len(hist), n))
        out = core.run_lines(built["impl"], [hist[i] for i in idx], env=built.get("env"),
                             per_case_timeout=built.get("per_case_timeout", 30), timeout_per_batch=1500)
        for i, r in zip(idx, out):
            res[i] = r

    core.run_dir()
    ths = [threading.Thread(target=work, args=(k,)) for k in range(n)]
    for t in ths:
        t.start()
    for t in ths:
        t.join()
    return res


# ------------------------------------------------------------------------------------ scenarios
def fl(fields):
    return ",".join("%s=%s" % (k, S.hx(str(v))) for k, v in fields)


# kinds of counterparty messages: a application, h Heartbeat, j Reject, t TestRequest, r ResendRequest (the counterparty
# asks for OUR messages: the session both requests and serves a resend when it reveals a gap), o Logout, q an unsolicited
# SequenceReset-GapFill (NewSeqNo = its own number + 1)
KINDS = "ahjtroq"


class Scn:
    def __init__(self, rng, role=None, persist=None, rs=0, pnum=None, hb=None):
        self.rng = rng
        self.role = role or rng.choice("IA")
        self.persist = persist or rng.choice(["file", "file", "file", "mem", "none"])
        self.now = S.T0
        p = ["START", self.role, self.persist, "asa=0"]
        if hb:
            p.append("hb=%d" % hb)
        if rs:
            p.append("rs=%d" % rs)
        self.acts = [" ".join(p)]
        self.pn = 1             # the counterparty's next number
        self.sent = 1           # rough count of the session's own outbound numbers (Logon included)
        if pnum is not None:
            self.acts.append("P %d" % pnum)
            self.pn = pnum

    def line(self):
        return "|".join(self.acts)

    def msg(self, kind, lost=False):
        rng = self.rng
        tag = "L" if lost else "M"
        if kind == "a":
            t = rng.choice(S.APP_TYPES)
            self.acts.append("%s %s %s" % (tag, t, fl(S.app_fields(rng, t, self.now))))
        elif kind == "h":
            self.acts.append(("%s 0 %s" % (tag, fl([(112, S.word(rng))]))) if rng.random() < 0.3 else "%s 0" % tag)
        elif kind == "t":
            self.acts.append("%s 1 %s" % (tag, fl([(112, S.word(rng))])))
            if not lost:
                self.sent += 1
        elif kind == "r":
            b = rng.randint(1, max(1, self.sent + 1))
            e = rng.choice([0, 0, 0, rng.randint(b, b + 3)])
            self.acts.append("%s 2 %s" % (tag, fl([(7, b), (16, e)])))
            if not lost:
                self.sent += 1
        elif kind == "o":
            self.acts.append(("%s 5 %s" % (tag, fl([(58, "bye")]))) if rng.random() < 0.5 else "%s 5" % tag)
        elif kind == "q":
            self.acts.append("%s 4 %s" % (tag, fl([(123, "Y"), (36, self.pn + 1)])))
        else:
            f = [(45, rng.randint(1, 9))] + ([(58, S.word(rng, 1, 10))] if rng.random() < 0.4 else [])
            self.acts.append("%s 3 %s" % (tag, fl(f)))
        self.pn += 1

    def logon(self):
        """the counterparty's Logon: ResetSeqNumFlag (141) absent / =N explicitly / =Y (only on the very first connection
        of a counterparty that starts at 1: it restarts its numbering)"""
        r = self.rng.random()
        first = not any(a.startswith("LOGON") for a in self.acts)
        if r < 0.4:
            self.acts.append("LOGON N")
        elif r < 0.5 and first and self.pn == 1:
            self.acts.append("LOGON Y")
        else:
            self.acts.append("LOGON")
        self.pn += 1

    def decide(self, bits):
        if bits:
            self.acts.append("X " + "".join("1" if b else "0" for b in bits))

    def send(self):
        t = self.rng.choice(["D", "D", "F", "8"])
        self.acts.append("SEND " + S.spec(t, S.app_fields(self.rng, t, self.now)))
        self.sent += 1

    def clock(self):
        self.now += self.rng.randrange(1, 5000) * 10**6
        self.acts.append("CLOCK %d" % self.now)

    def restart(self):
        self.acts.append("RESTART")

    def filler(self, n, kinds="aaaht"):
        for _ in range(n):
            r = self.rng.random()
            if r < 0.15:
                self.send()
            elif r < 0.3:
                self.clock()
            else:
                self.msg(self.rng.choice(kinds))

    def gap(self, lost, reveal, bits=()):
        self.decide(bits)
        for k in lost:
            self.msg(k, lost=True)
        self.msg(reveal)


def gap_shapes(maxlost, reveals="ahj"):
    """kinds of the lost messages x kind of the message that reveals the gap x decisions"""
    out = []
    for n in range(1, maxlost + 1):
        for lost in itertools.product("ahj", repeat=n):
            for reveal in reveals:
                seq = list(lost) + [reveal]
                nrej = seq.count("j")
                for rb in itertools.product([0, 1], repeat=nrej):
                    # one split decision per continuation of a gap-fill run: enumerate none / all
                    for split in (0, 1):
                        bits = []
                        it = iter(rb)
                        run = False
                        for k in seq:
                            if k == "a":
                                run = False
                                continue
                            resend = False
                            if k == "j":
                                resend = bool(next(it))
                                bits.append(1 if resend else 0)
                            if resend:
                                run = False
                            else:
                                if run:
                                    bits.append(split)
                                run = True
                        out.append(("".join(lost), reveal, tuple(bits)))
    return list(dict.fromkeys(out))


def scn_gap(rng, shape, two=False, persist=None):
    s = Scn(rng, persist=persist)
    s.logon()
    s.filler(rng.randint(0, 3))
    s.gap(*shape)
    if shape[1] == "o":          # the counterparty logged out: nothing follows
        return s.line()
    s.filler(rng.randint(1, 3))
    if two:
        lost = "".join(rng.choice("ahj") for _ in range(rng.randint(1, 3)))
        s.gap(lost, rng.choice("ahj"), [rng.randint(0, 1) for _ in range(6)])
        s.filler(rng.randint(1, 2))
    return s.line()


def scn_rr_gap(rng, persist):
    """both sides lost messages: the inbound gap is revealed by the counterparty's own ResendRequest, so the session
    requests a resend AND serves one (from a file / memory persister, or with a single GapFill without one); the session's
    store has holes (its admin messages) and various sizes"""
    s = Scn(rng, persist=persist)
    s.logon()
    for _ in range(rng.randint(1, 5)):
        r = rng.random()
        if r < 0.55:
            s.send()
        elif r < 0.75:
            s.msg("t")                       # the session answers with a Heartbeat: a hole in its store
        elif r < 0.9:
            s.msg("a")
        else:
            s.clock()
    lost = [rng.choice("ahj") for _ in range(rng.randint(1, 3))]
    if "a" not in lost and rng.random() < 0.8:
        lost[rng.randrange(len(lost))] = "a"
    s.gap("".join(lost), "r", [rng.randint(0, 1) for _ in range(6)])
    s.filler(rng.randint(1, 3), kinds="aaahtr")
    if rng.random() < 0.3:
        s.gap(rng.choice("ah"), rng.choice("ahr"), [rng.randint(0, 1) for _ in range(4)])
        s.filler(1)
    return s.line()


def scn_nogap(rng):
    rs = rng.choice([0, 0, 0, rng.randint(2, 30)])
    s = Scn(rng, rs=rs, pnum=(rs if rs else None), hb=rng.choice([None, 5, 60]))
    s.logon()
    s.filler(rng.randint(1, 9), kinds="aaaahtjrq")
    if rng.random() < 0.15:
        s.msg("o")                           # an orderly Logout ends the history
    return s.line()


def scn_restart(rng):
    s = Scn(rng)
    s.logon()
    s.filler(rng.randint(1, 3))
    for _ in range(rng.randint(1, 2)):
        s.restart()
        if rng.random() < 0.4:       # sent while disconnected
            for _ in range(rng.randint(1, 3)):
                s.msg(rng.choice("ahj"), lost=True)
        s.logon()
        s.filler(rng.randint(1, 3))
    return s.line()


def scn_highlogon(rng):
    rs = rng.choice([0, rng.randint(2, 20)])
    exp = rs or 1
    s = Scn(rng, rs=rs, pnum=exp + rng.randint(1, 5))
    s.logon()
    s.filler(rng.randint(1, 2))
    return s.line()


def scn_random(rng):
    s = Scn(rng)
    s.decide([rng.randint(0, 1) for _ in range(rng.randint(0, 8))])
    s.logon()
    for _ in range(rng.randint(2, 12)):
        r = rng.random()
        if r < 0.55:
            s.msg(rng.choice("aaahjt"))
        elif r < 0.8:
            s.msg(rng.choice("aahj"), lost=True)
        elif r < 0.88:
            s.send()
        elif r < 0.94:
            s.clock()
        else:
            s.restart()
            s.logon()
    if rng.random() < 0.7:
        s.msg(rng.choice("ah"))
    return s.line()


def gen_cases(rng, tier):
    thorough = tier == "thorough"
    cases = []
    shapes = gap_shapes(4 if thorough else 3)
    if not thorough:
        # all shapes up to 2 lost messages, a sample of the larger ones
        # (a Reject that reveals the gap is not sequence-checked at all -- its own finding: only the small shapes)
        small = [x for x in shapes if len(x[0]) <= 2 and not (x[1] == "j" and len(x[0]) > 1)]
        big = [x for x in shapes if len(x[0]) > 2 and x[1] != "j"]
        rng.shuffle(big)
        shapes = small + big[:140]
    else:
        # all shapes up to 3 lost messages, a sample of those with 4
        small = [x for x in shapes if len(x[0]) <= 3]
        big = [x for x in shapes if len(x[0]) > 3]
        rng.shuffle(big)
        shapes = small + big[:600]
    for sh in shapes:
        cases.append(Case(scn_gap(rng, sh), "gap-shape"))
    # the gap is revealed by a TestRequest / by the counterparty's own ResendRequest (all shapes up to 2 lost messages;
    # every persister), by a Logout / an unsolicited SequenceReset (their own findings: the small shapes)
    ext = gap_shapes(3 if thorough else 2, "tr")
    if not thorough:
        ext = [x for x in ext if len(x[0]) <= 1 or x[1] == "r"]
    for k, sh in enumerate(ext):
        cases.append(Case(scn_gap(rng, sh, persist=["file", "mem", "none"][k % 3]), "gap-shape-admin"))
    for sh in gap_shapes(2 if thorough else 1, "oq"):
        cases.append(Case(scn_gap(rng, sh), "gap-shape-logout-seqreset"))
    for k in range(600 if thorough else 90):
        cases.append(Case(scn_rr_gap(rng, ["file", "mem", "none"][k % 3]), "both-sides-resend"))
    for _ in range(300 if thorough else 50):
        cases.append(Case(scn_gap(rng, rng.choice(shapes), two=True), "two-gaps"))
    for _ in range(600 if thorough else 110):
        cases.append(Case(scn_nogap(rng), "nogap"))
    for _ in range(400 if thorough else 70):
        cases.append(Case(scn_restart(rng), "restart"))
    for _ in range(150 if thorough else 30):
        cases.append(Case(scn_highlogon(rng), "high-logon"))
    for _ in range(1200 if thorough else 180):
        cases.append(Case(scn_random(rng), "random"))
    return cases


def extra_search(rng, seeds, tier):
    shapes = gap_shapes(2)
    out = [Case(scn_gap(rng, rng.choice(shapes)), "extra") for _ in range(150)]
    out += [Case(scn_rr_gap(rng, rng.choice(["file", "mem", "none"])), "extra") for _ in range(100)]
    out += [Case(scn_nogap(rng), "extra") for _ in range(100)]
    out += [Case(scn_random(rng), "extra") for _ in range(150)]
    return out


def shrink(case):
    acts = case.line.split("|")
    out = []
    for i in range(len(acts) - 1, 0, -1):
        out.append(Case("|".join(acts[:i] + acts[i + 1:]), "shrink"))
    return out


def nontrivial(case, impl_out):
    return impl_out.count("DELIVER ") >= 1 and impl_out.count("RET ") >= 4


# ------------------------------------------------------------------------------------ known findings
def _cls(case):
    h = _HIST.get(case.line)
    return h[1] if h else 0


CLASSIFIERS = {
    # negation of the hypothesis "every burst that answers a ResendRequest contains a GapFill" of c20_gapfill_partial
    "gap_without_gapfill": lambda case, r, m: _cls(case) == 2,
    # negation of the hypothesis "the counterparty's Logon carries the expected number"
    "logon_above_expected": lambda case, r, m: _cls(case) == 1,
    # a Reject (35=3) arrives above the expected number (c20_gapfill_partial only lets application messages and
    # Heartbeats reveal a gap: `reveals`)
    "gap_revealed_by_reject": lambda case, r, m: _cls(case) == 3,
    # a Logout arrives above the expected number (`reveals` admits application messages and Heartbeats only)
    "gap_revealed_by_logout": lambda case, r, m: _cls(case) == 4,
    # a SequenceReset arrives above the expected number outside a replay burst
    "gap_revealed_by_sequence_reset": lambda case, r, m: _cls(case) == 5,
}


def extra_evidence(ctx):
    cls = {0: 0, 1: 0, 2: 0, 3: 0, 4: 0, 5: 0}
    exact = 0
    resend = 0
    for c, r in zip(ctx["cases"], ctx["impl"]):
        h = _HIST.get(c.line)
        if h:
            cls[h[1]] = cls.get(h[1], 0) + 1
            exact += 1 if h[2] else 0
        if "33353d32" in r:          # 35=2 in an OUT
            resend += 1
    return {"c20": {"clean_histories": cls[0], "logon_above_expected": cls[1], "gap_without_gapfill": cls[2], "gap_revealed_by_reject": cls[3], "gap_revealed_by_logout": cls[4], "gap_revealed_by_sequence_reset": cls[5],
                    "exactly_once_histories": exact, "histories_with_resend_request": resend}}
