"""C16 — Outbound sequence numbers are consecutive and persisted."""
import re
from concurrent.futures import ThreadPoolExecutor

from vlib import core
from vlib.core import Case
from vlib.suites import _sess as S

ID = "C16"
LEVEL = "proof"
TECHNIQUE = ("Coq proofs (induction over histories, invariant between session state and a receiver-side numbering "
             "automaton) about a hand-written Gallina model of Session::send_process/send/send_batch/start/process; "
             "model tied to the real Session + Connection + FilePersister by differential execution of whole "
             "histories (extracted OCaml vs real code over an in-memory socket and a virtual clock, under ASan/UBSan)")
LEVEL_TEXT = ("c16_consecutive: for every schema, role, persister, start number and every history START;op* of plain "
              "SEND/BATCH/CLOCK operations (any message type but SequenceReset, any SOH-free field contents, no custom "
              "seqnum/no_increment/preset MsgSeqNum) the modelled wire carries start, start+1, ... across single and "
              "batched sends and the control record equals (next_send, next_recv) after every send. c16_restart: the same "
              "with RESTART operations anywhere (new session on the same persister files / a fresh memory persister): "
              "numbering resumes at the recovered or configured number. c16_control: the control clause at "
              "full strength for send-side histories (any messages incl. custom seqnum / no_increment / SequenceReset, timer "
              "ticks with the supervisor's own Logout, no well-formedness hypothesis). c16_unique / "
              "c16_increasing: acceptance by the oracle implies pairwise different, strictly increasing numbers of new "
              "messages. c16_control_inbound_partial: after every normal return of Session::process the control record "
              "is current. Refuted: the ORIGINAL send_process (F20, repaired by 8a992cc: c16_control_orig_refuted); still true: "
              "numbering with a custom sequence number (c16_custom_refuted), the Reject path of process (c16_reject_refuted).")
LEVEL_NOTE = ("Trusted: Coq kernel; extraction; the hand transcription coq/Sess/*.v (checked by the correspondence run "
              "on whole histories, byte-exact wire/store/control/state traces); harness (vclock/vsock/sess_harness); "
              "simple_decode stands in for Message::factory on well-formed inbound messages. The numbering theorem is "
              "proved for send-side histories; histories with inbound traffic, timer ticks and restarts are covered by "
              "the oracle on the implementation and the tie, not by a theorem (except the control clause of process). "
              "SequenceReset in Reset mode is treated like any new message by the oracle.")
DESIGN_REF = "DESIGN.md section 4, C16; coq/Sess/READY.md"
PROPS_FILE = "Props/Properties_C16.v"
COQ_TARGETS = ["Props/Properties_C16.vo", "Extract/Extract_C16.vo"]
TRUSTED_BASE = ["Coq 8.16.1 kernel (coqc), vm_compute for the witnesses only",
                "Extraction with ExtrOcamlBasic, no Extract Constant; OCaml 4.13.1",
                "hand-written model coq/Sess/{Bytes,Msg,Persist,Session,SimpleCodec,Wire}.v of runtime/session.cpp, "
                "connection.hpp (FIXWriter::write/write_batch), filepersist.cpp/persist.cpp as used by the session; tied by "
                "differential execution of histories",
                "ocaml/c16_driver.ml (metadata loading, string conversion), harness/sess_harness.hpp + vsock.hpp + vclock.cpp, "
                "vlib (generators, sharding, comparison)",
                "schema metadata (field positions, admin flags, mandatory flags) dumped from the freshly compiled f8c output",
                "g++ 12 -fsanitize=address,undefined on runtime + generated classes + harness"]
ASSUMPTIONS = ["pm_thread process model; the reader thread is quiescent (blocked on the empty in-memory socket) when the "
               "harness takes a snapshot",
               "field values are canonical (re-printing them gives the same bytes); inbound messages are well-formed FIX "
               "with known tags (simple_decode)",
               "sequence numbers stay below 2^32; messages below the 8 KB encode buffer"]
RULE = ("histories of a real session (both roles; file/memory/no persister; start numbers; always_seqnum_assign mostly off): "
        "single sends of 4 application types and 6 admin types, batches of 1..4 with application or admin last, inbound "
        "logon/heartbeat/test request/resend request/gap fill/application/logout mostly in sequence, timer ticks around the "
        "heartbeat interval, restarts on the same persister files; a share of histories uses custom seqnum / no_increment / "
        "SequenceReset / preset MsgSeqNum sends. non-trivial = at least 3 operations after START and at least 3 messages on "
        "the wire; distinct = distinct case lines")


def build(tier):
    return S.build_sess()


def run_impl(built, cases, tier):
    """Shard the cases over several harness processes (a session instance costs ~20 ms under ASan)."""
    lines = [c.line for c in cases]
    n = 6 if len(lines) >= 60 else 1
    size = (len(lines) + n - 1) // n
    chunks = [lines[i:i + size] for i in range(0, len(lines), size)]
    with ThreadPoolExecutor(max_workers=n) as ex:
        parts = list(ex.map(lambda ch: core.run_lines(built["impl"], ch, env=built.get("env"), per_case_timeout=40,
                                                      timeout_per_batch=1500), chunks))
    return [r for p in parts for r in p]


# ------------------------------------------------------------------------------------------------- generators
def plain_history(rng, role=None, persist=None, nops=None):
    """The domain of theorem c16_consecutive: START followed by plain SEND/BATCH/CLOCK."""
    role = role or rng.choice("IA")
    persist = persist or rng.choice(["file", "file", "mem", "none"])
    kw = {"asa": rng.choice([0, 0, 0, 1]), "hb": rng.choice([5, 30, 60])}
    if rng.random() < 0.3:
        kw["ss"] = rng.choice([2, 9, 10, 99, 100, 1000, 2147483000])
    if rng.random() < 0.2:
        kw["sid"] = (S.word(rng, 1, 6).replace("-", "A"), S.word(rng, 1, 6).replace("-", "B"))
    if rng.random() < 0.2:
        kw["t"] = S.T0 + rng.randrange(0, 3000 * 86400) * 10**9 + rng.randrange(1000) * 10**6
    h = S.Hist(rng, role, persist, **kw)
    for _ in range(nops if nops is not None else rng.randint(1, 12)):
        r = rng.random()
        if r < 0.45:
            h.send(h.app_spec())
        elif r < 0.60:
            h.send(plain_admin(rng))
        elif r < 0.95:
            k = rng.choice([1, 2, 2, 3, 3, 4])
            sps = [h.app_spec() if rng.random() < 0.7 else plain_admin(rng) for _ in range(k)]
            sps[-1] = h.app_spec() if rng.random() < 0.5 else plain_admin(rng)
            h.batch(sps)
        else:
            h.clock(rng.randrange(1, 10**7) * 1000)
    return h.line()


def plain_admin(rng):
    k = rng.randrange(6)
    if k == 0:
        return S.spec("0")
    if k == 1:
        return S.spec("0", [(112, S.word(rng))])
    if k == 2:
        return S.spec("1", [(112, S.word(rng))])
    if k == 3:
        return S.spec("3", [(45, rng.randint(1, 20))] + ([(58, S.word(rng, 1, 12))] if rng.random() < 0.5 else []))
    if k == 4:
        return S.spec("2", [(7, rng.randint(1, 9)), (16, rng.choice([0, 0, rng.randint(1, 12)]))])
    return S.spec("5", [(58, S.word(rng, 1, 12))] if rng.random() < 0.5 else [])


def gen_cases(rng, tier):
    thorough = tier == "thorough"
    mult = 12 if thorough else 2
    cs = []
    for _ in range(170 * mult):
        cs.append(Case(plain_history(rng), "plain-send"))
    # batches of every size with application / admin last, at numbers around decimal length changes
    for ss in (0, 9, 99, 999):
        for k in (1, 2, 3, 4):
            for last_app in (True, False):
                h = S.Hist(rng, rng.choice("IA"), "file", asa=0, ss=ss or None)
                sps = [h.app_spec() for _ in range(k)]
                if not last_app:
                    sps[-1] = plain_admin(rng)
                h.batch(sps)
                h.send(h.app_spec())
                cs.append(Case(h.line(), "batch-shapes"))
    for _ in range(230 * mult):
        cs.append(Case(S.gen_history(rng, special=False, asa=0, weird=0.03), "plain+inbound"))
    for _ in range(80 * mult):
        cs.append(Case(S.gen_history(rng, persist="file", special=False, asa=0, nops=rng.randint(6, 16)), "restarts"))
    for _ in range(90 * mult):
        cs.append(Case(S.gen_history(rng, special=True, asa=0), "nonplain-sends"))
    for _ in range(40 * mult):
        cs.append(Case(S.gen_history(rng, asa=1), "always-seqnum-assign"))
    for _ in range(60 * mult):
        cs.append(Case(S.gen_acceptor_logon(rng), "acceptor-logon-flags"))
    for line in S.gen_big_batches(rng):
        cs.append(Case(line, "big-batches"))
    return cs


# ------------------------------------------------------------------------------------------------- classification
def _ops(line):
    return line.split("|")


def _specs(line):
    for op in _ops(line):
        t = op.split(" ")
        if t[0] in ("SEND", "BATCH") and len(t) > 1:
            for sp in t[1].split(";"):
                yield sp


def c_nonplain_send(case, r, m):
    """negation of hypothesis plain_op of c16_consecutive: a SEND/BATCH with custom seqnum, no_increment, a
    SequenceReset, or MsgSeqNum / PossDupFlag preset by the application (numbering clause; the control clause holds
    for these since 8a992cc: c16_control)."""
    for sp in _specs(case.line):
        parts = sp.split("/")
        if parts[0] == "4":
            return True
        for p in parts[1:]:
            if p.startswith("c") or p == "n":
                return True
            if p[:1] in "HB" and re.search(r"(^[HB]|,)(34|43)=", p):
                return True
    return False


def _steps(case, r):
    return list(zip(_ops(case.line), r.split(" | ")))


def _outs(step):
    for ev in step.split(";"):
        if ev.startswith("OUT "):
            try:
                yield bytes.fromhex(ev[4:])
            except ValueError:
                pass


def c_own_logout(case, r, m):
    """the session itself sent a Logout with no_increment (heartbeat supervisor, force-logoff path): a TICK or
    IN step that put a Logout on the wire."""
    for op, st in _steps(case, r):
        if op.startswith("TICK") or op.startswith("IN "):
            for o in _outs(st):
                if b"\x0135=5\x01" in o:
                    return True
    return False


def c_reject_path(case, r, m):
    """an inbound message was answered with a session-level Reject (exception path of Session::process)."""
    for op, st in _steps(case, r):
        if op.startswith("IN "):
            for o in _outs(st):
                if b"\x0135=3\x01" in o:
                    return True
    return False


def c_force_logoff_silent(case, r, m):
    """negation of the hypothesis of c16_control_inbound_partial (normal return of process): an inbound message took
    the force_logoff exception path without a Logout on the wire (silent_disconnect, or a state other than
    logon_received): process returns false, nothing is sent, the control record is not updated."""
    for op, st in _steps(case, r):
        if op.startswith("IN "):
            evs = st.split(";")
            if "RET 0" in evs and not any(e.startswith("OUT") for e in evs) and not any(e.startswith("DELIVER") for e in evs):
                return True
    return False


def c_asa(case, r, m):
    """always_seqnum_assign = true (all statements are for false: DESIGN section 4, C18)."""
    return " asa=1" in _ops(case.line)[0]


CLASSIFIERS = {"nonplain-send": c_nonplain_send, "own-logout-noinc": c_own_logout, "reject-path": c_reject_path,
               "force-logoff-silent": c_force_logoff_silent,
               "always-seqnum-assign": c_asa}


def nontrivial(case, r):
    return len(_ops(case.line)) >= 4 and r.count("OUT ") >= 3


def extra_search(rng, seeds, tier):
    out = gen_cases(rng, "quick")
    for c in seeds[:10]:
        ops = _ops(c.line)
        for k in range(2, len(ops) + 1):
            out.append(Case("|".join(ops[:k]), "prefix"))
    return out


def shrink(case):
    ops = _ops(case.line)
    out = []
    if len(ops) > 2:
        out.append(Case("|".join(ops[:-1]), "shrink"))
        for k in range(1, len(ops) - 1):
            out.append(Case("|".join(ops[:k] + ops[k + 1:]), "shrink"))
    return out


def extra_evidence(ctx):
    kinds = {}
    for c in ctx["cases"]:
        for op in _ops(c.line):
            k = op.split(" ")[0]
            kinds[k] = kinds.get(k, 0) + 1
    return {"operation_counts": kinds}
