"""C10 — enumerated-value (realm) lookups describe only the actual value."""
import os
import subprocess

from vlib import build as B
from vlib.core import Case

ID = "C10"
LEVEL = "proof"
TECHNIQUE = ("Coq proof about a hand-written Gallina model of RealmBase::is_valid / get_rlm_idx and the printer's "
             "description lookup, over a Gallina transcription of libstdc++'s lower_bound / binary_search bisection "
             "(proved to return the count of smaller elements on sorted input); model tied to the real code by "
             "differential execution on the realms of the freshly generated schema")
LEVEL_TEXT = ("Theorems c10_is_valid_set / c10_is_valid_range: the validity check is membership / range inclusion for every "
              "sorted realm and every value; c10_idx_exact / c10_idx_exists_iff_member / c10_desc_exact: get_rlm_idx (lower_bound "
              "followed by an equality test) reports an index exactly for members, that member's own, and the printer shows "
              "exactly that member's description; c10_field_is_valid: through the field object the WHOLE value is looked up; "
              "c10_idx_orig_refuted keeps the witness against the routine before 63dae2a; c10_idx_range_refuted: range realms "
              "still get index 0 for every value.  Sortedness of every dumped realm (the theorems' hypothesis) is evaluated "
              "on each run.")
LEVEL_NOTE = ("Trusted: Coq kernel, extraction, the hand transcription (checked by the correspondence run), the harness/driver "
              "glue (value encodings, reading the description back from the printed text), g++/libstdc++ behaving as the "
              "bisection model on the tested inputs, doubles compared through their order-preserving integer key (no NaN).")
DESIGN_REF = "DESIGN.md section 4, C10; finding F17 (fixed by 63dae2a)"
PROPS_FILE = "Props/Properties_C10.v"
COQ_TARGETS = ["Props/Properties_C10.vo", "Extract/Extract_C10.vo"]
TRUSTED_BASE = ["Coq 8.16.1 kernel (coqc)", "Extraction with ExtrOcamlBasic, no Extract Constant; OCaml 4.13.1",
                "hand-written models coq/C10/Realm.v (field.hpp RealmBase, message.cpp printer) and coq/C12/Bisect.v "
                "(libstdc++ __lower_bound / binary_search), tied by differential execution",
                "ocaml/prelude.ml + ocaml/c10_driver.ml, harness/h_c10.cpp, vlib (generators, comparison)",
                "the realm dump is read through the same metadata pointers the library uses (BaseEntry::_rlm)"]
ASSUMPTIONS = ["operator< of the element types is the modelled strict total order: signed char / int / finite double (via an "
               "order-preserving integer key; NaN excluded), std::string by unsigned-byte lexicographic order",
               "the printer path constructs fields from well-formed text (one char, a non-negative decimal int <= 10^9 (fast_atoi shifts a negative value for negative text: C08), a string); "
               "text-to-value conversion is C08's subject",
               "range realms and double realms do not occur in the shipped schemas; they are exercised on RealmBase objects "
               "built by the harness from case data"]
RULE = ("every field with a realm in the compiled UTEST schema (thorough: also FIX44), dumped from the real metadata on each "
        "run: char/Boolean realms x all 256 chars (exhaustive), int realms x a +-3 window around every member plus "
        "0, -1, INT_MIN, INT_MAX, string realms x all strings of length <= 2 (thorough: <= 3, capped) over the member alphabet "
        "plus one foreign letter and one-character mutations of the members; each through RealmBase::get_rlm_idx/is_valid "
        "directly and through the field object created by the metadata (create_field; the specialisation's own is_valid() / "
        "get_rlm_idx() reached by dynamic_cast to the exact Field<T,tag>, the virtual get_rlm_idx(), print_field/print); string "
        "probes include members followed by space / tab / comma / other separators and further text, member + member, members "
        "containing spaces and their tokens, members followed / preceded by a NUL byte or other non-printable bytes (NUL-bearing "
        "values reach the field through the typed API -- Field<f8String,tag>(const f8String&, rlm) and set() -- so the byte survives); fields without a realm; synthetic realms also through typed Field<T,N>(value, &realm) "
        "objects for int, char, string and double; plus synthetic set and range realms (char, int, string, "
        "double; sizes 0..40; a malformed unsorted stream) with probes at members +-1. Probes that are non-members below the maximum (the "
        "zone of the defect fixed by 63dae2a) are kept on separate lines. non-trivial = realm with >= 2 members and >= 2 probes; "
        "distinct = distinct case lines")

_STATE = {}


def build(tier):
    thorough = tier == "thorough"
    if thorough:
        d44, objs44, _, _ = B.schema_objs("fix44", "asan")
        exe = B.harness("h_c10", runtime=None, schema="utest", extra=["-DC10_BOTH", "-I" + d44], extra_link=objs44)
    else:
        exe = B.harness("h_c10", runtime=None, schema="utest")
    _STATE["exe"] = exe
    _STATE["both"] = thorough
    _STATE["asan"] = "detect_leaks=0:abort_on_error=0:halt_on_error=1:allocator_may_return_null=1:detect_stack_use_after_return=0"
    return {"impl": [exe], "batch_timeout": 1800, "env": {"ASAN_OPTIONS": _STATE["asan"]}}


def _dump(which):
    env = dict(os.environ, ASAN_OPTIONS=_STATE["asan"])
    p = subprocess.run([_STATE["exe"], "--dump" + which], stdout=subprocess.PIPE, stderr=subprocess.PIPE, env=env, timeout=120)
    realms = []
    for line in p.stdout.decode(errors="replace").splitlines():
        w = line.split(" ")
        f = dict(x.split("=", 1) for x in w[1:])
        realms.append({"fnum": int(w[0]), "kind": f["K"], "type": f["T"], "name": f["N"],
                       "members": [m for m in f["M"].split(",") if m != ""]})
    return realms


# ---- value helpers (python side: only to aim the probes and to classify) ----
def key(ty, v):
    """sortable python key of an encoded value"""
    if ty == "s":
        return b"" if v == "-" else bytes.fromhex(v)
    return int(v)


def enc_s(b):
    return b.hex() if b else "-"


def split_zone(ty, members, probes):
    """(clean probes, probes in the defect zone = non-member below the maximum)"""
    mk = [key(ty, m) for m in members]
    mset = set(mk)
    mx = max(mk) if mk else None
    clean, zone = [], []
    for p in probes:
        k = key(ty, p)
        if k not in mset and mx is not None and k < mx:
            zone.append(p)
        else:
            clean.append(p)
    return clean, zone


def uniq(seq):
    seen, out = set(), []
    for x in seq:
        if x not in seen:
            seen.add(x)
            out.append(x)
    return out


INT_MIN, INT_MAX = -2**31, 2**31 - 1


def probes_for(realm, rng, tier):
    ty, mem = realm["type"], realm["members"]
    thorough = tier == "thorough"
    if ty in ("c", "b"):
        return [str(c) for c in range(-128, 128)]
    if ty == "i":
        vs = [0, -1, 1, INT_MIN, INT_MAX, INT_MIN + 1, INT_MAX - 1]
        for m in mem:
            vs += [int(m) + d for d in range(-3, 4)]
        return [str(v) for v in uniq(vs) if INT_MIN <= v <= INT_MAX]
    if ty == "s":
        mb = [key("s", m) for m in mem]
        alpha = sorted(set(b for m in mb for b in m))
        foreign = next(c for c in list(range(0x23, 0x7f)) if c not in alpha)
        alpha = alpha + [foreign]
        out = [b""]
        out += [bytes([a]) for a in alpha]
        out += [bytes([a, b]) for a in alpha for b in alpha]
        cap = 60000 if thorough else 600
        if len(alpha) ** 3 <= cap:
            out += [bytes([a, b, c]) for a in alpha for b in alpha for c in alpha]
        else:
            out += [bytes(rng.choice(alpha) for _ in range(3)) for _ in range(cap)]
        prio = []
        for m in mb:                      # near misses of each member (always sent through the field object too)
            prio.append(m)
            prio.append(m + bytes([foreign]))
            prio.append(m + m[-1:])
            prio.append(m[:-1])
            prio.append(m[1:])
            for d in (-1, 1):
                c = m[-1] + d
                if 1 <= c <= 255:
                    prio.append(m[:-1] + bytes([c]))
            prio.append(m.lower())
            prio.append(m.upper())
            prio.append(bytes([foreign]) + m)
            # a member followed by a separator and more text: multi-value fields are space delimited, a lookup
            # must still be about the WHOLE value
            other = rng.choice(mb)
            for sep in (b" ", b"\t", b",", b";", b"|", b"/", b"."):
                prio.append(m + sep)
                prio.append(m + sep + other)
                prio.append(sep + m)
            # NUL and other non-printable bytes: a std::string value carries its length, "CS\\0junk" is not "CS"
            for junk in (b"\x00", b"\x00junk", b"\x00\x00\x00", b"\x01", b"\x7f", b"\xff", b"\x00" + other):
                prio.append(m + junk)
            prio.append(b"\x00" + m)
            prio.append(b"\x01" + m)
            prio.append(m[:1] + b"\x00" + m[1:])
            prio.append(m + b"  ")
            prio.append(m + b" x")
            prio.append(m + b" " + m)
            # members that contain separators themselves ("ISO Country Code"): every token and token prefix
            for sep in (b" ", b"_", b"-"):
                if sep in m:
                    parts = m.split(sep)
                    for i in range(1, len(parts)):
                        prio.append(sep.join(parts[:i]))
                        prio.append(sep.join(parts[:i]) + sep)
                        prio.append(sep.join(parts[i:]))
                    prio.append(m.replace(sep, b""))
                    prio.append(m.replace(sep, sep + sep))
        prio = uniq(prio + [b"\x00", b"\x00\x00", b"\x01", b"\xff"])
        realm["_prio"] = set(enc_s(b) for b in prio)
        return [enc_s(b) for b in uniq(prio + out)]
    return []


def chunk(seq, n):
    for i in range(0, len(seq), n):
        yield seq[i:i + n]


def realm_cases(op_suffix, realm, rng, tier):
    cs = []
    ty = realm["type"]
    probes = probes_for(realm, rng, tier)
    clean, zone = split_zone(ty, realm["members"], probes)
    for op in ("D", "P"):
        pr_clean, pr_zone = clean, zone
        if op == "P":
            if ty == "i":
                pr_clean = [p for p in clean if 0 <= int(p) <= 10**9]
                pr_zone = [p for p in zone if 0 <= int(p) <= 10**9]
            if ty == "s":      # the field path costs a message per probe: all near misses, a sample of the rest
                lim = 2000 if tier == "thorough" else 150
                prio = realm.get("_prio", set())

                def pick(lst):
                    must = [p for p in lst if p in prio]
                    rest = [p for p in lst if p not in prio]
                    return must + (rest if len(rest) <= lim else rng.sample(rest, lim))
                pr_clean, pr_zone = pick(clean), pick(zone)
            if realm["fnum"] >= 1024:      # the harness's per-tag class table ends there
                pr_clean, pr_zone = [], []
            if ty == "b":      # every char maps to Y or N: members only
                pr_clean, pr_zone = probes, []
        for part, cls in ((pr_clean, "clean"), (pr_zone, "defect-zone")):
            for blk in chunk(part, 512):
                cs.append(Case("%s%s %d %s" % (op, op_suffix, realm["fnum"], " ".join(blk)),
                               "%s-%s-%s" % ({"D": "direct", "P": "printer"}[op], ty, cls)))
    return cs


def enc(ty, k):
    return enc_s(k) if ty == "s" else str(k)


def rand_elem(ty, rng):
    if ty == "c":
        return rng.randrange(-128, 128)
    if ty == "i":
        return rng.choice((rng.randrange(-50, 50), rng.randrange(INT_MIN, INT_MAX + 1), rng.randrange(-5, 6) * 1000))
    if ty == "d":
        # keys of doubles: small magnitudes, neighbours in ulps, both signs, zero
        base = rng.choice((0, 0x3ff0000000000000, 0x4024000000000000, 0x3fb999999999999a, 1, 0x7fefffffffffffff))
        k = base + rng.randrange(-3, 4)
        k = max(0, min(k, 0x7fefffffffffffff))
        return k if rng.random() < 0.6 else -k
    n = rng.choice((0, 1, 1, 2, 2, 3, 5))
    return bytes(rng.choice(b"ABCab01~\x00\x01\xff") for _ in range(n))


def neighbours(ty, k):
    if ty == "s":
        out = [k, k + b"A", k[:-1], k + b"\x7f", k + b"\x00", k + b"\x00A", b"\x00" + k]
        if k:
            for d in (-1, 1):
                c = k[-1] + d
                if 0x21 <= c <= 0xff:
                    out.append(k[:-1] + bytes([c]))
        return out
    lo, hi = {"c": (-128, 127), "i": (INT_MIN, INT_MAX), "d": (-0x7fefffffffffffff, 0x7fefffffffffffff)}[ty]
    return [v for v in (k - 1, k, k + 1) if lo <= v <= hi]


def synthetic_cases(rng, tier):
    cs = []
    thorough = tier == "thorough"
    reps = 40 if thorough else 6
    for ty in ("c", "i", "s", "d"):
        lo, hi = {"c": (-128, 127), "i": (INT_MIN, INT_MAX), "d": (-0x7fefffffffffffff, 0x7fefffffffffffff)}.get(ty, (None, None))
        for n in list(range(0, 18)) + [23, 31, 32, 33, 40]:
            for _ in range(reps if n > 1 else 1):
                mem = sorted(set(rand_elem(ty, rng) for _ in range(n)))
                probes = []
                for m in mem:
                    probes += neighbours(ty, m)
                probes += [rand_elem(ty, rng) for _ in range(4)]
                if ty != "s":
                    probes += [lo, hi, 0]
                probes = uniq(probes)
                memE = [enc(ty, m) for m in mem]
                clean, zone = split_zone(ty, memE, [enc(ty, p) for p in probes])
                for part, cls in ((clean, "clean"), (zone, "defect-zone")):
                    if part:
                        cs.append(Case("S s %s %d %s" % (ty, len(memE), " ".join(memE + part)), "synthetic-set-%s-%s" % (ty, cls)))
        # range realms: lo <= hi, lo == hi, and the malformed lo > hi
        for _ in range(reps * 4):
            a, b = rand_elem(ty, rng), rand_elem(ty, rng)
            mode = rng.randrange(6)
            if mode < 4:
                a, b = min(a, b), max(a, b)
            elif mode == 4:
                b = a
            probes = uniq(neighbours(ty, a) + neighbours(ty, b) + [rand_elem(ty, rng) for _ in range(3)])
            at_lo = [p for p in probes if p == a]
            other = [p for p in probes if p != a]
            for part, cls in ((at_lo, "at-lower-bound"), (other, "not-lower-bound")):
                if part:
                    cs.append(Case("S r %s 2 %s %s %s" % (ty, enc(ty, a), enc(ty, b), " ".join(enc(ty, p) for p in part)),
                                   "synthetic-range-%s-%s" % (ty, cls)))
        # malformed stream: unsorted / duplicated member arrays (the theorems' hypothesis fails; model and code
        # must still agree, the oracle is vacuous)
        for _ in range(reps * 3):
            n = rng.randrange(2, 12)
            mem = [rand_elem(ty, rng) for _ in range(n)]
            if rng.random() < 0.5:
                mem = sorted(mem, reverse=True)
            probes = uniq([p for m in mem for p in neighbours(ty, m)])
            cs.append(Case("S s %s %d %s" % (ty, n, " ".join(enc(ty, x) for x in mem + probes)), "synthetic-unsorted-%s" % ty))
    return cs


NOREALM_FIELDS = ((1, "s"), (11, "s"), (58, "s"), (34, "i"), (9, "i"), (206, "c"))   # Account ClOrdID Text MsgSeqNum BodyLength OptAttribute


def norealm_cases(sfx, rng):
    """fields without a realm: always valid, no index, printed bare"""
    cs = []
    for fnum, ty in NOREALM_FIELDS:
        if ty == "s":
            pr = [enc_s(b) for b in (b"", b"A", b"1", b"1 2", b"C ", b" ", b"ISO Country Code", b"abc,def")]
            pr += [enc_s(bytes(rng.choice(b"ABCab01 ~,") for _ in range(rng.randrange(1, 6)))) for _ in range(6)]
        elif ty == "i":
            pr = [str(v) for v in (0, 1, 2, 7, 99, 1000000000, rng.randrange(0, 10**6))]
        else:
            pr = [str(c) for c in (0, 32, 48, 49, 65, 89, 127, -1, -128, rng.randrange(-128, 128))]
        cs.append(Case("P%s %d %s" % (sfx, fnum, " ".join(uniq(pr))), "printer-norealm-%s" % ty))
    return cs


def gen_cases(rng, tier):
    cs = []
    _STATE["realms"] = _dump("")
    cs += norealm_cases("", rng)
    for r in _STATE["realms"]:
        cs += realm_cases("", r, rng, tier)
    if _STATE.get("both"):
        _STATE["realms44"] = _dump("4")
        cs += norealm_cases("4", rng)
        for r in _STATE["realms44"]:
            cs += realm_cases("4", r, rng, tier)
    cs += synthetic_cases(rng, tier)
    return cs


# ---- python re-statement of the oracle, used only by the classifiers ----
def _parse(case, impl):
    w = case.line.split(" ")
    op = w[0]
    f = dict(x.split("=", 1) for x in impl.split(" ") if "=" in x)
    if op == "S":
        kind, ty, n = w[1], w[2], int(w[3])
        mem, probes = w[4:4 + n], w[4 + n:]
    else:
        kind, ty = f["K"], f["T"]
        mem, probes = [m for m in f["M"].split(",") if m != ""], w[2:]
    res = [r for r in f.get("R", "").split(",") if r != ""]
    return op[0], kind, ty, mem, probes, res


def _failing(case, impl):
    """list of (probe key, member keys, reported idx, valid-ok) for probes on which the oracle fails; None if unparsable"""
    try:
        op, kind, ty, mem, probes, res = _parse(case, impl)
        if len(res) != len(probes):
            return None
        kty = "c" if ty == "b" else ty
        mk = [key(kty, m) for m in mem]
        out = []
        for p, r in zip(probes, res):
            k = key(kty, p)
            if op == "P" and ty == "b":
                k = 89 if (k - 32 if 97 <= k <= 122 else k) == 89 else 78
            parts = r.split(":")
            idx = int(parts[0])
            exp_idx = mk.index(k) if k in mk else -1

            def vok(flag):
                if kind == "n":
                    return flag == "1"
                if kind == "s":
                    return (flag == "1") == (k in mk)
                return (flag == "1") == (len(mk) >= 2 and mk[0] <= k <= mk[1])
            if op == "P":
                valid_ok = parts[1] == "-" or vok(parts[1])
            elif op == "S":
                # realm level, field level (same answers), and the field without a realm (no index, valid)
                valid_ok = (vok(parts[1]) and vok(parts[3]) and parts[2] == parts[0]
                            and parts[4] == "-1" and parts[5] == "1")
            else:
                valid_ok = vok(parts[1])
            if idx != exp_idx or not valid_ok:
                out.append((k, mk, idx, valid_ok, kind))
        return out
    except Exception:
        return None


def c_nonmember_below_max(case, r, m):
    fails = _failing(case, r)
    if not fails:
        return False
    for k, mk, idx, valid_ok, kind in fails:
        if kind != "s" or not valid_ok or k in mk or not mk or not (k < max(mk)):
            return False
        if mk != sorted(mk) or idx != min(i for i, x in enumerate(mk) if x > k):
            return False
    return True


def c_range_not_lower_bound(case, r, m):
    fails = _failing(case, r)
    if not fails:
        return False
    for k, mk, idx, valid_ok, kind in fails:
        if kind != "r" or not valid_ok or len(mk) != 2 or k == mk[0] or idx != 0:
            return False
    return True


CLASSIFIERS = {"nonmember-below-max": c_nonmember_below_max, "range-not-lower-bound": c_range_not_lower_bound}


def nontrivial(case, r):
    try:
        op, kind, ty, mem, probes, res = _parse(case, r)
        return len(mem) >= 2 and len(probes) >= 2 and len(res) == len(probes)
    except Exception:
        return False


def EXHAUSTIVE(tier):
    return False    # exhaustive for char realms only (all 256 values of every char/Boolean realm)


def extra_evidence(ctx):
    realms = _STATE.get("realms", [])
    by = {}
    for r in realms:
        by[r["type"]] = by.get(r["type"], 0) + 1
    return {"realms_dumped": len(realms) + len(_STATE.get("realms44", [])), "realm_types_utest": by,
            "char_realms_exhaustive": True}


def extra_search(rng, seeds, tier):
    out = []
    for r in _STATE.get("realms", []):
        out += realm_cases("", r, rng, "thorough" if r["type"] != "s" else tier)
    out += synthetic_cases(rng, "thorough")
    return out[:6000]


def shrink(case):
    w = case.line.split(" ")
    if w[0] == "S":
        n = int(w[3])
        head, probes = w[:4 + n], w[4 + n:]
    else:
        head, probes = w[:2], w[2:]
    if len(probes) <= 1:
        return []
    h = len(probes) // 2
    return [Case(" ".join(head + probes[:h]), "shrink"), Case(" ".join(head + probes[h:]), "shrink")]
