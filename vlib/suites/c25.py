"""C25 — Concurrent senders get unique consecutive sequence numbers."""
import glob
import json
import os
import re
import subprocess
import sys
import time
from concurrent.futures import ThreadPoolExecutor

if __name__ == "__main__":      # run as the parallel driver wrapper (see pardriver_main)
    sys.path.insert(0, os.path.dirname(os.path.dirname(os.path.dirname(os.path.abspath(__file__)))))

from vlib import build as B
from vlib import core
from vlib.core import Case
from vlib.suites import _sess as S

ID = "C25"
LEVEL = "proof"
TECHNIQUE = ("Coq proofs about an interleaving model (threads = program counter + locals, step = one atomic action, "
             "schedule = list of thread names, all schedules / thread counts / programs) on top of the session model: "
             "every schedule is reduced to the sequential run of Session::send_process over the linearisation, then "
             "C16/C17's lemmas about send_process; model tied to the real Session + Connection + FIXWriter by running "
             "2-8 REAL threads on one session over an in-memory socket (ASan/UBSan; thorough: TSan), feeding the observed "
             "wire order to the model as the schedule and comparing traces byte for byte")
LEVEL_TEXT = ("c25_threaded: pm_thread, for every schema, start state after START, thread count, programs of plain "
              "send/send_batch calls and EVERY schedule, at every point of the run the modelled wire is exactly the messages "
              "that have been through a critical section, each once, in that order, carrying start, start+1, ...; the store has "
              "grown by exactly the application messages under their numbers with their wire bytes; per thread sent ++ "
              "still-to-send = its program; every call returned the number of its messages. c25_pipelined: pm_pipeline (pushes "
              "with and without _con_spl, writer thread popping), every schedule: popped is a prefix of pushed (wire order = "
              "queue order), wire ++ batch buffer = the popped messages numbered consecutively, buffer empty whenever the last "
              "popped message closes a batch, and at quiescence everything submitted is on the wire. c25_foreign_in_batch: a "
              "foreign single queued inside a batch flushes the buffer, nothing lost or duplicated. c25_wire_content: the k-th "
              "wire message reads as a new message with MsgSeqNum start+k, the submitted type and body. c25_oracle_threaded / "
              "_pipelined: the oracle accepts the model's output under every schedule (pairwise different bodies). c25_numbers: "
              "acceptance implies pairwise different, consecutive numbers. c25_after_start: the state hypotheses hold after every "
              "START.")
LEVEL_NOTE = ("Trusted: Coq kernel; extraction; the hand transcriptions coq/C25/Conc.v and coq/Sess/*.v (checked by the "
              "correspondence run under the observed linearisation, byte-exact wire / store / numbers / return values); harness. "
              "Modelled, not proved: one critical section of _con_spl = one atomic step (mutual exclusion of pthread_spin_lock), "
              "the FastFlow queue = atomic FIFO (C30's theorems are the licence), sequentially consistent interleaving. The "
              "clause 'no data race occurs' is not a theorem: TSan cases (thread / coro: no report observed; pipeline: the "
              "FastFlow hand-over, one known finding). Theorems are for plain messages; custom sequence numbers, no_increment, "
              "SequenceReset are covered by the tie only (C16/C17 say what they do sequentially).")
DESIGN_REF = "DESIGN.md section 4, Concurrency group and C25; coq/Sess/READY.md"
PROPS_FILE = "Props/Properties_C25.v"
COQ_TARGETS = ["Props/Properties_C25.vo", "Extract/Extract_C25.vo"]
TRUSTED_BASE = ["Coq 8.16.1 kernel (coqc), vm_compute for the witnesses only",
                "Extraction with ExtrOcamlBasic, no Extract Constant; OCaml 4.13.1",
                "hand-written models coq/C25/Conc.v (FIXWriter::write / write_batch / execute, Session::send / send_batch as "
                "atomic steps) and coq/Sess/*.v (send_process, persisters); tied by differential execution under the observed "
                "linearisation",
                "coq/C25/Run.v (schedule derived from the observed wire), ocaml/c25_driver.ml (metadata loading, side file "
                "with the raw traces, comparison of raw traces), harness/h_c25.cpp + sess_harness.hpp + vsock.hpp + vclock.cpp, "
                "vlib (generators, sharding, TSan report parsing)",
                "schema metadata dumped from the freshly compiled f8c output",
                "g++ 12 -fsanitize=address,undefined (quick) and -fsanitize=thread (TSan cases) on runtime + generated classes "
                "+ harness, all with -DNDEBUG (see ASSUMPTIONS)"]
ASSUMPTIONS = ["pthread_spin_lock (_con_spl) gives mutual exclusion: a critical section is ONE atomic step of the model",
               "the FastFlow queue behaves as an atomic FIFO (push = slot reservation, pop) -- licensed by C30's theorems about "
               "its interleaving model, not proved from the C++ memory model",
               "absence of data races is not provable in Coq: it is exercised under TSan (thorough tier, plus the known-finding "
               "witness in every run); GCC 12's TSan pass does not instrument `x = f()` stores of a returned object, so the "
               "race DESIGN expected on Session::_last_sent (Tickval::now() vs heartbeat_service) cannot be observed",
               "the schedules are whatever the OS produces for 2-8 threads (with pseudo-random yields); the theorems cover "
               "all schedules, the tie samples them",
               "runtime and harness are compiled with -DNDEBUG as a release build: FIXWriter::stop() pushes a null pointer "
               "into the FastFlow queue, which asserts against it (finding reported, outside this property)",
               "TSan build: pthread_create/pthread_join are interposed in the harness so that fix8's joins on never-started or "
               "already-joined threads (which TSan treats as fatal) return ESRCH (finding reported)",
               "the batch buffer is a byte list in the model (no capacity / reallocation): correct use of the std::string when an "
               "append reallocates is covered by the tie only, with batches aimed at the capacity read from "
               "`_batchmsgs_buffer.reserve(...)` in runtime/session.cpp (82,240 bytes) and at twice that",
               "the persisters are not thread-safe: in pm_thread both the senders (send_process) and the reader thread "
               "(update_persist_seqnums) take Session::_per_spl around their puts -- the model's answer for the harness's "
               "overlap counter (a Persister wrapper with an in-flight counter that dwells 20 us in every put) is OVERLAP 0",
               "virtual clock frozen during a concurrent phase (SendingTime constant); plain messages (no custom seqnum / "
               "no_increment / SequenceReset / preset MsgSeqNum) with SOH- and NUL-free values"]
RULE = ("one real session per case (initiator / acceptor, memory / file / no persister, start numbers 1, 2, 9.., 99.., 999..), "
        "process models pm_thread, pm_pipeline and a few pm_coro; a CONC operation starts 1-8 real threads with 1-1000 calls "
        "each drawn from ALL public send entry points of Session, mixed across and within threads -- send(Message*) with "
        "destroy true / false, the by-reference send(Message&), send_batch with destroy true / false -- plus contention "
        "cases (4-8 threads x 500-1000 sends without yields, by reference only / against the other entry points) (batches of 1-4, application messages of four types and administrative messages, every "
        "body carries thread id and index), at most 4000 messages; 2-3 threads calling send_batch with message counts that outgrow the batch buffer step by step (10 fits; 11, 21, 41, 81 = "
        "one more than the capacity reached so far, derived from the reserve expression), each call released while another "
        "thread's batch is in flight (release point = next_send reached a given value; the harness delays the freeing of "
        "blocks >= 64 KB until two more messages are through); batches of 79-170 messages (up to 8 KB each) whose total size is just below / exactly at / just above the capacity of "
        "Session::_batchmsgs_buffer (parsed from the tree under test) with the crossing on the last or an inner message, a second "
        "crossing at twice the capacity, sequentially (BATCH) and inside CONC in both process models, with foreign singles; long "
        "single messages; pm_thread cases in which the counterparty streams 150-300 valid Heartbeats while 2-4 threads send (the reader "
        "thread's control-record puts against the senders' puts; OVERLAP must be 0); small cases aimed at the boundaries (empty program, one "
        "thread, batch of one, two CONC phases, a foreign single inside a batch); malformed operations. non-trivial = at "
        "least 2 threads with messages and at least 20 messages on the wire; distinct = distinct case lines")

NDEBUG = ["-DNDEBUG"]


def build_exe(variant):
    """h_c25 + runtime + generated classes, all with -DNDEBUG (B.harness cannot pass flags to the runtime objects)."""
    sdir, cpps, prefix, ns = B.gen_schema("utest")
    sobjs = B.compile_many(cpps, variant, extra=["-I" + sdir, "-O0"] + NDEBUG, extra_hash=sdir)
    hdir = os.path.join(B.VERIF, "harness")
    inc = ["-I" + hdir, "-I" + sdir]
    srcs = [os.path.join(hdir, "h_c25.cpp"), os.path.join(hdir, "vclock.cpp")]
    hh = B.sha(*[B.read(p) for p in sorted(glob.glob(os.path.join(hdir, "*.hpp")))])
    hobjs = B.compile_many(srcs, variant, extra=NDEBUG + inc, extra_hash=hh + sdir)
    robjs = B.runtime_objs(variant, extra=NDEBUG)
    return B.link(hobjs + sobjs + robjs, "h_c25", variant)


def build(tier):
    exe = build_exe("asan")
    meta = exe + ".meta"
    if not os.path.exists(meta):
        env = dict(os.environ, ASAN_OPTIONS="detect_leaks=0")
        out = subprocess.run([exe, "--meta"], stdout=subprocess.PIPE, stderr=subprocess.PIPE, env=env, timeout=120)
        if out.returncode != 0 or not out.stdout:
            raise B.BuildError("h_c25 --meta failed: " + out.stderr.decode(errors="replace")[-2000:])
        tmp = meta + ".tmp%d" % os.getpid()
        open(tmp, "wb").write(out.stdout)
        os.rename(tmp, meta)
    # the TSan build is needed in every tier: the known-finding witness is a TSan case
    tsan = build_exe("tsan")
    return {"impl": [exe], "tsan": [tsan], "driver_args": [meta], "per_case_timeout": 60}


# ------------------------------------------------------------------------------------------------- running
SEP = " ## "


def _family_ffq(acc, who, writer):
    """A report that is a consequence of the FastFlow queue synchronising through plain volatile accesses (no C++11
    atomics): TSan sees no happens-before between a thread that pushes and the writer thread that pops.  Either an
    access inside the queue itself, or a pair of accesses of which exactly ONE is by the writer thread (the thread
    created by FIXWriter::start) -- the message objects handed over, and everything else the application / main thread
    did before the push and the writer does after the pop (e.g. the persister the harness read at the previous
    snapshot).  An access made from Session::heartbeat_service (the ticker thread) is never put into this family."""
    for st in acc:
        for fn, path in st:
            if "/ff/" in path or fn.startswith("ff::"):
                return True
    if len(acc) == 2 and writer is not None and (who[0] == writer) != (who[1] == writer):
        other = acc[1] if who[0] == writer else acc[0]
        if not any("heartbeat_service" in fn for fn, _ in other):
            return True
    return False


def _short(fn):
    prev = None
    while prev != fn:
        prev = fn
        fn = re.sub(r"\([^()]*\)", "", fn)
        fn = re.sub(r"<[^<>]*>", "", fn)
    return fn.replace(" const", "").replace(" ", "")


FRAME_RE = re.compile(r"\s+#\d+ (.*?) (\S+?)(?::\d+)*(?: \(\S+\))?$")
ACCESS_RE = re.compile(r"  (?:Previous )?(?:atomic )?(?:read|write) of size \d+ at \S+ by (main thread|thread T\d+)", re.I)
THREAD_RE = re.compile(r"  Thread (T\d+) ")


def tsan_races(err, pipeline):
    """Site keys of the data races ThreadSanitizer reported while the sender threads ran (between the harness' markers)."""
    keys = set()
    windows = re.findall(r"C25-CONC-BEGIN(.*?)(?:C25-CONC-END|$)", err, re.S)
    for w in windows:
        for rep in re.split(r"^==================$", w, flags=re.M):
            if "WARNING: ThreadSanitizer: data race" not in rep:
                if "WARNING: ThreadSanitizer:" in rep:
                    keys.add(re.search(r"WARNING: ThreadSanitizer: ([a-z \-]+)", rep).group(1).strip().replace(" ", "-"))
                continue
            acc, who, threads, cur = [], [], {}, None
            for line in rep.split("\n"):
                m = ACCESS_RE.match(line)
                t = THREAD_RE.match(line)
                if m:
                    cur = []
                    acc.append(cur)
                    who.append(m.group(1).replace("thread ", ""))
                elif t:
                    cur = threads.setdefault(t.group(1), [])
                elif line.startswith("  Location is") or line.startswith("  Mutex ") or line.startswith("SUMMARY"):
                    cur = None
                else:
                    f = FRAME_RE.match(line)
                    if f and cur is not None:
                        cur.append((f.group(1), f.group(2)))
            writer = None
            for tn, st in threads.items():
                if any("FIXWriter::start" in fn for fn, _ in st):
                    writer = tn
            if pipeline and _family_ffq(acc, who, writer):
                keys.add("ff-queue-handoff")
                continue
            sites = []
            for st in acc[:2]:
                site = "?"
                for fn, path in st:
                    if path.startswith(B.REPO + "/"):
                        site = os.path.relpath(path, B.REPO) + ":" + _short(fn)
                        break
                    if "/harness/" in path and site == "?":
                        site = "harness:" + _short(fn)
                sites.append(site)
            keys.add("~".join(sorted(sites)))
    return sorted(keys)


def _run_tsan(built, line):
    env = dict(os.environ)
    env["TSAN_OPTIONS"] = "halt_on_error=0 report_thread_leaks=0 report_signal_unsafe=0 exitcode=0"
    env["VERIF_RUN_DIR"] = core.run_dir()
    try:
        p = subprocess.run(built["tsan"], input=(line + "\n").encode(), stdout=subprocess.PIPE, stderr=subprocess.PIPE,
                           timeout=400, env=env, cwd=core.run_dir())
    except subprocess.TimeoutExpired:
        return "HANG"
    out = p.stdout.decode(errors="replace").split("\n")
    err = p.stderr.decode(errors="replace")
    if not out or SEP not in out[0]:
        return "CRASH " + core.summarize_crash(err, p.returncode)
    races = tsan_races(err, "pm=pipeline" in line.split("|")[0])
    canon, _, raw = out[0].partition(SEP)
    return canon + "".join(" RACE " + k for k in races) + SEP + raw


def run_impl(built, cases, tier):
    """ASan cases: sharded over a few harness processes; TSan cases (START ... san=tsan): one process each, stderr
    parsed into RACE tokens.  The harness prints '<canonical> ## <raw>': the canonical part is the result the framework
    compares, the raw part (schedule dependent) goes to the model driver through a side file."""
    t_start = time.time()
    lines = [c.line for c in cases]
    res = [None] * len(lines)
    t_idx = [i for i, l in enumerate(lines) if " san=tsan" in l.split("|")[0]]
    a_idx = [i for i in range(len(lines)) if i not in set(t_idx)]
    n = 6 if len(a_idx) >= 24 else 1
    # interleave so that every shard gets big and small cases
    shards = [a_idx[k::n] for k in range(n)]
    with ThreadPoolExecutor(max_workers=n + 2) as ex:
        futs = [ex.submit(core.run_lines, built["impl"], [lines[i] for i in sh], 2400 if tier == "thorough" else 400, 300 if tier == "thorough" else 120, built.get("env")) for sh in shards]
        tfuts = [(i, ex.submit(_run_tsan, built, lines[i])) for i in t_idx]
        for sh, f in zip(shards, futs):
            for i, r in zip(sh, f.result()):
                res[i] = r
        for i, f in tfuts:
            res[i] = f.result()
    print("[c25] harness phase %.1fs: %d ASan cases in %d shards, %d TSan cases" % (time.time() - t_start, len(a_idx), n, len(t_idx)),
          file=sys.stderr, flush=True)
    canon, raw = [], []
    for r in res:
        c, sep, w = r.partition(SEP)
        canon.append(c)
        raw.append(w if sep else "")
    side = os.path.join(core.run_dir(), "c25-raw-%d.txt" % len(os.listdir(core.run_dir())))
    with open(side, "w") as f:
        f.write("\n".join(raw) + "\n")
    # the model driver is run through pardriver_main below: several driver processes side by side (the extracted
    # model spends ~2 ms per message on byte lists), each with a large stack (non-tail-recursive list functions on
    # lists of a few megabytes); argv = python this-file --pardriver driver metadata side-file
    base = built.setdefault("driver_base", list(built["driver"][:2]))
    built["driver"] = [sys.executable, os.path.abspath(__file__), "--pardriver"] + base + [side]
    return canon


# ------------------------------------------------------------------------------------------------- generators
APP = ["D", "D", "D", "F", "8", "j"]


def msg_spec(rng, tid, idx, now=S.T0, admin_share=0.1):
    ident = "t%d.%d" % (tid, idx)
    if rng.random() < admin_share:
        k = rng.randrange(3)
        if k == 0:
            return S.spec("0", [(112, ident)])
        if k == 1:
            return S.spec("1", [(112, ident)])
        return S.spec("5", [(58, ident)])
    t = rng.choice(APP)
    f = S.app_fields(rng, t, now)
    key = {"D": 11, "F": 41, "8": 37, "j": 58}[t]
    f = [(k, v) for k, v in f if k != key] + [(key, ident)]
    return S.spec(t, f)


def gen_prog(rng, tid, ncalls, budget, batch_share=0.25, kinds="SSPRR", bkinds="BBC", admin_share=0.1):
    """ncalls calls using at most `budget` messages, drawn from ALL public send entry points of Session
    (S send(Message*, destroy), P send(Message*, keep), R send(Message&), B/C send_batch destroy / keep);
    returns (text, messages used)"""
    calls, used, idx = [], 0, 0
    for _ in range(ncalls):
        if used >= budget:
            break
        if bkinds and rng.random() < batch_share:
            k = min(rng.choice([1, 2, 2, 3, 3, 4]), budget - used)
            calls.append(rng.choice(bkinds) + ":" + ";".join(msg_spec(rng, tid, idx + j, admin_share=admin_share) for j in range(k)))
        else:
            k = 1
            calls.append(rng.choice(kinds) + ":" + msg_spec(rng, tid, idx, admin_share=admin_share))
        idx += k
        used += k
    return ("+".join(calls) if calls else "-"), used


def start_op(rng, pm, san=None, role=None, persist=None):
    role = role or rng.choice("IA")
    persist = persist or rng.choice(["mem", "mem", "file", "none"])
    p = ["START", role, persist, "pm=" + pm, "asa=0", "hb=30"]
    if role == "I" and rng.random() < 0.5:
        p.append("ss=%d" % rng.choice([2, 9, 10, 95, 99, 100, 990, 999, 1000, 9990, 99990]))
    if san:
        p.append("san=" + san)
    return " ".join(p)


def conc_op(rng, nthreads, lo, hi, budget=4000, tick=False, batch_share=0.25, yields=True, **kw):
    toks = ["CONC"]
    if yields:
        toks.append("y=%d" % rng.randrange(1, 10**6))
    if tick:
        toks.append("tick=%d" % rng.choice([1, 5, 20]))
    left = budget
    for t in range(nthreads):
        share = max(1, left // (nthreads - t))
        txt, used = gen_prog(rng, t, rng.randint(lo, hi), share, batch_share, **kw)
        left -= used
        toks.append(txt)
    return " ".join(toks)


def contention_case(rng, pm, nthreads, ncalls, kinds, bkinds="", san=None):
    """many short calls and no yields: the threads hammer the session; `kinds` says which entry points"""
    st = start_op(rng, pm, san, persist=rng.choice(["mem", "none"]))
    return st + "|" + conc_op(rng, nthreads, ncalls, ncalls, batch_share=0.15 if bkinds else 0.0, yields=False,
                              kinds=kinds, bkinds=bkinds, admin_share=0.0)


def big_case(rng, pm, san=None, lo=50, hi=500, nthreads=None, tick=False):
    n = nthreads or rng.randint(2, 8)
    logon = ""
    role = None
    if tick:
        # the ticker only reads the time stamps if a Logon has been received (frozen clock): initiator + inbound Logon
        role = "I"
    st = start_op(rng, pm, san, role=role)
    ops = [st]
    if tick:
        ss = re.search(r" ss=(\d+)", st)
        ops.append("IN " + S.fixmsg("A", 1, "SRV", "CLI", [(98, 0), (108, 30)]).hex())
    ops.append(conc_op(rng, n, lo, hi, tick=tick, kinds="SSSPR" if pm == "pipeline" else "SSPRR"))
    return "|".join(ops)


# ------------------------------------------------------------------------------------------------- batch buffer boundary
def batch_capacity():
    """What Session's constructors reserve for _batchmsgs_buffer, read from the tree under test:
    `_batchmsgs_buffer.reserve(<expr>)` in runtime/session.cpp, with the macros / constants of the expression taken from
    f8config.h and field.hpp.  Appends beyond it make std::string reallocate (libstdc++: to max(2 * capacity, needed))."""
    src = open(os.path.join(B.REPO, "runtime/session.cpp")).read()
    m = re.search(r"_batchmsgs_buffer\.reserve\(([^;]*)\);", src)
    if not m:
        return None
    expr = m.group(1)
    texts = []
    for d in B.include_dir():
        for f in ("fix8/f8config.h", "fix8/field.hpp", "fix8/f8types.hpp", "fix8/message.hpp"):
            try:
                texts.append(open(os.path.join(d, f)).read())
            except OSError:
                pass
    hdr = "\n".join(texts)
    for name in set(re.findall(r"[A-Za-z_][A-Za-z_0-9]*", expr)):
        v = re.search(r"#\s*define\s+%s\s+(\d+)" % name, hdr) or re.search(r"\b%s\s*[({=]\s*(\d+)" % name, hdr)
        if not v:
            return None
        expr = re.sub(r"\b%s\b" % name, v.group(1), expr)
    if not re.fullmatch(r"[\d\s+*()\-]+", expr):
        return None
    return int(eval(expr))


def wire_len(body_fields, seq, sender="CLI", target="SRV", mtype="D"):
    body = "35=%s\x0149=%s\x0156=%s\x0134=%d\x0152=%s\x01" % (mtype, sender, target, seq, S.ts(S.T0))
    body += "".join("%s=%s\x01" % (k, v) for k, v in body_fields)
    return len("8=FIX.4.2\x019=%d\x01" % len(body)) + len(body) + 7


def sized_order(ident, seq, size):
    """A NewOrderSingle whose encoding as message number `seq` of an initiator CLI->SRV is exactly `size` bytes
    (the Text field is the padding; size must stay below FIX8_MAX_MSG_LENGTH)."""
    base = [(11, ident), (21, "1"), (55, "IBM"), (54, "1"), (60, S.ts(S.T0)), (40, "1")]
    pad = max(1, size - wire_len(base + [(58, "")], seq))
    for _ in range(6):
        n = wire_len(base + [(58, "x" * pad)], seq)
        if n == size:
            break
        pad = max(1, pad + size - n)
    return S.spec("D", base + [(58, "x" * pad)]), wire_len(base + [(58, "x" * pad)], seq)


def sized_batch(tid, first_seq, sizes, idx0=0):
    """msgspecs of a batch whose encodings have exactly the given sizes; returns (specs, achieved sizes)"""
    specs, got = [], []
    for k, sz in enumerate(sizes):
        sp, n = sized_order("t%d.%d" % (tid, idx0 + k), first_seq + k, sz)
        specs.append(sp)
        got.append(n)
    return specs, got


def boundary_sizes(cap, total, last, unit=975):
    """sizes of a batch of `total` bytes whose last message has `last` bytes, the others about `unit`"""
    rest = total - last
    n = max(1, rest // unit)
    sizes = [unit] * n
    sizes[-1] += rest - unit * n
    if sizes[-1] > 7000:                   # keep every message below the 8 KB encode buffer
        extra = sizes[-1] - unit
        sizes[-1] = unit
        sizes += [extra // 2, extra - extra // 2]
    return sizes + [last]


def boundary_cases(rng, thorough):
    """Batches aimed at the capacity of Session::_batchmsgs_buffer (send_process's flush path appends the flushing message
    to the buffer and hands the buffer to the socket): totals just below / exactly at / just above the reserve with the
    crossing on the LAST message or on an inner one, a second crossing at twice the capacity, long single messages.
    ss=1000: the Logon is 1000, the batch starts at 1001 (four-digit numbers throughout, so the sizes are exact)."""
    cap = batch_capacity()
    if not cap or cap > 400000:
        return []
    cs = []
    first = 1001

    def start(pm, per="mem"):
        return "START I %s pm=%s asa=0 hb=30 ss=1000" % (per, pm)

    shapes = [("below", cap - 1, 6176), ("exact", cap, 6176), ("above-last", cap + 1, 6176),
              ("above-last-small", cap + 300, 975), ("last-alone-crosses", cap + 5000, 7900)]
    for name, total, last in shapes:
        sizes = boundary_sizes(cap, total, last)
        specs, got = sized_batch(0, first, sizes)
        assert sum(got) == total and max(got) < 8100, (name, sum(got), total, max(got))
        b = ";".join(specs)
        # sequential (the session harness' BATCH), one thread of a CONC, and against other senders
        if thorough or name in ("exact", "above-last"):
            cs.append(Case("%s|BATCH %s|SEND %s" % (start("thread", rng.choice(["mem", "file"])), b, sized_order("t9.0", first + len(specs), 500)[0]),
                           "boundary-seq-" + name))
        if thorough or name == "above-last":
            pms = ("thread", "pipeline")
        elif name in ("below", "above-last-small"):
            pms = (rng.choice(["thread", "pipeline"]),)
        else:
            pms = ()
        for pm in pms:
            cs.append(Case("%s|CONC B:%s" % (start(pm), b), "boundary-conc-" + name))
    # the crossing on an inner message (the flushing message then fits: no reallocation while the pointer is held)
    sizes = boundary_sizes(cap, cap - 3000, 975) + [975] * 8
    specs, got = sized_batch(0, first, sizes)
    if thorough:
        cs.append(Case("%s|BATCH %s" % (start("thread"), ";".join(specs)), "boundary-inner"))
    cs.append(Case("%s|CONC C:%s" % (start("pipeline"), ";".join(specs)), "boundary-inner"))
    # first crossing on the last message, then a second batch crossing twice the capacity on its last message
    s1 = boundary_sizes(cap, cap + 1, 6176)
    sp1, g1 = sized_batch(0, first, s1)
    grown = max(2 * cap, sum(g1))
    s2 = boundary_sizes(cap, grown + 1, 6176)
    sp2, g2 = sized_batch(0, first + len(sp1), s2, idx0=len(sp1))
    if thorough:
        cs.append(Case("%s|BATCH %s|BATCH %s" % (start("thread"), ";".join(sp1), ";".join(sp2)), "boundary-twice"))
        cs.append(Case("%s|CONC B:%s+B:%s" % (start("pipeline"), ";".join(sp1), ";".join(sp2)), "boundary-twice"))
    # a near-full batch of one thread while other threads send singles (pm_pipeline: a foreign single may be the one that
    # flushes the partial batch; pm_thread: the batch is one critical section); not size-exact: the numbers depend on the schedule
    sizes = boundary_sizes(cap, cap + 1, 6176)
    specs, got = sized_batch(0, first, sizes)
    for pm in (("thread", "pipeline") if thorough else ("pipeline",)):
        singles = "+".join("S:" + sized_order("t1.%d" % i, first, rng.choice([200, 975, 3000, 6176]))[0] for i in range(12))
        refs = "+".join(("S:" if pm == "pipeline" else "R:") + sized_order("t2.%d" % i, first, rng.choice([200, 975, 7900]))[0] for i in range(12))
        cs.append(Case("%s|CONC y=%d B:%s %s %s" % (start(pm), rng.randrange(1, 999), ";".join(specs), singles, refs), "boundary-foreign"))
    # long single messages
    longs = "+".join(k + ":" + sized_order("t0.%d" % i, first + i, sz)[0] for i, (k, sz) in enumerate([("S", 7900), ("R", 8000), ("P", 6176), ("S", 8100)]))
    cs.append(Case("%s|CONC %s S:%s" % (start("thread"), longs, sized_order("t1.0", first, 7000)[0]), "long-singles"))
    return cs


def batch_unit():
    """bytes per message in the reserve expression of _batchmsgs_buffer: the parenthesised factor of
    reserve(10 * (FIX8_MAX_MSG_LENGTH + HEADER_CALC_OFFSET)) -- 8224"""
    cap = batch_capacity()
    src = open(os.path.join(B.REPO, "runtime/session.cpp")).read()
    m = re.search(r"_batchmsgs_buffer\.reserve\(\s*(\d+)\s*\*", src)
    if cap and m and int(m.group(1)) > 0 and cap % int(m.group(1)) == 0:
        return cap // int(m.group(1))
    return None


def growth_case(rng, pm, nthreads, nbatches, size=2000, at=0.2, san=None, counts=None):
    """send_batch calls whose message COUNTS outgrow the batch buffer step by step, dealt round robin to the threads, each
    released while the previous one -- another thread's -- is in flight (release point = `at` of the way through it).
    The buffer is reserved for cap/unit = 10 messages of maximal size; std::string grows to max(needed, twice the old
    capacity), so a call that sized the buffer by its message count would reallocate at counts 11, 21, 41, 81, ...:
    the counts used here are 10 (fits), then each time one more than the capacity so reached.  Anything send_batch does
    to _batchmsgs_buffer BEFORE FIXWriter::write_batch takes _con_spl then meets a send_process that is appending to it
    (the harness lets two more messages through before a big block is freed, see h_c25.cpp)."""
    cap, unit = batch_capacity(), batch_unit()
    if counts is None:
        if not cap or not unit:
            counts = [10, 11, 21, 41, 81][:nbatches]
        else:
            counts, c = [cap // unit], cap
            while len(counts) < nbatches:
                k = c // unit + 1
                counts.append(k)
                c = max(k * unit, 2 * c)
    st = start_op(rng, pm, san, persist=rng.choice(["mem", "none"]))
    progs = [[] for _ in range(nthreads)]
    idx = [0] * nthreads
    done, prev = 0, 0
    for j, k in enumerate(counts):
        t = j % nthreads
        specs = []
        for _ in range(k):
            specs.append(S.spec("D", [(11, "t%d.%d" % (t, idx[t])), (21, "1"), (55, "IBM"), (54, "1"), (60, S.ts(S.T0)), (40, "1"),
                                      (58, "x" * max(1, size + rng.randrange(-100, 100)))]))
            idx[t] += 1
        rel = "@%d" % (done + max(1, int(prev * at))) if j else ""
        progs[t].append(rng.choice("BBC") + rel + ":" + ";".join(specs))
        done += prev
        prev = k
    return st + "|CONC " + " ".join("+".join(p) if p else "-" for p in progs)


def inbound_case(rng, nthreads, lo, hi, nin, san=None):
    """pm_thread with a persister and a counterparty that streams `nin` valid Heartbeats (consecutive numbers after the
    Logon) into the socket while the threads send and batch: the reader thread's update_persist_seqnums (under _per_spl)
    runs against the senders' persister puts.  Memory persister: the interleaving of the control-record puts is not
    observable, so the trace stays schedule-independent."""
    st = "START I mem pm=thread asa=0 hb=30" + (" san=" + san if san else "")
    logon = S.fixmsg("A", 1, "SRV", "CLI", [(98, 0), (108, 30)]).hex()
    hbs = ",".join(S.fixmsg("0", 2 + i, "SRV", "CLI").hex() for i in range(nin))
    conc = conc_op(rng, nthreads, lo, hi, budget=1500, kinds="SSPR", bkinds="BC")
    toks = conc.split(" ")
    return "%s|IN %s|%s" % (st, logon, " ".join(toks[:2] + ["in=" + hbs] + toks[2:]))


def small_cases(rng, pm):
    cs = []
    d = lambda t, i: S.spec("D", [(11, "t%d.%d" % (t, i)), (21, "1"), (55, "IBM"), (54, "1"), (60, S.ts(S.T0)), (40, "1")])
    hb = lambda t, i: S.spec("0", [(112, "t%d.%d" % (t, i))])
    st = lambda role="I", per="mem", extra="": "START %s %s pm=%s asa=0 hb=30%s" % (role, per, pm, extra)
    # one thread; empty programs; batch of one; admin last / first in a batch
    cs.append("%s|CONC S:%s+S:%s" % (st(), d(0, 0), d(0, 1)))
    cs.append("%s|CONC - S:%s -" % (st("A"), d(1, 0)))
    cs.append("%s|CONC - -" % st())
    cs.append("%s|CONC B:%s B:%s;%s" % (st("I", "file"), d(0, 0), d(1, 0), hb(1, 1)))
    cs.append("%s|CONC B:%s;%s;%s S:%s+S:%s" % (st("A", "file"), hb(0, 0), d(0, 1), d(0, 2), d(1, 0), d(1, 1)))
    # a long batch against many singles: in pm_pipeline the singles land inside the batch
    for k in (2, 3, 4):
        batch = "B:" + ";".join(d(0, i) for i in range(k))
        singles = "+".join("S:" + d(1, i) for i in range(6))
        cs.append("%s|CONC y=%d %s %s %s" % (st("I", "mem", " ss=%d" % (10 ** k - 2)), rng.randrange(1, 999), "+".join([batch] * 1 + ["B:" + ";".join(d(0, k + j * k + i) for i in range(k)) for j in range(5)]), singles,
                                         "+".join("S:" + d(2, i) for i in range(6))))
    # every entry point side by side: by reference against by pointer (deleted / kept) against batches (deleted / kept)
    cs.append("%s|CONC R:%s+R:%s S:%s+P:%s B:%s;%s+C:%s;%s R:%s+C:%s" %
              (st("I", "file"), d(0, 0), hb(0, 1), d(1, 0), d(1, 1), d(2, 0), d(2, 1), d(2, 2), hb(2, 3), d(3, 0), d(3, 1)))
    cs.append("%s|CONC %s %s" % (st("A"), "+".join("R:" + d(0, i) for i in range(8)), "+".join("R:" + d(1, i) for i in range(8))))
    # two concurrent phases on one session
    cs.append("%s|CONC S:%s S:%s|CONC y=3 B:%s;%s S:%s" % (st(), d(0, 0), d(1, 0), d(0, 1), d(0, 2), d(1, 1)))
    # sequential operations before and after (thread model only: the base harness has no writer wait for them)
    if pm != "pipeline":
        cs.append("%s|SEND %s|CONC y=5 S:%s+B:%s;%s S:%s|SEND %s|BATCH %s;%s" %
                  (st("I", "file"), d(9, 0), d(0, 0), d(0, 1), d(0, 2), d(1, 0), d(9, 1), d(9, 2), hb(9, 3)))
    return [Case(c, "small-" + pm) for c in cs]


def malformed_cases(pm):
    d = S.spec("D", [(11, "x"), (21, "1"), (55, "IBM"), (54, "1"), (60, S.ts(S.T0)), (40, "1")])
    st = "START I mem pm=%s asa=0 hb=30" % pm
    return [Case("%s|CONC S:%s X:%s" % (st, d, d), "malformed"),                       # not a call
            Case("%s|CONC S:%s S:ZZ/B11=41" % (st, d), "malformed"),                   # unknown message type
            Case("%s|CONC S:%s B:%s;D/B99999=41" % (st, d, d), "malformed"),           # field not legal
            Case("CONC S:%s" % d, "malformed")]                                        # no session


def gen_cases(rng, tier):
    thorough = tier == "thorough"
    cs = []
    cs += boundary_cases(rng, thorough)
    for pm in ("thread", "pipeline", "coro"):
        cs += small_cases(rng, pm)
    for pm in ("thread", "pipeline"):
        cs += malformed_cases(pm)
    # many medium cases: 2-8 threads x 5-60 calls
    for _ in range(160 if thorough else 24):
        pm = rng.choice(["thread", "thread", "pipeline", "pipeline", "coro"])
        cs.append(Case(big_case(rng, pm, lo=5, hi=60), "medium-" + pm))
    # the sizes of the plan: 2-8 threads x 50-500 calls
    for _ in range(60 if thorough else 5):
        pm = rng.choice(["thread", "pipeline"])
        cs.append(Case(big_case(rng, pm), "big-" + pm))
    for pm in (("thread", "pipeline") if thorough else ("pipeline",)):
        cs.append(Case(big_case(rng, pm, lo=480, hi=500, nthreads=8), "big-" + pm))
    # contention: 4-8 threads x 500-1000 single sends without yields; by reference only, by reference against the other
    # entry points, one entry point per thread -- a path into send_process that misses _con_spl shows here
    cs.append(Case(contention_case(rng, "thread", 4, 1000, "R"), "contention-ref"))
    if thorough:
        cs.append(Case(contention_case(rng, "thread", 8, 500, "R"), "contention-ref"))
        cs.append(Case(contention_case(rng, "thread", 6, 650, "SP", "BC"), "contention-ptr"))
    cs.append(Case(contention_case(rng, "thread", 4, 600, "RS"), "contention-mixed"))
    cs.append(Case(contention_case(rng, "thread", 8, 300, "RSP", "BC"), "contention-mixed"))
    cs.append(Case(contention_case(rng, "coro", 6, 400, "RRSP"), "contention-mixed"))
    # message COUNTS that outgrow the batch buffer (10 | 11, 21, 41, 81), each batch released while another thread's is in flight
    for pm, nt, nb, sz, at in (("thread", 2, 5, 2000, 0.2), ("thread", 3, 4, 3000, 0.15), ("thread", 2, 5, 1500, 0.2),
                               ("coro", 2, 4, 1500, 0.25), ("pipeline", 2, 5, 2000, 0.2), ("pipeline", 3, 5, 2500, 0.15)):
        cs.append(Case(growth_case(rng, pm, nt, nb, size=sz, at=at), "batch-growth-" + pm))
    if thorough:
        for _ in range(10):
            cs.append(Case(growth_case(rng, rng.choice(["thread", "pipeline", "coro"]), rng.randint(2, 4), rng.randint(3, 6),
                                       size=rng.choice([300, 1500, 3000]), at=rng.choice([0.15, 0.2, 0.5])), "batch-growth"))
        cs.append(Case(growth_case(rng, "thread", 2, 6, counts=[11, 12, 13, 20, 22, 45]), "batch-growth"))
        for _ in range(12):
            cs.append(Case(contention_case(rng, rng.choice(["thread", "thread", "coro"]), rng.randint(4, 8), rng.choice([400, 500]),
                                           rng.choice(["R", "RS", "RSP", "RRSP"]), rng.choice(["", "BC"])), "contention-mixed"))
    # inbound Heartbeats processed by the reader thread while 2-4 threads send (persister puts from both sides)
    for _ in range(6 if thorough else 3):
        cs.append(Case(inbound_case(rng, rng.randint(2, 4), 60, 150, rng.choice([150, 300])), "inbound-flow"))
    if thorough:
        for rep in range(4):
            cs.append(Case(inbound_case(rng, rng.randint(2, 4), 40, 100, 200, san="tsan"), "tsan-inbound-flow"))
    if thorough:
        # the same under ThreadSanitizer; a few repetitions of every shape (the schedule differs every time)
        for rep in range(10):
            cs.append(Case(big_case(rng, "thread", san="tsan", lo=50, hi=200), "tsan-thread"))
            cs.append(Case(big_case(rng, "coro", san="tsan", lo=20, hi=100), "tsan-coro"))
            cs.append(Case(big_case(rng, "thread", san="tsan", lo=50, hi=200, tick=True), "tsan-thread-tick"))
            cs.append(Case(big_case(rng, "pipeline", san="tsan", lo=20, hi=100), "tsan-pipeline"))
    else:
        cs.append(Case(big_case(rng, "thread", san="tsan", lo=30, hi=80, nthreads=4), "tsan-thread"))
        cs.append(Case(big_case(rng, "thread", san="tsan", lo=30, hi=80, nthreads=4, tick=True), "tsan-thread-tick"))
    return cs


# ------------------------------------------------------------------------------------------------- classification
def _known_sites():
    return [e.get("site") for e in core.load_known(ID) if e.get("status") == "known" and e.get("classifier") == "site"]


def SITE_KNOWN(case, r, m, entry):
    """Site-keyed findings (TSan): the case is accounted for only if EVERY race reported for it is a listed site (an
    unlisted race beside a listed one must still fail) and nothing else is wrong (the driver appends FUNC-FAIL /
    TIE-DIFF to the model result otherwise, which makes it differ from the implementation's)."""
    races = re.findall(r" RACE (\S+)", r)
    known = set(s[len("RACE "):] for s in _known_sites() if s and s.startswith("RACE "))
    return bool(races) and all(k in known for k in races) and r == m


CLASSIFIERS = {}


def nontrivial(case, r):
    m = re.search(r"CONC OUT (\d+) ", r)
    if not m or int(m.group(1)) < 20:
        return False
    active = [x for x in re.findall(r"TRET \d+ (\d+) ", r) if int(x) > 0]
    return len(active) >= 2


def _conc_progs(op):
    return [t for t in op.split(" ")[1:] if t and not t.startswith("y=") and not t.startswith("tick=") and not t.startswith("in=")]


def shrink(case):
    """halve the programs of the last CONC operation"""
    ops = case.line.split("|")
    out = []
    for k in range(len(ops) - 1, -1, -1):
        if ops[k].startswith("CONC"):
            toks = ops[k].split(" ")
            opts = [t for t in toks[1:] if t.startswith("y=") or t.startswith("tick=") or t.startswith("in=")]
            progs = _conc_progs(ops[k])
            halves = []
            for p in progs:
                calls = p.split("+") if p != "-" else []
                halves.append("+".join(calls[:max(1, len(calls) // 2)]) if calls else "-")
            if halves != progs:
                out.append(Case("|".join(ops[:k] + [" ".join(["CONC"] + opts + halves)] + ops[k + 1:]), "shrink"))
            if len(progs) > 2:
                out.append(Case("|".join(ops[:k] + [" ".join(["CONC"] + opts + progs[:-1])] + ops[k + 1:]), "shrink"))
            break
    return out


def extra_search(rng, seeds, tier):
    return gen_cases(rng, "quick")


def extra_evidence(ctx):
    msgs, threads, races, foreign = 0, {}, {}, 0
    for c, r in zip(ctx["cases"], ctx["impl"]):
        m = re.search(r"CONC OUT (\d+) ", r)
        if m:
            msgs += int(m.group(1))
        for op in c.line.split("|"):
            if op.startswith("CONC"):
                n = len(_conc_progs(op))
                threads[n] = threads.get(n, 0) + 1
        for k in re.findall(r" RACE (\S+)", r):
            races[k] = races.get(k, 0) + 1
    return {"messages_on_the_wire": msgs, "thread_count_distribution": threads, "tsan_race_sites": races}


# ------------------------------------------------------------------------------------------------- parallel driver
STACK = 'ulimit -s unlimited 2>/dev/null || ulimit -s 4000000 2>/dev/null; exec "$@"'


def pardriver_main(argv):
    """argv = driver metadata sidefile; stdin = the driver protocol lines.  Line k of the side file belongs to line k of
    stdin.  The lines are dealt to a few driver processes (largest first), the answers are put back in order."""
    drv, meta, side = argv
    lines = sys.stdin.buffer.read().split(b"\n")
    if lines and lines[-1] == b"":
        lines.pop()
    raws = open(side, "rb").read().split(b"\n")
    raws += [b""] * (len(lines) - len(raws))
    n = max(1, min(8, max(len(lines) // 4, sum(1 for r in raws if len(r) > 200000))))
    order = sorted(range(len(lines)), key=lambda i: -len(raws[i]))
    shards, load = [[] for _ in range(n)], [0] * n
    for i in order:
        k = load.index(min(load))
        shards[k].append(i)
        load[k] += len(raws[i]) + 2000
    procs = []
    for k, sh in enumerate(shards):
        sh.sort()
        sf = "%s.%d" % (side, k)
        with open(sf, "wb") as f:
            f.write(b"\n".join(raws[i] for i in sh) + b"\n")
        p = subprocess.Popen(["/bin/sh", "-c", STACK, "sh", drv, meta, sf], stdin=subprocess.PIPE, stdout=subprocess.PIPE)
        procs.append((sh, p, b"\n".join(lines[i] for i in sh) + b"\n"))

    def feed(x):
        sh, p, inp = x
        out, _ = p.communicate(inp)
        return sh, p.returncode, out

    res = [None] * len(lines)
    rc = 0
    with ThreadPoolExecutor(max_workers=n) as ex:
        for sh, code, out in ex.map(feed, procs):
            outs = out.split(b"\n")
            if outs and outs[-1] == b"":
                outs.pop()
            if code != 0 or len(outs) != len(sh):
                rc = 1
            for i, o in zip(sh, outs):
                res[i] = o
    for k in range(n):
        try:
            os.remove("%s.%d" % (side, k))
        except OSError:
            pass
    sys.stdout.buffer.write(b"".join((r if r is not None else b"MODEL-ERROR driver died\t0\t0") + b"\n" for r in res))
    return rc


if __name__ == "__main__":
    if len(sys.argv) >= 5 and sys.argv[1] == "--pardriver":
        sys.exit(pardriver_main(sys.argv[2:5]))
