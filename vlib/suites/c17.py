"""C17 — Sent application messages are stored exactly as transmitted."""
import re

from vlib.core import Case
from vlib.suites import _sess as S
from vlib.suites import c16 as C16

ID = "C17"
LEVEL = "proof"
TECHNIQUE = ("Coq proofs (induction over histories; invariant: the store is a strictly increasing list below next_send "
             "and equals the last snapshot) about the Gallina model of Session::send_process / FIXWriter::write_batch "
             "and the persisters as the session uses them; model tied to the real Session + Connection + File/Memory "
             "persister by differential execution of whole histories (byte-exact wire and store traces, ASan/UBSan)")
LEVEL_TEXT = ("c17_store: for every schema whose admin flags are the session-level types, role, persister, start number and "
              "every history START;op* of plain SEND/BATCH/CLOCK operations, each new application message on the modelled "
              "wire -- single or in ANY position of a batch -- is stored under its own MsgSeqNum with exactly its wire bytes "
              "and no administrative message is stored. c17_store_step: the same for one send_process call in any state "
              "inside or between batches. c17_store_orig_refuted: the code before d862447 stored the last message of a batch "
              "as the empty string (F21). Still true: a message with a custom sequence number is stored under next_send "
              "(c17_custom_refuted).")
LEVEL_NOTE = ("Trusted: Coq kernel; extraction; the hand transcription coq/Sess/*.v (checked by the correspondence run); "
              "harness; the persister model (map seq -> bytes, duplicate put refused, C-string truncation) is C17's own "
              "small model, tied through Persister::get after every operation. Theorems are for send-side histories; "
              "histories with inbound traffic, ticks and restarts are covered by the oracle on the implementation and "
              "the tie. Entries that vanish (F31, replaced MemoryPersister) are not judged here.")
DESIGN_REF = "DESIGN.md section 4, C17; coq/Sess/READY.md"
PROPS_FILE = "Props/Properties_C17.v"
COQ_TARGETS = ["Props/Properties_C17.vo", "Extract/Extract_C17.vo"]
TRUSTED_BASE = ["Coq 8.16.1 kernel (coqc), vm_compute for the witnesses only",
                "Extraction with ExtrOcamlBasic, no Extract Constant; OCaml 4.13.1",
                "hand-written model coq/Sess/{Bytes,Msg,Persist,Session,SimpleCodec,Wire}.v of runtime/session.cpp, "
                "connection.hpp (FIXWriter::write/write_batch), filepersist.cpp/persist.cpp as used by the session; tied by "
                "differential execution of histories",
                "ocaml/c17_driver.ml (metadata loading; evaluates wf_schema / wf_admin on the dumped metadata), "
                "harness/sess_harness.hpp + vsock.hpp + vclock.cpp, vlib (generators, sharding, comparison)",
                "schema metadata dumped from the freshly compiled f8c output",
                "g++ 12 -fsanitize=address,undefined on runtime + generated classes + harness"]
ASSUMPTIONS = ["pm_thread process model; snapshots are taken when the reader thread is quiescent",
               "field values are canonical and free of SOH and NUL; inbound messages are well-formed FIX (simple_decode)",
               "the store is observed through Persister::get(seq) for seq = 1..last after every operation"]
RULE = ("histories of a real session (both roles; file and memory persister, a few without): single sends of 4 application "
        "and 6 admin types, batches of 1..4 with an administrative or an application message last, inbound traffic mostly in "
        "sequence incl. resend requests, ticks, restarts; a share with custom seqnum / no_increment sends. non-trivial = at "
        "least one application message stored and at least 3 messages on the wire; distinct = distinct case lines")

ADMIN = {"0", "1", "2", "3", "4", "5", "A"}

build = C16.build
run_impl = C16.run_impl


def plain17_history(rng, last_app=False):
    role = rng.choice("IA")
    persist = rng.choice(["file", "file", "mem", "mem", "none"])
    kw = {"asa": rng.choice([0, 0, 0, 1]), "hb": 30}
    if rng.random() < 0.3:
        kw["ss"] = rng.choice([2, 9, 10, 99, 100, 1000])
    if rng.random() < 0.2:
        kw["sid"] = (S.word(rng, 1, 6).replace("-", "A"), S.word(rng, 1, 6).replace("-", "B"))
    h = S.Hist(rng, role, persist, **kw)
    for _ in range(rng.randint(1, 10)):
        r = rng.random()
        if r < 0.40:
            h.send(h.app_spec())
        elif r < 0.50:
            h.send(C16.plain_admin(rng))
        elif r < 0.95:
            k = rng.choice([1, 2, 2, 3, 3, 4])
            sps = [h.app_spec() if rng.random() < 0.8 else C16.plain_admin(rng) for _ in range(k)]
            if k >= 2:
                sps[-1] = h.app_spec() if last_app else C16.plain_admin(rng)
            h.batch(sps)
        else:
            h.clock(rng.randrange(1, 10**7) * 1000)
    return h.line()


# ResetSeqNumFlag=Y makes an acceptor restart at 1 while the harness' persister is not purged (purging is
# SessionConfig::create_persister's job, which the harness does not use): numbers would be re-used against
# stored records -- the same artefact as no_reuse below, so C17's generators never send 141=Y (reset_y=False).
def no_reuse(line):
    """a configured start number or reset_sequence_numbers together with a RESTART on the same files makes the new
    session re-use numbers whose records are still in the (unpurged) file: a harness artefact, not generated."""
    ops = line.split("|")
    if "RESTART" in ops and " file" in ops[0]:
        ops[0] = re.sub(r" (ss=\d+|rsn=1)", "", ops[0])
    return "|".join(ops)


def gen_cases(rng, tier):
    mult = 12 if tier == "thorough" else 2
    cs = []
    for _ in range(170 * mult):
        cs.append(Case(plain17_history(rng), "plain-admin-last"))
    for _ in range(80 * mult):
        cs.append(Case(plain17_history(rng, last_app=True), "batch-app-last"))
    for _ in range(230 * mult):
        cs.append(Case(no_reuse(S.gen_history(rng, special=False, asa=0, weird=0.03, reset_y=False)), "plain+inbound"))
    for _ in range(60 * mult):
        cs.append(Case(no_reuse(S.gen_history(rng, persist="file", special=False, asa=0, nops=rng.randint(6, 16), reset_y=False)), "restarts"))
    for _ in range(60 * mult):
        cs.append(Case(no_reuse(S.gen_history(rng, special=True, asa=0, reset_y=False)), "nonplain-sends"))
    for _ in range(30 * mult):
        cs.append(Case(no_reuse(S.gen_history(rng, asa=1, reset_y=False)), "always-seqnum-assign"))
    for _ in range(60 * mult):
        cs.append(Case(no_reuse(S.gen_acceptor_logon(rng, reset_y=False)), "acceptor-logon-flags"))
    for _ in range(2 if tier == "thorough" else 1):
        for line in S.gen_big_batches(rng):
            cs.append(Case(line, "big-batches"))
    return cs


def c_batch_last_app(case, r, m):
    """a BATCH of two or more whose last message is an application message (F21, fixed by d862447: only used by
    the fixed entry, which suppresses nothing)."""
    for op in case.line.split("|"):
        t = op.split(" ")
        if t[0] == "BATCH" and len(t) > 1:
            sps = t[1].split(";")
            if len(sps) >= 2 and sps[-1].split("/")[0] not in ADMIN:
                return True
    return False


def c_nonplain(case, r, m):
    """negation of hypothesis plain_spec of c17_store_partial: a message sent with a custom sequence number, with
    no_increment, a SequenceReset, or with MsgSeqNum / PossDupFlag preset: its number is not consumed, so it is
    stored under a different key, or its number is re-used and the second put is refused (F20 family)."""
    return C16.c_nonplain_send(case, r, m)


def c_acceptor_prelogon(case, r, m):
    """an acceptor on a file persister sends after a RESTART and before the next inbound Logon: it recovers its
    numbers only in handle_logon, so it starts again at 1 and re-uses numbers whose records are still stored
    (outside c17_store_partial: a history with RESTART)."""
    ops = case.line.split("|")
    if not ops[0].startswith("START A file"):
        return False
    seen_restart = False
    for op in ops[1:]:
        if op == "RESTART":
            seen_restart = True
        elif seen_restart and op.startswith("IN ") and "0133353d4101" in op:
            seen_restart = False
        elif seen_restart and (op.startswith("SEND ") or op.startswith("BATCH ")):
            return True
    return False


CLASSIFIERS = {"batch-last-app": c_batch_last_app, "nonplain-send": c_nonplain, "always-seqnum-assign": C16.c_asa,
               "acceptor-prelogon-after-restart": c_acceptor_prelogon}


def nontrivial(case, r):
    return "STORE " in r and r.count("OUT ") >= 3


def extra_search(rng, seeds, tier):
    out = gen_cases(rng, "quick")
    for c in seeds[:10]:
        ops = c.line.split("|")
        for k in range(2, len(ops) + 1):
            out.append(Case("|".join(ops[:k]), "prefix"))
    return out


shrink = C16.shrink
extra_evidence = C16.extra_evidence
