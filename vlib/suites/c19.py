"""C19 — inbound messages reach the application only when in sequence."""
import os
import re
import subprocess
import threading

from vlib import build as B
from vlib import core
from vlib.core import Case
from vlib.suites import _sess as S

ID = "C19"
LEVEL = "proof"
TECHNIQUE = ("Coq proofs (case analysis of Session::process / enforce / compid_check / sequence_check / handle_application "
             "over EVERY session state and inbound message, with a no-delivery invariant over all admin handlers incl. the "
             "resend loop) about the shared session model coq/Sess + oracle c19_ok applied to the traces of the REAL "
             "Session/Connection code (in-memory socket, virtual clock); model traces tied byte for byte")
LEVEL_TEXT = ("c19_delivery_partial: when the number Session::process scans from the raw bytes equals the decoded MsgSeqNum, "
              "a delivery happens only if the session is established, CompIDs pass, and seq = expected or (seq < expected, "
              "PossDup, Orig <= Sending); c19_high_partial: higher => no delivery and, in state continuous, "
              "send(ResendRequest(expected,0)) comes first and the state becomes resend_request_sent, in every other "
              "established state the session stops instead (c19_second_gap_refuted); c19_stop_partial: lower without PossDup "
              "or a CompID violation => no delivery, process returns false, the session is shut down, and NOTHING is put on "
              "the wire unless the state is logon_received (c19_no_logout_refuted); c19_decode_failure: no delivery, "
              "Reject(raw number, text), expected number incremented; c19_no34_note; c19_34_refuted: a header value "
              "containing '34=' makes process gate on the wrong number.")
LEVEL_NOTE = ("Trusted: Coq kernel, extraction, the hand transcription coq/Sess/Session.v of session.cpp (checked by the "
              "correspondence run on every case: the model's trace must equal the real trace byte for byte), the harness "
              "(vsock/vclock), the Codec group's model of Message::factory (coq/Codec, plugged into the session model's "
              "`decode` parameter by coq/C19/CodecDecode.v) as the decoder of the executable model; the theorems hold for "
              "ANY decode function.")
DESIGN_REF = "DESIGN.md section 4, C19; findings F24, F25, F26"
PROPS_FILE = "Props/Properties_C19.v"
COQ_TARGETS = ["Props/Properties_C19.vo", "Extract/Extract_C19.vo"]
TRUSTED_BASE = ["Coq 8.16.1 kernel (coqc), vm_compute only",
                "Extraction with ExtrOcamlBasic, no Extract Constant; OCaml 4.13.1",
                "hand-written session model coq/Sess/*.v (Session.process, enforce, compid_check, sequence_check, dispatch, "
                "handle_*) tied to runtime/session.cpp by differential execution of whole histories; coq/C19/Run19.v only "
                "instantiates its decode / fl_process parameters",
                "coq/Codec (extract_header, MessageBase::decode, factory: the Codec group's model, tied by C02..C06) as the "
                "decoder of the executable model, converted by coq/C19/CodecDecode.v (exception texts incl. the "
                "__FILE__:__LINE__ of the tree under test, taken from the real code by probe runs); the theorems are "
                "parametric in the decoder; the witnesses of the ..._refuted theorems use Sess.SimpleCodec on a small schema",
                "ocaml/prelude.ml + ocaml/c19_driver.ml (incl. load_ctx copied from the codec common block), h_codec --meta, "
                "harness/h_sess.cpp + sess_harness.hpp + vsock.hpp + vclock.cpp, vlib"]
ASSUMPTIONS = ["the application handles messages in the canonical form `enforce(seqnum,msg) || msg->process(router)` "
               "(what the harness' HSession and every fix8 example do); handle_admin / authenticate overrides are the defaults",
               "no SessionConfig (ignore_logon_sequence_check off), not `reliable`, pm_thread; correctly framed input (C15)",
               "sequence numbers stay below 2^31 (written in decimal, possibly with leading zeros); timestamps are canonical 21-character UTC timestamps",
               "corrupt messages are limited to: wrong CheckSum, missing mandatory header/body field, no MsgSeqNum at all, a tag "
               "twice, unknown message type; no repeating groups, no unknown or misplaced tags (C04/C05), values < 2048 bytes"]
RULE = ("histories for both roles, file/memory/no persister, enforce_compids on/off, silent_disconnect on/off, receive "
        "number argument: a Logon (in sequence / low / high / PossDup / ResetSeqNumFlag absent, Y, N, also after a restart on "
        "the files with carried-over numbers) and then 1..9 inbound probes aimed at the "
        "expected number the generator tracks (MsgSeqNum, NewSeqNo, BeginSeqNo/EndSeqNo, RefSeqNum also written with 1..3 leading "
        "zeros; expected numbers 7 8 9 10 63 64 100 systematically): equal, lower (PossDup absent / Y / N, OrigSendingTime before / equal / after "
        "SendingTime / absent), higher by 1..3, wrong Sender/TargetCompID, bad checksum, missing mandatory body or header "
        "field, a tag twice (also a second MsgSeqNum), unknown message type, header/body fields in shuffled order, no '34=' at "
        "all, header values that contain '34=<n>' before or after the real field and data fields (SecureData, XmlData behind "
        "their Length fields) whose content contains SOH '34=<n>' before or after it (n = expected, lower, higher), all message types (application D/F/8/j, Heartbeat, TestRequest, ResendRequest, Reject, SequenceReset, "
        "Logout, Logon); the states are reached by the history itself: before logon, logon phase, continuous, "
        "resend_request_sent (after a gap), test_request_sent (after a silent timer period), after a Logout / a fatal "
        "violation / Session::stop / a peer close; some operations carry two messages. non-trivial = at least two inbound messages were "
        "processed and one of them was delivered, answered (Reject/ResendRequest/Logout) or ended the session; distinct = "
        "distinct case lines")

SOH = "\x01"


# ------------------------------------------------------------------------------------ build
def _probe_lines():
    t = S.ts(S.T0)
    no34 = rawmsg([(35, "0"), (49, "SRV"), (56, "CLI"), (52, t)])
    unk = rawmsg([(35, unknown_types()[0]), (49, "SRV"), (56, "CLI"), (34, 1), (52, t)])
    return ["START I none asa=0|IN " + no34.hex(), "START I none asa=0|IN " + unk.hex()]


def unknown_types():
    """Message types the schema of the harness does not define."""
    known = set(_meta()[1])
    return [t for t in ("ZY", "U1", "z", "QQ", "zz", "0Z", "Zq") if t.encode() not in known][:3]


def _reject_fileline(out):
    """FILE_LINE at the end of the text of the Reject in a trace."""
    fl = None
    for mm in re.finditer(r"OUT ([0-9a-f]+)", out or ""):
        txt = bytes.fromhex(mm.group(1)).decode("latin-1")
        k = txt.rfind(" at: ")
        if "35=3" + SOH in txt and k >= 0:
            fl = txt[k + 5:txt.rfind(SOH + "10=")]
    return fl


def build(tier):
    from vlib import codecgen
    built = S.build_sess()
    exe = built["impl"][0]
    flf, flt = exe + ".c19fl", exe + ".c19flt"
    if not (os.path.exists(flf) and os.path.exists(flt)):
        # the texts of the InvalidMessage thrown by Session::process (no SOH "34=") and by Message::factory (unknown
        # message type) carry __FILE__:__LINE__ of the tree under test: take them from the real code (the Rejects
        # that answer such messages).  Only a successful probe is cached; a tree that no longer rejects such
        # messages leaves the text empty for this run and the correspondence run shows the difference.
        for attempt in range(3):
            outs = core.run_lines(built["impl"], _probe_lines(), per_case_timeout=120)
            fls = [_reject_fileline(o) for o in outs]
            if all(fls):
                break
        paths = []
        for path, fl in ((flf, fls[0]), (flt, fls[1])):
            if not fl:
                path = path + ".unprobed%d" % os.getpid()
            tmp = path + ".tmp%d" % os.getpid()
            open(tmp, "w").write(fl or "")
            os.rename(tmp, path)
            paths.append(path)
        flf, flt = paths
    # the Codec group's metadata dump of the same schema (the model's decoder = coq/Codec's Message::factory)
    cmeta = codecgen.build_codec(("utest2c",))["driver_args"][0].split("=", 1)[1]     # the schema _sess.build_sess uses
    built["driver_args"] = built["driver_args"] + [flf, cmeta, flt]
    return built


NSHARDS = 6


def run_impl(built, cases, tier):
    """The harness costs ~20 ms per session instance: shard the cases over a few processes."""
    lines = [c.line for c in cases]
    n = min(NSHARDS, max(1, len(lines) // 40))
    res = [None] * len(lines)

    def work(k):
        idx = list(range(k, len(lines), n))
        out = core.run_lines(built["impl"], [lines[i] for i in idx], env=built.get("env"),
                             per_case_timeout=built.get("per_case_timeout", 30), timeout_per_batch=1500)
        for i, r in zip(idx, out):
            res[i] = r

    core.run_dir()
    ths = [threading.Thread(target=work, args=(k,)) for k in range(n)]
    for t in ths:
        t.start()
    for t in ths:
        t.join()
    return res


# ------------------------------------------------------------------------------------ messages
def rawmsg(fields, bad_chk=False, begin="FIX.4.2"):
    """8, 9, the given tokens, 10 (BodyLength and CheckSum computed)."""
    b = "".join("%s=%s\x01" % (k, v) for k, v in fields)
    h = "8=%s\x019=%d\x01" % (begin, len(b))
    s = sum((h + b).encode("latin-1")) % 256
    if bad_chk:
        s = (s + 1 + (sum(map(ord, b)) % 200)) % 256
    return (h + b + "10=%03d\x01" % s).encode("latin-1")


ADMIN_BODY = {
    "0": lambda g: [(112, S.word(g.rng))] if g.rng.random() < 0.3 else [],
    "1": lambda g: [(112, S.word(g.rng))],
    "2": lambda g: ([(7, g.rng.randint(1, 3)), (16, 0)] if g.rng.random() < 0.7 else
                    [(7, zpad(g.rng, g.rng.randint(1, 3))), (16, g.rng.choice(["0", "00", "008", "010"]))]),
    "3": lambda g: [(45, g.rng.randint(1, 9) if g.rng.random() < 0.7 else zpad(g.rng, g.rng.randint(1, 12)))] +
                   ([(58, S.word(g.rng, 1, 10))] if g.rng.random() < 0.4 else []),
    "5": lambda g: [(58, "bye")] if g.rng.random() < 0.3 else [],
}
HDR_VALUE_TAGS = [115, 128, 50, 57, 116, 129]        # string-valued header fields of the UTEST schema


class G(S.Hist):
    """History builder with a rough simulation of the session (for AIMING the probes only)."""

    def __init__(self, rng, role, persist, **kw):
        S.Hist.__init__(self, rng, role, persist, **kw)
        self.ec = kw.get("ec", 1)
        self.padp = kw.get("padp", 0.0)      # probability of a zero-padded MsgSeqNum
        self.exp = kw.get("rs") or 1         # estimate of next_recv
        self.st = "pre"                      # pre | cont | resend | test | dead
        self.logons = 0

    def body(self, t):
        if t in ADMIN_BODY:
            return ADMIN_BODY[t](self)
        if t == "A":
            return [(98, 0), (108, self.hb)]
        if t == "4":
            n = self.exp + self.rng.randint(1, 3)
            return [(123, "Y"), (36, n if self.rng.random() < 0.7 else zpad(self.rng, n))]
        return S.app_fields(self.rng, t, self.now)

    def msg(self, t, seq, body=None, sender=None, target=None, pre=(), post=(), possdup=None, orig=None,
            sending=None, omit=(), bad_chk=False):
        f = [(35, t)]
        if 49 not in omit:
            f.append((49, self.peer if sender is None else sender))
        if 56 not in omit:
            f.append((56, self.me if target is None else target))
        f += list(pre)
        if 34 not in omit:
            if isinstance(seq, int) and self.rng.random() < self.padp:
                seq = zpad(self.rng, seq)               # MsgSeqNum with leading zeros
            f.append((34, seq))
        if possdup is not None:
            f.append((43, possdup))
        if orig is not None:
            f.append((122, orig))
        f += list(post)
        if 52 not in omit:
            f.append((52, S.ts(self.now) if sending is None else sending))
        f += list(self.body(t) if body is None else body)
        return rawmsg(f, bad_chk=bad_chk)

    def feed(self, *raws, chunks=False):
        if chunks:
            self.ops.append("IN " + ",".join(r.hex() for r in raws))
        else:
            self.ops.append("IN " + b"".join(raws).hex())


# application types incl. the two-character ones of schema utest2c whose first character is that of an
# administrative type (A0 AD 0X 1Z 2B 3C 4D 5E) or a letter (DD ZZ): Session::process must hand them to the application
TWOCHAR = list(S.TWOCHAR_TYPES)
APP = ["D", "D", "D", "F", "8", "j"] + TWOCHAR
ANY = ["D", "D", "D", "F", "8", "j", "0", "0", "1", "3", "2"] + TWOCHAR


def zpad(rng, n, k=None):
    """A legal but unusual spelling of a number: 1..3 leading zeros."""
    return "0" * (k or rng.randint(1, 3)) + str(n)


PAD_VALUES = (7, 8, 9, 10, 63, 64, 100)       # around the places where a non-decimal reading of a padded number differs


def probe(g, kind=None, ttype=None):
    """One inbound probe aimed at g.exp; updates the rough simulation.  Returns the label."""
    rng = g.rng
    E = g.exp
    alive = g.st in ("cont", "resend", "test")
    kinds = ["ok"] * 14 + ["high"] * 4 + ["low"] * 2 + ["lowpd"] * 4 + ["eqpd", "comp", "comp", "chk", "chk", "missb",
             "missh", "no34", "v34", "v34", "d34", "d34", "d34", "v34after", "seqreset", "reject", "logout", "logon", "two",
             "dup", "dup", "unkmt", "shuffle", "shuffle"]
    k = kind or rng.choice(kinds)
    t = ttype or rng.choice(ANY if rng.random() < 0.5 else APP)
    now = g.now

    def processed(n=1):
        if alive:
            g.exp += n

    if k == "ok":
        g.feed(g.msg(t, E))
        if alive:
            g.exp += 1
            if g.st == "test":
                g.st = "cont"
    elif k == "high":
        g.feed(g.msg(t, E + rng.randint(1, 3)))
        if g.st == "cont":
            g.exp += 1
            g.st = "resend"
        elif alive and t != "3":
            g.st = "dead"
        else:
            processed()
    elif k == "low":
        g.feed(g.msg(t, max(1, E - rng.randint(1, 2)) if E > 1 else 0))
        if alive and t != "3":
            g.st = "dead"
        else:
            processed()
    elif k == "lowpd":
        seq = max(1, E - rng.randint(1, 3))
        pd = rng.choice(["Y", "Y", "Y", "N"])
        mode = rng.randrange(5)
        if mode == 0:
            orig = None
        elif mode == 1:
            orig = S.ts(now - rng.choice([1, 10**6, 10**9, 86400 * 10**9]))      # before
        elif mode == 2:
            orig = S.ts(now)                                                       # equal
        else:
            orig = S.ts(now + rng.choice([10**6, 10**9, 3600 * 10**9]))            # after
        g.feed(g.msg(t, seq, possdup=pd, orig=orig))
        if alive and t != "3":
            if seq < E and (pd != "Y" or mode >= 3):
                g.st = "dead"
            else:
                g.exp += 1
        else:
            processed()
    elif k == "eqpd":
        g.feed(g.msg(t, E, possdup="Y", orig=S.ts(now - 10**9) if rng.random() < 0.7 else None))
        processed()
    elif k == "comp":
        which = rng.randrange(3)
        snd = g.peer if which == 1 else rng.choice([g.peer + "X", "ZZZ", g.me])
        tgt = g.me if which == 0 else rng.choice([g.me + "X", "ZZZ", g.peer])
        seq = rng.choice([E, E, E + 2, max(1, E - 1)])
        g.feed(g.msg(t, seq, sender=snd, target=tgt))
        if alive and t != "3" and g.ec:
            g.st = "dead"
        elif alive:
            if seq > E and t != "3":
                g.st = "resend" if g.st == "cont" else "dead"
            elif seq < E and t != "3":
                g.st = "dead"
            g.exp += 1
    elif k == "chk":
        g.feed(g.msg(t, rng.choice([E, E, E + 1, max(1, E - 1)]), bad_chk=True))
        g.exp += 1
    elif k == "missb":
        tt = ttype if ttype in TWOCHAR else rng.choice(["D", "F", "8", "j", "1", "2"] + TWOCHAR[:3])
        b = g.body(tt)
        mand = {"D": [11, 21, 55, 54, 60, 40], "F": [41, 11, 55, 54, 60], "8": [37, 17, 20, 150, 39, 55, 54, 151, 14, 6],
                "j": [372, 380], "1": [112], "2": [7, 16]}.get(tt, [11])
        drop = rng.choice(mand)
        g.feed(g.msg(tt, rng.choice([E, E, E + 2]), body=[kv for kv in b if kv[0] != drop]))
        g.exp += 1
    elif k == "missh":
        g.feed(g.msg(t, E, omit=(rng.choice([49, 56, 52]),)))
        g.exp += 1
    elif k == "no34":
        g.feed(g.msg(t, E, omit=(34,)))
        g.exp += 1
    elif k == "v34":
        # a header value containing "34=<n>" BEFORE the MsgSeqNum field (F24 before its repair: a control now)
        n = rng.choice([E, E, E, E + 1, E + 5, max(1, E - 1), 0])
        real = rng.choice([E, E + 1, E + 4, E + 4, max(1, E - 1), max(1, E - 1), E])
        tag = rng.choice(HDR_VALUE_TAGS)
        v = rng.choice(["X", "", "AB"]) + "34=%d" % n
        omit = (34,) if rng.random() < 0.12 else ()
        pd = "Y" if rng.random() < 0.15 else None
        g.feed(g.msg(t, real, pre=[(tag, v)], omit=omit, possdup=pd))
        # (since the repair of F24 the session gates on `real`; without the field: no SOH "34=" at all)
        if omit:
            g.exp += 1
        elif alive and t != "3":
            if real == E or (real < E and pd):
                g.exp += 1
            elif real > E and g.st == "cont":
                g.exp += 1
                g.st = "resend"
            else:
                g.st = "dead"
        else:
            processed()
    elif k == "d34":
        # what still escapes: the CONTENT of a data field (behind its Length field) in front of MsgSeqNum contains
        # SOH "34=<n>"; controls: the pair behind MsgSeqNum, content with SOH but without "34="
        n = rng.choice([E, E, E, E + 1, E + 5, max(1, E - 1)])
        real = rng.choice([E, E + 1, E + 4, E + 4, max(1, E - 1), max(1, E - 1), E])
        ltag, dtag = rng.choice([(90, 91), (212, 213)])
        mode = rng.randrange(5)
        content = rng.choice(["X", "", "ab"]) + "\x01" + ("34=%d" % n if mode != 4 else "zz=1") + rng.choice(["", "\x01q"])
        pair = [(ltag, len(content)), (dtag, content)]
        pd = "Y" if rng.random() < 0.15 else None
        if mode == 3:
            g.feed(g.msg(t, real, post=pair, possdup=pd))
            gate = real
        else:
            g.feed(g.msg(t, real, pre=pair, possdup=pd))
            gate = n if mode != 4 else real
        if alive and t != "3":
            if gate == E or (gate < E and pd):
                g.exp += 1
            elif gate > E and g.st == "cont":
                g.exp += 1
                g.st = "resend"
            else:
                g.st = "dead"
        else:
            processed()
    elif k == "v34after":
        # negative control: "34=" inside a value AFTER the real field (header or body)
        if rng.random() < 0.5:
            g.feed(g.msg(t, E, post=[(rng.choice(HDR_VALUE_TAGS), "Y34=%d" % rng.choice([E + 3, max(1, E - 1)]))]))
        else:
            b = [kv for kv in S.app_fields(rng, "D", now) if kv[0] != 58]
            g.feed(g.msg("D", E, body=b + [(58, "t34=%d" % (E + 2))]))
        processed()
        if g.st == "test":
            g.st = "cont"
    elif k == "seqreset":
        nsn = E + rng.randint(0, 4)
        seq = rng.choice([E, E, E + 3, max(1, E - 1)])
        g.feed(g.msg("4", seq, body=[(36, nsn if rng.random() < 0.7 else zpad(rng, nsn))] + ([(123, "Y")] if rng.random() < 0.6 else [])))
        if alive:
            g.exp = max(nsn, 1)
            if g.st == "resend":
                g.st = "cont"
    elif k == "reject":
        g.feed(g.msg("3", rng.choice([E, E + 2, max(1, E - 1)])))
        processed()
    elif k == "logout":
        g.feed(g.msg("5", rng.choice([E, E, E + 1, max(1, E - 1)])))
        if alive:
            g.st = "dead"
    elif k == "logon":
        if g.role == "A" and g.persist == "mem":
            g.feed(g.msg("D", E))
            processed()
        else:
            g.feed(g.msg("A", rng.choice([E, E, E + 1, max(1, E - 1)])))
            processed()
    elif k == "dup":
        # a tag twice: DuplicateField (decode failure); also a second MsgSeqNum
        which = rng.randrange(4)
        seq = rng.choice([E, E, E + 2, max(1, E - 1)])
        if which == 0:
            g.feed(g.msg(t, seq, post=[(34, rng.choice([E, E + 3]))]))
        elif which == 1:
            g.feed(g.msg(t, seq, pre=[(49, g.peer)]))
        elif which == 2:
            g.feed(g.msg(t, seq, post=[(rng.choice([50, 57]), "a"), (50, "b"), (57, "c")]))
        else:
            b = [kv for kv in S.app_fields(rng, "D", now) if kv[0] != 58]
            g.feed(g.msg("D", seq, body=b + [(58, "x"), (58, "y")]))
        g.exp += 1
    elif k == "unkmt":
        g.feed(g.msg(rng.choice(unknown_types()), rng.choice([E, E + 1]), body=[(58, "x")]))
        g.exp += 1
    elif k == "shuffle":
        # the same in-sequence message with header and body fields in another (legal) order
        tt = rng.choice(APP)
        hdr = [(49, g.peer), (56, g.me), (34, E), (52, S.ts(now))]
        if rng.random() < 0.4:
            hdr += [(50, "sub"), (57, "tsub")]
        body = list(g.body(tt))
        rng.shuffle(hdr)
        rng.shuffle(body)
        g.feed(rawmsg([(35, tt)] + hdr + body))
        processed()
        if g.st == "test":
            g.st = "cont"
    elif k == "two":
        a = g.msg(rng.choice(APP), rng.choice([E, E, max(1, E - 1), E + 2]))
        b = g.msg(rng.choice(APP), E + 1, bad_chk=rng.random() < 0.3)
        g.feed(a, b, chunks=rng.random() < 0.5)
        g.exp += 2
    return k


def history(rng, role=None, persist=None, nprobes=None, force=None, **over):
    role = role or rng.choice("IA")
    persist = persist or rng.choice(["file", "mem", "none", "none"])
    kw = {"hb": rng.choice([5, 10, 30]), "asa": 0, "ec": 0 if rng.random() < 0.25 else 1}
    if rng.random() < 0.15:
        kw["sd"] = 1
    if rng.random() < 0.4:
        kw["rs"] = rng.choice([rng.randint(2, 9), rng.randint(2, 9), 6, 7, 8, 9, 10, 62, 63, 64, 99, 100])
    if rng.random() < 0.3:
        kw["padp"] = rng.choice([0.2, 0.5, 1.0])
    if rng.random() < 0.1:
        kw["t"] = S.T0 + rng.randrange(0, 300 * 86400) * 10**9 + rng.randrange(1000) * 10**6
    kw.update(over)
    padp = kw.pop("padp", 0.0)
    g = G(rng, role, persist, **kw)
    g.padp = padp
    E = g.exp
    # ---- before logon
    # (not for an acceptor with a MemoryPersister: any processed message writes a control record and the
    #  Logon then recovers F30 garbage from it -- C26's subject)
    if not (role == "A" and persist == "mem"):
        if rng.random() < 0.12:
            g.feed(g.msg(rng.choice(APP), rng.choice([E, E + 1])))
        if rng.random() < 0.04:
            g.feed(g.msg("D", E, bad_chk=True))
    # ---- the Logon
    r = rng.random()
    # ResetSeqNumFlag: absent / Y (the expected number becomes 1) / an explicit N (NOT a reset: the value counts)
    flag = rng.choice([None] * 6 + ["Y", "N", "N"]) if role == "A" else rng.choice([None] * 8 + ["N"])
    if flag == "Y":
        E = 1
    body = [(98, 0), (108, g.hb)] + ([(141, flag)] if flag else [])
    if r < 0.70:
        g.feed(g.msg("A", E, body=body))
        ok = True
    elif r < 0.78:
        g.feed(g.msg("A", E + rng.randint(1, 3), body=body))
        ok = False
    elif r < 0.86:
        g.feed(g.msg("A", max(0, E - rng.randint(1, 2)), body=body))
        ok = E - 2 >= E        # never
    elif r < 0.92:
        seq = max(1, E - 1)
        late = rng.random() < 0.4
        g.feed(g.msg("A", seq, body=body, possdup="Y",
                     orig=S.ts(g.now + 10**9) if late else (S.ts(g.now - 10**9) if rng.random() < 0.7 else None)))
        ok = not late or seq == E
    elif r < 0.96:
        g.feed(g.msg("A", E + 3, body=body, pre=[(115, "X34=%d" % E)]))
        ok = True
    else:
        ok = None       # no logon at all
    if ok:
        g.st = "cont"
        g.exp = E + 1
    elif ok is None:
        g.st = "pre"
    else:
        g.st = "dead"
    # ---- probes
    n = nprobes if nprobes is not None else rng.randint(1, 9)
    for i in range(n):
        x = rng.random()
        if force and i == n - 1:
            probe(g, force)
        elif x < 0.06 and g.st == "cont":
            # silent period: heartbeat + test request -> test_request_sent
            g.tick(int((g.hb * 1.2 + 2) * 10**9))
            g.st = "test"
        elif x < 0.09:
            g.clock(rng.randrange(1, 3000) * 10**6)
        elif x < 0.13:
            g.send(g.app_spec())
        elif x < 0.145:
            g.ops.append(rng.choice(["STOP", "PEERCLOSE"]))
            g.st = "dead"
        elif x < 0.17 and persist == "file":
            # numbers carried over on the files: the Logon after the restart with / without ResetSeqNumFlag
            g.restart()
            g.st = "pre"
            fl2 = rng.choice([None, None, "Y", "N", "N"]) if role == "A" else None
            E2 = 1 if fl2 == "Y" else (kw.get("rs") or g.exp)
            seq = rng.choice([E2, E2, 1, g.exp, E2 + 1])
            g.feed(g.msg("A", seq, body=[(98, 0), (108, g.hb)] + ([(141, fl2)] if fl2 else [])))
            if seq == E2:
                g.st = "cont"
                g.exp = E2 + 1
            else:
                g.st = "dead"
        else:
            probe(g)
    return g.line()


def gen_cases(rng, tier):
    cs = []
    thorough = tier == "thorough"
    # 1. systematic: every probe kind as the last operation after a short prefix, in every state the prefix reaches
    kinds = ["ok", "high", "low", "lowpd", "eqpd", "comp", "chk", "missb", "missh", "no34", "v34", "v34after", "seqreset",
             "reject", "logout", "logon", "two", "dup", "unkmt", "shuffle", "d34"]
    reps = 6 if thorough else 2
    for kind in kinds:
        for role in "IA":
            for pre in ([], ["high"], ["tick"], ["ok", "ok"]):
                for _ in range(reps):
                    persist = rng.choice(["file", "mem", "none"])
                    g = G(rng, role, persist, hb=rng.choice([5, 30]), asa=0, ec=0 if rng.random() < 0.2 else 1,
                          sd=1 if rng.random() < 0.1 else 0, rs=rng.choice([None, None, 4]))
                    E = g.exp
                    g.feed(g.msg("A", E))
                    g.st = "cont"
                    g.exp = E + 1
                    for p in pre:
                        if p == "tick":
                            g.tick(int((g.hb * 1.2 + 2) * 10**9))
                            g.st = "test"
                        else:
                            probe(g, p)
                    probe(g, kind)
                    if rng.random() < 0.5:
                        probe(g, "ok")
                    cs.append(Case(g.line(), "sys-%s" % kind))
    # 1a. every two-character application type x state (before logon, continuous, resend pending, test request
    #     pending) x relation to the expected number (at, above, below without / with PossDup, equal with PossDup,
    #     corrupt), followed by an in-sequence message of the same type
    for tt in TWOCHAR:
        for pre in (["nologon"], [], ["high"], ["tick"]):
            for kind in ("ok", "high", "low", "lowpd", "eqpd", "chk", "missb", "comp"):
                for _ in range(2 if thorough else 1):
                    role = rng.choice("IA")
                    g = G(rng, role, rng.choice(["file", "mem", "none"]), hb=rng.choice([5, 30]), asa=0,
                          ec=0 if rng.random() < 0.2 else 1, rs=rng.choice([None, None, 4]))
                    if pre == ["nologon"]:
                        if role == "A" and g.persist == "mem":
                            g.persist = "none"
                            g.ops[0] = g.ops[0].replace(" mem", " none", 1)
                    else:
                        E = g.exp
                        g.feed(g.msg("A", E))
                        g.st, g.exp = "cont", E + 1
                        for p in pre:
                            if p == "tick":
                                g.tick(int((g.hb * 1.2 + 2) * 10**9))
                                g.st = "test"
                            else:
                                probe(g, p)
                    probe(g, kind, ttype=tt)
                    probe(g, "ok", ttype=tt)
                    cs.append(Case(g.line(), "sys-twochar"))
    # 1p. MsgSeqNum written with 1..3 leading zeros (legal FIX; the decoded field and the gating number are both
    #     decimal readings of the same text): expected number V in PAD_VALUES, the message at / above / below
    #     (without and with PossDup) / equal with PossDup, application and administrative types, both roles
    for V in PAD_VALUES:
        for k in (1, 2, 3):
            for rel in ("at", "above1", "above2", "below", "belowpd", "eqpd"):
                for tt in (rng.choice(APP), rng.choice(["0", "1", "D", "8"])):
                    role = rng.choice("IA")
                    g = G(rng, role, rng.choice(["file", "mem", "none"]), hb=30, asa=0, ec=1, rs=V - 1)
                    g.feed(g.msg("A", zpad(rng, V - 1) if rng.random() < 0.3 else V - 1))
                    g.st, g.exp = "cont", V
                    n = {"at": V, "above1": V + 1, "above2": V + 2, "below": V - 1, "belowpd": V - 1, "eqpd": V}[rel]
                    pd = "Y" if rel in ("belowpd", "eqpd") else None
                    g.feed(g.msg(tt, zpad(rng, n, k), possdup=pd, orig=S.ts(g.now - 10**9) if pd and rng.random() < 0.7 else None))
                    g.feed(g.msg(rng.choice(APP), zpad(rng, V + 1, k)))
                    cs.append(Case(g.line(), "sys-pad"))
    # 1b. acceptor Logons with ResetSeqNumFlag absent / Y / N against carried-over expected numbers (receive number
    #     argument of start; control record on the files across a restart), then messages at 2 and at expected
    for flag in (None, "Y", "N"):
        for carried in ("rs", "file", "none"):
            for lseq in ("one", "exp", "high"):
                for _ in range(3 if thorough else 1):
                    rs = rng.randint(3, 9) if carried == "rs" else None
                    g = G(rng, "A", "file" if carried == "file" else rng.choice(["mem", "none"]), hb=30, asa=0,
                          ec=1, sd=1 if rng.random() < 0.1 else 0, rs=rs)
                    if carried == "file":
                        g.feed(g.msg("A", 1))
                        g.st, g.exp = "cont", 2
                        for _ in range(rng.randint(1, 4)):
                            probe(g, "ok")
                        g.restart()
                        g.st = "pre"
                    E = 1 if flag == "Y" else (rs or g.exp)
                    seq = {"one": 1, "exp": E, "high": E + 2}[lseq]
                    g.feed(g.msg("A", seq, body=[(98, 0), (108, 30)] + ([(141, flag)] if flag else [])))
                    g.feed(g.msg("D", 2))
                    g.feed(g.msg("D", E + 1))
                    cs.append(Case(g.line(), "sys-logon-flag"))
    # 2. random histories
    n_rand = 7000 if thorough else 1500
    for _ in range(n_rand):
        cs.append(Case(history(rng), "random"))
    return cs


def extra_search(rng, seeds, tier):
    return [Case(history(rng), "extra") for _ in range(400)]


def shrink(case):
    ops = case.line.split("|")
    out = []
    for i in range(len(ops) - 1, 0, -1):
        out.append(Case("|".join(ops[:i] + ops[i + 1:]), "shrink"))
    return out


# ------------------------------------------------------------------------------------ reading cases and traces
def _split_frames(buf):
    """BodyLength framing (as the harness' split_fix)."""
    msgs = []
    p = 0
    while p < len(buf):
        if buf[p:p + 2] != b"8=":
            break
        s1 = buf.find(b"\x01", p)
        if s1 < 0 or buf[s1 + 1:s1 + 3] != b"9=":
            break
        s2 = buf.find(b"\x01", s1 + 1)
        if s2 < 0 or not buf[s1 + 3:s2].isdigit():
            break
        end = s2 + 1 + int(buf[s1 + 3:s2]) + 7
        if end > len(buf):
            break
        msgs.append(buf[p:end])
        p = end
    return msgs


def _toks(raw):
    """tag=value tokens; the field after a Length field with value n takes the next n bytes (FIX data fields)."""
    lens = _meta()[2]
    out, p, pend = [], 0, None
    while p < len(raw):
        if pend is not None:
            eq = raw.find(b"=", p)
            if (eq >= 0 and b"\x01" not in raw[p:eq] and eq + 1 + pend < len(raw)
                    and raw[eq + 1 + pend:eq + 2 + pend] == b"\x01"):
                out.append((raw[p:eq], raw[eq + 1:eq + 1 + pend]))
                p, pend = eq + 2 + pend, None
                continue
        pend = None
        e = raw.find(b"\x01", p)
        if e < 0:
            break
        k, _, v = raw[p:e].partition(b"=")
        out.append((k, v))
        p = e + 1
        if k.isdigit() and int(k) in lens and v.isdigit():
            pend = int(v)
    return out


def _get(toks, tag):
    tag = str(tag).encode()
    for k, v in toks:
        if k == tag:
            return v
    return None


def _raw_seq(raw):
    """What Session::process gates on: the number after the first SOH "34=" (since /repo 57dfe06)."""
    i = raw.find(b"\x0134=")
    if i < 0:
        return None
    j = raw.find(b"\x01", i + 1)
    v = raw[i + 4:j] if j >= 0 else b""
    return int(v) if v.isdigit() else -1


def _steps(trace):
    """-> list of (events, snapshot dict or None)."""
    res = []
    for st in trace.split(" | "):
        evs, snap = [], None
        items = st.split(";")
        for k, it in enumerate(items):
            if it.startswith("STATE "):
                snap = {"state": int(it[6:])}
                for jt in items[k + 1:]:
                    if jt.startswith("SEQ "):
                        a = jt.split()
                        snap["send"], snap["recv"] = int(a[1]), int(a[2])
                    elif jt.startswith("CTRL "):
                        a = jt.split()
                        snap["ctrl"] = (int(a[1]), int(a[2])) if len(a) == 3 else None
                break
            evs.append(it)
        res.append((evs, snap))
    return res


def _segments(evs):
    segs, cur = [], []
    for e in evs:
        if e.startswith("RET "):
            segs.append((cur, int(e[4:])))
            cur = []
        else:
            cur.append(e)
    return segs


def _outs(seg):
    return [_toks(bytes.fromhex(e[4:])) for e in seg if e.startswith("OUT ")]


_META = None


def _meta():
    """Mandatory header / body tags per message type, from the harness' metadata dump."""
    global _META
    if _META is None:
        hdr, body, lens, admin = [], {}, set(), {}
        for l in open(S.build_sess()["driver_args"][0], errors="replace"):
            w = l.split()
            if len(w) == 3 and w[0] == "A":
                admin[w[1].encode()] = w[2] == "1"
            if len(w) >= 2 and w[0] == "P":
                lens.update(int(x.split(":")[0]) for x in w[2:] if x.split(":")[2] == "2")     # type Length
            if len(w) >= 2 and w[0] == "P" and w[1] != "trailer":
                mand = [x.split(":")[0].encode() for x in w[2:] if x.split(":")[3] == "1"]
                if w[1] == "header":
                    hdr = mand
                else:
                    body[w[1].encode()] = mand
        _META = (hdr, body, lens, admin)
    return _META


def _decodable(raw, toks):
    if len(toks) < 3 or toks[0][0] != b"8" or toks[1][0] != b"9" or toks[2][0] != b"35":
        return False
    hdr, body = _meta()[0], _meta()[1]
    if toks[2][1] not in body:
        return False
    tags = set(k for k, _ in toks)
    if len(tags) != len(toks):
        return False
    if not all(t in tags for t in hdr) or not all(t in tags for t in body[toks[2][1]]):
        return False
    return (raw[-7:-4] == b"10=" and raw[-1:] == b"\x01" and raw[-4:-1].isdigit() and
            int(raw[-4:-1]) == sum(raw[:-7]) % 256)


KNOWN_KINDS = ("raw34", "reject_unchecked", "high_not_continuous", "no_logout")


def explain(line, trace, cats=None):
    """Independent re-statement of the oracle's clauses (first message of every IN operation) for CLASSIFYING
    failures: the list of kinds of the failing messages.  `other` = a failure no listed finding explains.
    cats (a dict) receives the number of judged messages per clause and session state."""
    kinds = []

    def note(c):
        if cats is not None:
            cats[c] = cats.get(c, 0) + 1
    ops = line.split("|")
    steps = _steps(trace)
    if len(ops) != len(steps):
        return ["other"]
    par = {}
    ids = None
    prev = None
    for o, (evs, snap) in zip(ops, steps):
        w = o.split()
        if w and w[0] == "START":
            par = {"role": w[1], "persist": w[2], "ec": 1, "sd": 0, "rs": 0}
            snd, tgt = ("CLI", "SRV") if w[1] == "I" else ("SRV", "CLI")
            for kv in w[3:]:
                k, _, v = kv.partition("=")
                if k == "sid":
                    snd, _, tgt = v.partition(":")
                elif k in ("ec", "sd", "rs"):
                    par[k] = int(v)
            par["sid"] = (snd, tgt)
            ids = (snd.encode(), tgt.encode()) if w[1] == "I" else None
            prev = None
        elif w and w[0] == "RESTART":
            ids = (par["sid"][0].encode(), par["sid"][1].encode()) if par.get("role") == "I" else None
        elif w and w[0] == "IN" and prev is not None and len(w) > 1:
            buf = b"".join(bytes.fromhex(h) if h != "-" else b"" for h in w[1].split(","))
            msgs = _split_frames(buf)
            segs = _segments(evs)
            if msgs and segs:
                raw, (seg, ret) = msgs[0], segs[0]
                toks = _toks(raw)
                ty = _get(toks, 35)
                F = _get(toks, 34)
                dl = any(e.startswith("DELIVER ") for e in seg)
                outs = _outs(seg)
                has = lambda t: any(_get(x, 35) == t for x in outs)
                st = prev["state"]
                E = prev["recv"]
                if not _decodable(raw, toks):
                    note("undecodable:%s" % ("no34" if b"\x0134=" not in raw else "rejected"))
                    if dl or not has(b"3"):
                        kinds.append("other")
                elif F is not None and F.isdigit():
                    F = int(F)
                    judged, at_logon = True, False
                    if ty == b"A":
                        judged = st in (3, 5)
                        at_logon = True
                        if par["role"] == "A":
                            if (_get(toks, 141) or b"")[:1] == b"Y":
                                E = 1
                            elif par["rs"]:
                                E = par["rs"]
                            elif par["persist"] == "file" and prev.get("ctrl"):
                                E = prev["ctrl"][1]
                    elif st in (0, 2, 3, 4, 5) or ids is None:
                        judged = False
                    pd = (_get(toks, 43) or b"")[:1] == b"Y"
                    o122, o52 = _get(toks, 122), _get(toks, 52)
                    late = o122 is not None and o52 is not None and o122 > o52
                    comp = (not at_logon and par["ec"] and ids is not None and
                            not (_get(toks, 56) == ids[0] and _get(toks, 49) == ids[1]))
                    stop_ok = (not dl) and (par["sd"] or has(b"5")) and ret == 0
                    fail = None
                    if cats is not None:
                        where = "logon" if at_logon else "st%d" % st
                        if not judged:
                            note("not-judged")
                        elif comp:
                            note("compid:" + where)
                        elif ty == b"4":
                            note("seqreset")
                        elif F > E:
                            note("high:" + where)
                        elif F < E:
                            note(("low-nodup:" if not pd else "dup-late:" if late else "dup-ok:") + where)
                        else:
                            note("equal:" + where)
                        if dl:
                            note("DELIVERED")
                        if _raw_seq(raw) != F:
                            note("raw34-differs")
                    if judged:
                        if comp:
                            fail = None if stop_ok else "stop"
                        elif ty == b"4":
                            fail = "deliver" if dl else None
                        elif F > E:
                            rr = any(_get(x, 35) == b"2" and _get(x, 7) == str(E).encode() for x in outs)
                            fail = None if (not dl and rr) else "high"
                        elif F < E and not pd:
                            fail = None if stop_ok else "stop"
                        elif F < E and late:
                            fail = "deliver" if dl else None
                        else:
                            # (deliv) in sequence: an application message is delivered exactly once as its own type
                            dts = [e.split()[1].encode() for e in seg if e.startswith("DELIVER ")]
                            app = (not at_logon) and _meta()[3].get(ty) is False
                            if app:
                                fail = None if dts == [ty] else "deliv"
                            else:
                                fail = "deliver" if dl else None
                    elif dl:
                        fail = "deliver"
                    if fail:
                        if _raw_seq(raw) != F:
                            kinds.append("raw34")
                        elif ty == b"3":
                            kinds.append("reject_unchecked")
                        elif fail == "high" and not dl and (at_logon or st != 1):
                            kinds.append("high_not_continuous")
                        elif fail == "stop" and not dl and ret == 0 and not at_logon:
                            kinds.append("no_logout")
                        else:
                            kinds.append("other")
                # identity an acceptor learns
                if par.get("role") == "A" and ty == b"A" and st != 1 and ret == 1:
                    ids = (_get(toks, 56) or b"", _get(toks, 49) or b"")
                if par.get("role") == "A" and any(_get(_toks(m), 35) == b"A" for m in msgs[1:]):
                    ids = None
        if snap is not None:
            prev = snap
    return kinds


def _classifier(kind):
    def fn(case, impl_out, model_out):
        ks = explain(case.line, impl_out)
        return bool(ks) and kind in ks and all(k in KNOWN_KINDS for k in ks)
    return fn


CLASSIFIERS = {
    # `34=` occurs in the raw bytes before the MsgSeqNum field (hypothesis raw_seq = field_seq of c19_delivery_partial)
    "raw34_before_field": _classifier("raw34"),
    # sequence/CompID violation in a state other than logon_received (hypothesis of the Logout part of c19_stop_partial)
    "violation_not_logon_received": _classifier("no_logout"),
    # a message above the expected number while the state is not `continuous` (hypothesis of c19_high_partial)
    "high_not_continuous": _classifier("high_not_continuous"),
    # an inbound session-level Reject is not passed through enforce at all
    "reject_not_enforced": _classifier("reject_unchecked"),
}


def extra_evidence(ctx):
    cats = {}
    for c, r in zip(ctx["cases"], ctx["impl"]):
        try:
            explain(c.line, r, cats)
        except Exception:
            cats["unparsed"] = cats.get("unparsed", 0) + 1
    return {"judged_messages": dict(sorted(cats.items()))}


def nontrivial(case, impl_out):
    rets = impl_out.count("RET ")
    if rets < 3:            # start + two inbound messages
        return False
    steps = _steps(impl_out)
    for evs, _ in steps[1:]:
        for e in evs:
            if e.startswith("DELIVER ") or e == "RET 0":
                return True
            if e.startswith("OUT "):
                t = _get(_toks(bytes.fromhex(e[4:])), 35)
                if t in (b"2", b"3", b"5"):
                    return True
    return False
