"""Shared pieces of the C05 / C06 suites: an independent wire builder (token list of a message
in the order the encoder emits it, framing with BodyLength / CheckSum), the set of tags a
message knows, Length/data pair enumeration from the dumped metadata, and a run_impl that maps
one suite case to several h_codec operations."""
from vlib import codecgen as G
from vlib import core

SOH = b"\x01"


def getpos(t):
    return t.pos if t.flags & 4 else 0


class Tok:
    """One token of the wire image: bytes without SOH, part ('H' | 'B' | 'T'), group depth,
    field number."""
    __slots__ = ("raw", "part", "depth", "fnum")

    def __init__(self, raw, part, depth, fnum):
        self.raw, self.part, self.depth, self.fnum = raw, part, depth, fnum


def _emit(meta, owner, fs, part, depth, out):
    def key(f):
        t = meta.trait(owner, f.fnum)
        return getpos(t) if t is not None else 0
    for f in sorted(fs, key=key):           # stable: equal keys stay in insertion order
        out.append(Tok(b"%d=" % f.fnum + f.val, part, depth, f.fnum))
        if f.elems:
            sub = meta.groups.get(owner, {}).get(f.fnum)
            for e in f.elems:
                _emit(meta, sub, e, part, depth + 1, out)


def wire_tokens(meta, mt, hdr, body, trl):
    """Tokens after 35=<mt> and before 10=, in encoder order."""
    out = []
    _emit(meta, "header", hdr, "H", 0, out)
    _emit(meta, mt, body, "B", 0, out)
    _emit(meta, "trailer", trl, "T", 0, out)
    return out


def frame(begin, mt, raws):
    """8=<begin>|9=<len>|35=<mt>|<raws>|10=<sum>|"""
    body = b"35=" + mt.encode() + SOH + b"".join(r + SOH for r in raws)
    s = b"8=" + begin + SOH + b"9=%d" % len(body) + SOH + body
    return s + b"10=%03d" % (sum(s) % 256) + SOH


def known_tags(meta, mt):
    """Every tag the header, the trailer, the message body and its nested groups know."""
    seen = set()

    def walk(owner):
        for t in meta.traits.get(owner, []):
            seen.add(t.fnum)
        for sub in meta.groups.get(owner, {}).values():
            walk(sub)
    walk("header")
    walk("trailer")
    walk(mt)
    return seen


def pairs_of(meta, owner):
    """Length/data pairs of one trait table: a Length-typed field (other than BodyLength) whose
    successor in schema position is data-typed."""
    ts = sorted(meta.traits.get(owner, []), key=lambda t: t.pos)
    out = []
    for a, b in zip(ts, ts[1:]):
        if a.ftype == G.FT_LENGTH and a.fnum != 9 and b.ftype in (G.FT_DATA, G.FT_XMLDATA):
            out.append((a.fnum, b.fnum))
    return out


def owners_of(meta, mt):
    """(owner, path) of the body table of mt and of all its nested group tables; path = list of
    (parent owner, group fnum) leading to it."""
    out = []

    def walk(owner, path):
        out.append((owner, path))
        for f, sub in sorted(meta.groups.get(owner, {}).items()):
            walk(sub, path + [(owner, f)])
    walk(mt, [])
    return out


# Group-count fields whose generated C++ class is not int-like: MessageBase::has_group_count reads
# the object through static_cast<Field<int,0>*> and takes any text, "0" included, for a positive
# count (FIX44.xml types NoLegSecurityAltID(604) as STRING).  The shared codec model does not
# describe that; such messages are kept out of these suites (reported to the codec model's owner).
COUNT_CLASS_TRAPS = {"fix44": {604}}


def count_trap(meta, fs):
    """True if a field list (recursively) holds a trapped count field announcing zero elements."""
    traps = COUNT_CLASS_TRAPS.get(meta.name, ())
    for f in fs:
        if f.fnum in traps and not f.elems:
            return True
        if f.elems and any(count_trap(meta, e) for e in f.elems):
            return True
    return False


def run_multi(built, cases, expand, join, per_case_timeout=20):
    """run_impl for suites whose cases consist of several harness operations.
    expand(rest) -> list of h_codec lines; join(rest, results) -> result string.
    Identical harness lines are executed once."""
    default = next(iter(built["exes"]))
    plan = []
    by = {}
    for c in cases:
        s, rest = G.schema_of(c.line, default)
        ops = expand(rest)
        plan.append((s, rest, ops))
        d = by.setdefault(s, {})
        for o in ops:
            d.setdefault(o, None)
    for s, d in by.items():
        lines = list(d)
        out = core.run_lines([built["exes"][s]], lines, per_case_timeout=per_case_timeout)
        for l, r in zip(lines, out):
            d[l] = r
    return [join(rest, [by[s][o] for o in ops]) for s, rest, ops in plan]


def crash_to_model(r):
    """Map the framework's crash / hang vocabulary to the model's (see READY.md)."""
    if r is None:
        return "CRASH none"
    if r.startswith("CRASH") and "stack-buffer-overflow" in r:
        return "OOB"
    return r
