"""C11 — cloning and field transfer (copy_legal / move_legal) preserve message content."""
from vlib import build as B
from vlib import codecgen as G
from vlib.core import Case, run_lines as core_run_lines

ID = "C11"
LEVEL = "proof"
TECHNIQUE = ("Coq proofs (fold invariants over the trait table, induction over the group tree, sorted-list uniqueness) "
             "about a hand-written Gallina transcription of MessageBase::copy_legal / move_legal and Message::clone on the "
             "shared codec object model (coq/Codec); model tied to the real functions by differential execution on real "
             "objects (dump of _pos/_fields/_groups/present bits, returned counts, moved-from source, encoded bytes)")
LEVEL_TEXT = ("see coq/Props/Properties_C11.v: for every source object whose _pos is in strictly increasing schema order "
              "(API-built messages, messages decoded from in-order input), without pass-through bytes and with the "
              "constructor-owned BeginString untouched, a clone encodes to the original's bytes; copy_legal into a fresh "
              "deep object transfers every field and group element and returns their number; move_legal makes the target "
              "equal in content and encoding and leaves null pointers, the present bits and an empty _pos in the source; "
              "every field object of a copy keeps its (output precision, value) state, so it renders like the original. "
              "Kernel-checked counter-examples for the hypotheses that are dropped (arrival-order _pos, equal positions, "
              "_unknown); positive witnesses for the two repaired defects (zero-count group in move_legal, group object "
              "missing in the copy_legal target).")
LEVEL_NOTE = ("Trusted: Coq kernel, extraction (ExtrOcamlBasic), the hand transcription in coq/C11/Copy.v and coq/Codec "
              "(checked by the correspondence run), harness/h_c11.cpp + harness/meta_dump.hpp, the OCaml driver's parsers, "
              "vlib generators.")
DESIGN_REF = "DESIGN.md section 4, Codec group, C11"
PROPS_FILE = "Props/Properties_C11.v"
COQ_TARGETS = ["Props/Properties_C11.vo", "Extract/Extract_C11.vo"]
TRUSTED_BASE = ["Coq 8.16.1 kernel (coqc), vm_compute only", "Extraction with ExtrOcamlBasic, no Extract Constant; OCaml 4.13.1",
                "hand-written model coq/C11/Copy.v of runtime/message.cpp:277-348,669-678 on coq/Codec/*.v, tied by differential execution",
                "coq/C11/Precision.v: float fields carry (precision, text); rendering by C08's fast_atof / modp_dtoa models over "
                "Flocq 4.1.0 binary64; only c11_precision_nonvacuous (a vm_compute witness through those functions) depends on the "
                "Coq Reals / Flocq axioms ClassicalDedekindReals.sig_forall_dec, ClassicalDedekindReals.sig_not_dec, "
                "Classical_Prop.classic, FunctionalExtensionality.functional_extensionality_dep; all other theorems are axiom-free",
                "harness/h_c11.cpp + harness/meta_dump.hpp (metadata taken from the compiled generated classes); the harness sets "
                "the precision of an API-built float field through Field<fp_type,0>::set_precision (layout-compatible cast, as "
                "fix8's own has_group_count)",
                "ocaml/prelude.ml + ocaml/c11_driver.ml (metadata / msgspec / dump parsers), vlib/codecgen.py + vlib/suites/c11.py (generators)"]
ASSUMPTIONS = ["field values are canonical for their type (render = identity on floats and date/time texts); a deviation "
               "shows up as a model/implementation disagreement",
               "a sanitizer death of the harness process is compared with the model's memory-error prediction as the single "
               "token CRASH (the crash site inside fix8 depends on the heap layout)"]
RULE = ("messages generated from the dumped metadata (every message type, mandatory + random optional fields, groups with "
        "0..3 elements nested to the schema's depth, random insertion order) run through CLONE / COPY / MOVE on the real "
        "objects; the same messages serialised in schema order and in shuffled-but-valid token order, decoded by "
        "Message::factory, then cloned / copied / moved (DCLONE / DCOPY / DMOVE); unpositioned user fields in both insertion "
        "orders; zero-count group fields; permissive decodes with pass-through bytes; MOVE of built and decoded sources "
        "with (nested) groups into SHALLOW-constructed targets (SMOVE / DSMOVE: move_legal's add_group branch) and COPY of "
        "element-free sources into shallow targets; API-built float fields with an "
        "explicit output precision 0..9 at top level and inside nested group elements (values whose rendering depends on "
        "the precision). "
        "SEQ cases: FIX42UTEST and FIX44 linked into ONE harness process, CLONE/COPY/MOVE of messages of both schemas "
        "with EQUAL MsgTypes interleaved on the same thread (ABAB, AABB, ...) plus controls with different types. "
        "non-trivial = every stage OK and at least 8 fields in the source; distinct = distinct case lines")

SOH = b"\x01"


def schemas(tier):
    return ("utest", "fix44") if tier == "thorough" else ("utest",)


_state = {}


def build(tier):
    # metadata of BOTH schemas in every tier (dumped by the shared harness), and ONE harness process
    # that links FIX42UTEST and FIX44 (-DC11_BOTH): a case selects its schema with "@fix44 ", and
    # SEQ cases run operations of both schemas in a row in the same process / on the same thread
    built = dict(G.build_codec(("utest", "fix44")))
    d44, objs44, _, _ = B.schema_objs("fix44", "asan")
    exe = B.harness("h_c11", runtime=None, schema="utest", extra=["-DC11_BOTH", "-I" + d44], extra_link=objs44)
    built["exes"] = {"utest": exe, "fix44": exe}
    built["impl"] = [exe]
    import os
    d = os.path.join(B.CACHE, "codec")
    os.makedirs(d, exist_ok=True)
    built["rtable"] = os.path.join(d, "c11-render-%d.txt" % os.getpid())
    open(built["rtable"], "w").close()
    built["driver_args"] = list(built["driver_args"]) + ["rtable=" + built["rtable"]]
    _state["rendered"] = {}
    _state["built"] = built
    return built


def run_impl(built, cases, tier):
    # the memory errors of the (repaired) findings kill the process: no symbolisation (slow on a loaded
    # machine; the crash text is reduced to CRASH anyway), generous per-case timeout
    import os
    saved = {k: os.environ.get(k) for k in ("ASAN_OPTIONS", "UBSAN_OPTIONS")}
    os.environ["ASAN_OPTIONS"] = ("detect_leaks=0:abort_on_error=0:halt_on_error=1:allocator_may_return_null=1:"
                                  "detect_stack_use_after_return=0:symbolize=0")
    os.environ["UBSAN_OPTIONS"] = "print_stacktrace=0:halt_on_error=1:symbolize=0"
    try:
        _render_table(built, cases, "utest")
        # one harness process per schema for the plain cases, a fresh process for every SEQ case: a case's
        # result must not depend on what ran before it in the process (a replay runs it alone)
        res = [None] * len(cases)
        groups = {}
        for k, c in enumerate(cases):
            if c.line.startswith("SEQ "):
                res[k] = core_run_lines(built["impl"], [c.line], per_case_timeout=90)[0]
            else:
                groups.setdefault(G.schema_of(c.line, "utest")[0], []).append(k)
        for _, ks in sorted(groups.items()):
            out = core_run_lines(built["impl"], [cases[k].line for k in ks], per_case_timeout=90)
            for k, r in zip(ks, out):
                res[k] = r
        return res
    finally:
        for k, v in saved.items():
            if v is None:
                os.environ.pop(k, None)
            else:
                os.environ[k] = v


def _marked(fs, out):
    for f in fs:
        if len(f.val) >= 3 and f.val[:1] == b"~" and f.val[2:3] == b"~" and f.val[1:2].isdigit():
            out.add((f.fnum, f.val))
        for e in f.elems or ():
            _marked(e, out)


def _render_table(built, cases, default):
    """REAL renderings (harness op RENDER: print() of a fresh, never copied field) of the API-built
    float states "~p~text" occurring in the cases, appended to the driver's table file."""
    todo = {}
    lines = []
    for c in cases:
        lines += c.line[4:].split(" || ") if c.line.startswith("SEQ ") else [c.line]
    for line in lines:
        schema, rest = G.schema_of(line, default)
        w = rest.split(" ")
        if w[0] not in OPS + ("SCOPY", "SMOVE"):
            continue
        try:
            mt, h, b, t = G.parse_msg(w[1])
        except Exception:
            continue
        found = set()
        for fs in (h, b, t):
            _marked(fs, found)
        for fnum, val in found:
            if val not in _state["rendered"]:
                todo.setdefault(schema, {})[val] = fnum
    for schema, items in todo.items():
        pairs = sorted(items.items())
        px = "" if schema == default else "@%s " % schema
        out = core_run_lines(built["impl"], [px + "RENDER %d %s" % (f, v.hex()) for v, f in pairs])
        with open(built["rtable"], "a") as fh:
            for (v, f), r in zip(pairs, out):
                if r.startswith("OK "):
                    _state["rendered"][v] = r[3:]
                    fh.write("%s %s\n" % (v.hex(), r[3:]))


def postprocess(case, r):
    # the process died under the sanitizers: the model predicts memory errors as "CRASH"
    if r.startswith("CRASH"):
        return "CRASH"
    return r


def pre(schema, default):
    return "" if schema == default else "@%s " % schema


# ------------------------------------------------------------------------------ wire form
def toks(fs):
    out = []
    for f in fs:
        out.append(b"%d=%s" % (f.fnum, f.val))
        if f.elems:
            for e in f.elems:
                out += toks(e)
    return out


def wire(meta, mt, hdr, body, trl, extra_tail=()):
    b = SOH.join([b"35=" + mt.encode()] + toks(hdr) + toks(body) + toks(trl) + list(extra_tail)) + SOH
    m = b"8=" + meta.begin + SOH + b"9=%d" % len(b) + SOH + b
    return m + b"10=%03d" % (sum(m) % 256) + SOH


def ordered(meta, owner, fs, rng=None, is_elem=False):
    """The fields in schema order; with rng: in a shuffled but decodable order (an element keeps
    its first field first; a Length field stays immediately before its data field)."""
    fs = sorted(fs, key=lambda f: meta.trait(owner, f.fnum).pos)
    if rng is not None:
        units = []
        k = 0
        while k < len(fs):
            t = meta.trait(owner, fs[k].fnum)
            if (t.ftype == G.FT_LENGTH and k + 1 < len(fs)
                    and meta.trait(owner, fs[k + 1].fnum).ftype in (G.FT_DATA, G.FT_XMLDATA)):
                units.append(fs[k:k + 2])
                k += 2
            else:
                units.append(fs[k:k + 1])
                k += 1
        head = units[:1] if is_elem else []
        rest = units[1:] if is_elem else units
        rng.shuffle(rest)
        fs = [f for u in head + rest for f in u]
    out = []
    for f in fs:
        els = f.elems
        if els is not None:
            sub = meta.groups[owner][f.fnum]
            els = [ordered(meta, sub, e, rng, True) for e in els]
        out.append(G.Fld(f.fnum, f.val, els))
    return out


def wire_of(meta, msg, rng=None):
    mt, h, b, t = msg
    return wire(meta, mt, ordered(meta, "header", h, rng), ordered(meta, mt, b, rng), ordered(meta, "trailer", t, rng))


# ------------------------------------------------------------------------------ cases
OPS = ("CLONE", "COPY", "MOVE")


def gen_cases(rng, tier):
    built = _state.get("built") or build(tier)
    thorough = tier == "thorough"
    cs = []
    default = schemas(tier)[0]
    for schema in schemas(tier):
        meta = built["metas"][schema]
        px = pre(schema, default)
        k = 2 if thorough else 1
        if schema != default:
            k = 1
        gen = G.MsgGen(meta, rng)
        rich = G.MsgGen(meta, rng, p_opt=0.6)
        flat = G.MsgGen(meta, rng, p_opt=0.1, max_elems=1)
        types = sorted(meta.msgs)
        grouped = [mt for mt in types if meta.groups.get(mt)]

        def three(msg, cls):
            for op in OPS:
                cs.append(Case(px + op + " " + G.ser_msg(*msg), cls + "-" + op.lower()))

        def three_dec(w, cls, mode="s"):
            for op in OPS:
                cs.append(Case(px + "D" + op + " " + mode + " " + w.hex(), cls + "-" + op.lower()))

        # every message type through the three operations, API-built
        for mt in types * k:
            three(gen.message(mt), "api-type")
        for _ in range(120 * k):
            three(gen.message(), "api-random")
        for _ in range(40 * k):
            three(rich.message(rng.choice(grouped), max_wire=5000), "api-rich-groups")
        # decoded sources: schema order (arrival order = schema order) and shuffled order
        for mt in types * k:
            msg = gen.message(mt)
            three_dec(wire_of(meta, msg), "dec-inorder")
        for _ in range(70 * k):
            msg = gen.message(rng.choice(grouped))
            three_dec(wire_of(meta, msg), "dec-inorder")
        for _ in range(110 * k):
            msg = (gen if rng.random() < 0.6 else flat).message()
            three_dec(wire_of(meta, msg, rng), "dec-shuffled")
        # unpositioned fields (getPos() = 0 for both): equal _pos keys, insertion order decides
        unpos = [(o, [t.fnum for t in ts if not (t.flags & 4)]) for o, ts in meta.traits.items()
                 if o in meta.msgs and len([t for t in ts if not (t.flags & 4)]) >= 2]
        for o, fl in unpos[:6]:
            for _ in range(2 * k):
                mt, h, b, t = flat.message(o)
                b = [f for f in b if f.fnum not in fl]
                for orderv in (fl, fl[::-1]):
                    extra = [G.Fld(f, G.gen_string(rng)) for f in orderv]
                    b2 = b + extra if rng.random() < 0.5 else extra + b
                    three((mt, h, b2, t), "unpositioned-" + ("asc" if orderv == fl else "desc"))
        # group count fields with value 0: built (the group object exists), decoded (it does not)
        zc = []
        for mt in grouped:
            for gf in meta.groups[mt]:
                zc.append((mt, gf))
        rng.shuffle(zc)
        for mt, gf in zc[:(15 * k)]:
            m2, h, b, t = flat.message(mt)
            b = [f for f in b if f.fnum != gf] + [G.Fld(gf, b"0", [])]
            three((mt, h, b, t), "zero-count-api")
            three_dec(wire_of(meta, (mt, h, b, t)), "zero-count-decoded")
        # permissive decode with pass-through bytes (_unknown is not transferred)
        for _ in range(6 * k):
            mt, h, b, t = flat.message()
            w = wire(meta, mt, ordered(meta, "header", h), ordered(meta, mt, b), ordered(meta, "trailer", t),
                     extra_tail=[b"%d=%s" % (rng.choice((20000, 30001, 29999)), G.gen_string(rng, eq=False))])
            three_dec(w, "unknown-passthrough", mode="p")
        # SHALLOW-constructed targets (create_msg(type, false)): the body has no pre-created group
        # objects, move_legal attaches the source's groups through its add_group branch; copy_legal
        # creates them (find_add_group, /repo 6620c2f)
        noel = G.MsgGen(meta, rng, p_opt=0.3, max_elems=0)
        for j in range(40 * k):
            msg = (rich if j % 2 else gen).message(rng.choice(grouped), max_wire=5000)
            cs.append(Case(px + "SMOVE " + G.ser_msg(*msg), "shallow-move"))
            cs.append(Case(px + "DSMOVE s " + wire_of(meta, msg).hex(), "shallow-move-decoded"))
            if j % 2 == 0:
                # since /repo 6620c2f copy_legal creates the target's missing group objects itself
                cs.append(Case(px + "SCOPY " + G.ser_msg(*msg), "shallow-copy-groups"))
                cs.append(Case(px + "DSCOPY s " + wire_of(meta, msg).hex(), "shallow-copy-groups-decoded"))
        for _ in range(10 * k):
            cs.append(Case(px + "SMOVE " + G.ser_msg(*gen.message()), "shallow-move"))
        for _ in range(12 * k):
            msg = noel.message()
            cs.append(Case(px + "SCOPY " + G.ser_msg(*msg), "shallow-copy"))
            cs.append(Case(px + "DSCOPY s " + wire_of(meta, msg).hex(), "shallow-copy-decoded"))
        # two schemas in one process, equal MsgTypes, operations interleaved on the same thread: anything
        # fix8 remembers between calls (per type, not per metadata context) shows on the second schema
        if schema == default and "fix44" in built["metas"]:
            m2 = built["metas"]["fix44"]
            common = sorted(set(meta.msgs) & set(m2.msgs))
            ga = G.MsgGen(meta, rng, p_opt=0.2, max_elems=2, shuffle=False)
            gb = G.MsgGen(m2, rng, p_opt=0.15, max_elems=2, shuffle=False)

            def sub(which, op, mt):
                if which == "A":
                    return "@utest %s %s" % (op, G.ser_msg(*ga.message(mt, max_wire=3000)))
                return "@fix44 %s %s" % (op, G.ser_msg(*gb.message(mt, max_wire=3000)))
            for j in range(24 * k):
                mt = common[j % len(common)] if j < len(common) else rng.choice(common)
                pat = ("ABAB", "AABB", "BABA", "BBAA")[j % 4]
                ops = ["CLONE"] * 4 if j % 3 else [rng.choice(OPS) for _ in range(4)]
                if "CLONE" not in ops:
                    ops[rng.randrange(4)] = "CLONE"
                cs.append(Case("SEQ " + " || ".join(sub(w, o, mt) for w, o in zip(pat, ops)), "two-schema-same-type"))
            for j in range(6 * k):
                a, b2 = rng.sample(common, 2)
                cs.append(Case("SEQ " + " || ".join(sub(w, "CLONE", t2) for w, t2 in zip("ABAB", (a, b2, b2, a))),
                               "two-schema-different-types"))
        # API-built float fields with an explicit output precision 0..9 (Field<fp_type,N>(value, p)):
        # the copy must render like the original.  Value texts "~p~<decimal>" (see harness make_field /
        # coq/C11/Precision.v), decimals chosen so that the rendering depends on the precision.
        ftypes = [mt for mt in types if _has_float(meta, mt, 1)]
        gtypes = [mt for mt in types if _has_float(meta, mt, 2)]
        for j in range(45 * k):
            pool = gtypes if (j % 3 and gtypes) else ftypes
            if not pool:
                break
            g2 = rich if j % 2 else gen
            msg = g2.message(rng.choice(pool), max_wire=5000)
            mt, h, b, t = msg
            n1 = _mark_floats(meta, rng, mt, b, 0)
            if n1[0] + n1[1] == 0:
                continue
            three((mt, h, b, t), "precision-nested" if n1[1] else "precision-body")
    return cs


FLOAT_TEXTS = ("400.5", "1.23456", "0.000125", "99.995", "1234567.125", "0.1", "0.5", "2.5", "0.45", "0.95",
               "1.005", "7.123456789", "31.4159265", "0.999999", "12.0", "3.000001", "19.99", "250.75")


def _float_text(rng):
    if rng.random() < 0.5:
        s = rng.choice(FLOAT_TEXTS)
    else:
        s = "%d.%s" % (rng.choice((0, rng.randrange(10), rng.randrange(1000), rng.randrange(10 ** 6))),
                       "".join(rng.choice("0123456789") for _ in range(rng.randint(1, 8))))
    if rng.random() < 0.15:
        s = "-" + s
    return s


def _is_float(t):
    return t is not None and G.FT_FLOAT <= t.ftype <= G.FT_END_FLOAT and not t.group


def _has_float(meta, owner, depth):
    """Does `owner` have a float field at nesting level >= depth (1 = its own table)?"""
    if depth <= 1 and any(_is_float(t) for t in meta.traits.get(owner, [])):
        return True
    return any(_has_float(meta, sub, depth - 1) for sub in meta.groups.get(owner, {}).values())


def _mark_floats(meta, rng, owner, fs, level):
    """Turn most float fields (every level) into API-built ones with a random precision; returns
    [marked at top level, marked inside group elements]."""
    n = [0, 0]
    for f in fs:
        t = meta.trait(owner, f.fnum)
        if _is_float(t) and rng.random() < 0.8:
            f.val = ("~%d~%s" % (rng.randrange(10), _float_text(rng))).encode()
            n[1 if level else 0] += 1
        sub = meta.groups.get(owner, {}).get(f.fnum)
        if f.elems and sub:
            for e in f.elems:
                m = _mark_floats(meta, rng, sub, e, level + 1)
                n[1] += m[0] + m[1]
    return n


# ------------------------------------------------------------------------------ dump parser (classifiers)
def parse_mb(s, i):
    """Parse one '{p:..;f:..;g:..;u:..;pr:..;su:..}' at s[i]; returns (dict, next index)."""
    assert s.startswith("{p:", i)
    i += 3
    j = s.index(";f:", i)
    pos = []
    for it in [x for x in s[i:j].split(",") if x]:
        k, rest = it.split(":")
        f, v = rest.split("=")
        pos.append((int(k), int(f), v))
    i = j + 3
    j = s.index(";g:", i)
    fields = [(int(x.split("=")[0]), x.split("=")[1]) for x in s[i:j].split(",") if x]
    i = j + 3
    groups = []
    while s[i] != ";":
        j = s.index("[", i)
        f = int(s[i:j])
        i = j + 1
        els = []
        if s.startswith("null", i):
            els = None
            i += 4
        else:
            while s[i] == "{":
                e, i = parse_mb(s, i)
                els.append(e)
        assert s[i] == "]"
        i += 1
        groups.append((f, els))
        if s[i] == ",":
            i += 1
    assert s.startswith(";u:", i)
    i += 3
    j = s.index(";pr:", i)
    unknown = s[i:j]
    j2 = s.index("}", j)
    return {"pos": pos, "fields": fields, "groups": groups, "unknown": unknown}, j2 + 1


def parse_dump(d):
    """'T=<type> H{..} B{..} T{..}' -> (type, hdr, body, trl)."""
    sp = d.index(" ")
    mt = d[2:sp]
    i = sp + 2
    h, i = parse_mb(d, i)
    b, i = parse_mb(d, i + 2)
    t, i = parse_mb(d, i + 2)
    return mt, h, b, t


def _ctx_of(case):
    built = _state["built"]
    default = next(iter(built["exes"]))
    schema, rest = G.schema_of(case.line, default)
    return built["metas"][schema], rest.split(" ")


def _nondeep(meta):
    """(owner, fnum) of the groups the owner's deep constructor does NOT pre-create (metadata
    'G <owner> <fnum> -> <sub> 0'; vlib.codecgen.Meta drops the flag, so the dump is read again)."""
    if not hasattr(meta, "_c11_nondeep"):
        nd = set()
        for a in _state["built"]["driver_args"]:
            name, _, path = a.partition("=")
            if name == meta.name:
                for line in open(path):
                    w = line.split()
                    if len(w) == 6 and w[0] == "G" and w[5] == "0":
                        nd.add((w[1], int(w[2])))
        meta._c11_nondeep = nd
    return meta._c11_nondeep


def _getpos(meta, owner, fnum):
    t = meta.trait(owner, fnum)
    if t is None:
        return None
    return t.pos if (t.flags & 4) else 0


def _unordered(meta, owner, mb, deep=True):
    last = -1
    for _, f, _ in mb["pos"]:
        p = _getpos(meta, owner, f)
        if p is None or p <= last:
            return True
        last = p
    if deep:
        for f, els in mb["groups"]:
            sub = meta.groups.get(owner, {}).get(f)
            if els and sub and any(_unordered(meta, sub, e) for e in els):
                return True
    return False


def _source(case, r):
    if case.line.startswith("SEQ "):
        return None
    st = r.split(" | ")
    if not st or not st[0].startswith("OK T="):
        return None
    return parse_dump(st[0][3:])


def c_unordered(case, r, m):
    """Negation of the hypothesis `schema order': somewhere in the source the _pos sequence is not
    strictly increasing in the trait tables' positions (arrival order of a decoded message, or
    two unpositioned fields under the same key)."""
    meta, w = _ctx_of(case)
    src = _source(case, r)
    if src is None:
        return False
    mt, h, b, t = src
    deep = not w[0].endswith("MOVE")          # move_legal hands group elements over as they are
    return _unordered(meta, "header", h, deep) or _unordered(meta, mt, b, deep) or _unordered(meta, "trailer", t, deep)


def _has_unknown(mb):
    if mb["unknown"] not in ("", "-"):
        return True
    return any(els and any(_has_unknown(e) for e in els) for _, els in mb["groups"])


def c_unknown(case, r, m):
    """Negation of the hypothesis `no pass-through bytes': the source carries _unknown bytes."""
    src = _source(case, r)
    if src is None:
        return False
    return any(_has_unknown(x) for x in src[1:])


def c_move_nogroup(case, r, m):
    """Negation of the hypothesis `every present group field has its _groups entry' for move_legal:
    a decoded source holding a group count field with value 0 whose group object was therefore never
    created (body groups: the decoded body is shallow; header groups the deep constructor omits)."""
    meta, w = _ctx_of(case)
    if w[0] not in ("DMOVE", "DSMOVE") or r != "CRASH":
        return False
    data = bytes.fromhex(w[2])
    tk = [x.split(b"=", 1) for x in data.split(SOH) if b"=" in x]
    mt = next((v.decode() for k, v in tk if k == b"35"), None)
    if mt is None:
        return False
    # the decoded body is shallow (no group object unless decode_group ran); header and trailer are
    # always deep-constructed, which pre-creates their groups -- except the non-deep ones
    gtags = set(meta.groups.get(mt, {})) | {f for (o, f) in _nondeep(meta) if o in ("header", "trailer")}
    for k, v in tk:
        if k.isdigit() and int(k) in gtags and v.strip(b"0") == b"":
            return True
    return False


def _holds_nondeep(meta, owner, fs):
    nd = _nondeep(meta)
    for f in fs:
        if f.elems and (owner, f.fnum) in nd:
            return True
        sub = meta.groups.get(owner, {}).get(f.fnum)
        if f.elems and sub and any(_holds_nondeep(meta, sub, e) for e in f.elems):
            return True
    return False


def c_target_group(case, r, m):
    """Negation of the hypothesis `the deep-constructed target has the group': copy_legal / clone of
    a source holding elements of a group that the target's deep constructor does not pre-create
    (FIX44 header, NoHops 627): to->find_group() is null and is dereferenced."""
    meta, w = _ctx_of(case)
    if r != "CRASH" or w[0] not in ("CLONE", "COPY", "SCOPY", "DCLONE", "DCOPY", "DSCOPY"):
        return False
    if w[0] in ("CLONE", "COPY", "SCOPY"):
        mt, hdr, body, trl = G.parse_msg(w[1])
        return (_holds_nondeep(meta, "header", hdr) or _holds_nondeep(meta, mt, body)
                or _holds_nondeep(meta, "trailer", trl))
    data = bytes.fromhex(w[2])
    tk = [x.split(b"=", 1) for x in data.split(SOH) if b"=" in x]
    tags = {f for (o, f) in _nondeep(meta)}
    return any(k.isdigit() and int(k) in tags and v.strip(b"0") != b"" for k, v in tk)


# c_move_nogroup / c_target_group classified two defects that are repaired in /repo (1eb9e00, 198b3ea):
# the entries are "fixed", the model follows the repaired code, the case classes stay as regression tests
CLASSIFIERS = {"unordered-positions": c_unordered, "unknown-dropped": c_unknown}


def nontrivial(case, r):
    if case.line.startswith("SEQ "):
        return all(nontrivial(Case(c, "sub"), x) or x.startswith("OK") for c, x in zip(case.line[4:].split(" || "), r.split(" || ")))
    st = r.split(" | ")
    if len(st) < 4 or not all(s.startswith("OK") for s in st):
        return False
    mt, h, b, t = parse_dump(st[0][3:])

    def nf(mb):
        return len(mb["fields"]) + sum(nf(e) for _, els in mb["groups"] if els for e in els)
    return nf(h) + nf(b) + nf(t) >= 8


def extra_search(rng, seeds, tier):
    return gen_cases(rng, tier)[:3000]


def shrink(case):
    """API-built cases: drop one top-level optional field / one group element at a time."""
    try:
        meta, w = _ctx_of(case)
        if w[0] not in OPS + ("SCOPY", "SMOVE"):
            return []
        spec = w[-1]
        prefix = case.line[:len(case.line) - len(spec)]
        mt, hdr, body, trl = G.parse_msg(spec)
    except Exception:
        return []
    out = []

    def variants(fs, owner):
        for i, f in enumerate(fs):
            t = meta.trait(owner, f.fnum)
            if t is not None and not t.mandatory:
                yield fs[:i] + fs[i + 1:]
            if f.elems:
                for j in range(len(f.elems)):
                    els = f.elems[:j] + f.elems[j + 1:]
                    yield fs[:i] + [G.Fld(f.fnum, str(len(els)).encode(), els)] + fs[i + 1:]
    for v in variants(hdr, "header"):
        out.append(Case(prefix + G.ser_msg(mt, v, body, trl), "shrink"))
    for v in variants(body, mt):
        out.append(Case(prefix + G.ser_msg(mt, hdr, v, trl), "shrink"))
    for v in variants(trl, "trailer"):
        out.append(Case(prefix + G.ser_msg(mt, hdr, body, v), "shrink"))
    return out[:60]
