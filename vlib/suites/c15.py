"""C15 — socket reader frames the byte stream exactly."""
import re

from vlib import build as B
from vlib.core import Case

ID = "C15"
LEVEL = "proof"
TECHNIQUE = ("Coq proof (induction over chunk lists and message sequences; chunking-independence of the modelled socket read; "
             "instrumented stack buffers) about a hand-written Gallina model of FIXReader::sockRead/read/execute, "
             "MessageBase::extract_element and fast_atoi<unsigned>; model tied to the code by running the real FIXReader thread "
             "function on an in-memory Poco socket with scripted chunk boundaries against the extracted model, under ASan")
LEVEL_TEXT = ("Theorems c15_sockread_chunking / c15_chunking_independent (the result of the modelled reader depends only on the "
              "concatenated byte stream), c15_frames_exact / c15_valid_streams_ok (every sequence of valid frames, in any chunking, "
              "is handed on exactly, in order, with no error), c15_no_oob (no out-of-bounds write into msg_buf/tag/val for ANY "
              "stream, with extract_element as repaired by d48d8ce), c15_long_field_error (over-long tags/values: IllegalMessage, "
              "nothing handed on), c15_bad_tag_partial / c15_nonnumeric_bodylength_partial (wrong tags, a non-digit anywhere in "
              "BodyLength, with the tests of cb750d0/b287a2f), c15_bad_beginstring_partial (remaining hypothesis: different as a C "
              "string), c15_bad_bodylength_partial (remaining hypothesis: zero/oversized as read mod 2^32): error, nothing handed "
              "on; c15_*_orig_refuted (the unrepaired code overflowed / accepted 9=:, 88=, 93=) and c15_bodylength_wrap_refuted, "
              "c15_beginstring_nul_refuted (witnesses where the faithful model still violates the property).")
LEVEL_NOTE = ("Trusted: Coq kernel, extraction, the hand transcription (checked by the correspondence run), vsock.hpp's "
              "receiveBytes (one call returns a prefix of one chunk), ASan detecting the first write past tag[32]/val[2048], "
              "char is signed, the kind of exception is read from the text FIXReader::execute logs. Actual memory safety of the "
              "C++ is only checked by ASan on the generated cases; the theorem is about the instrumented model.")
DESIGN_REF = "DESIGN.md section 4, C15"
PROPS_FILE = "Props/Properties_C15.v"
COQ_TARGETS = ["Props/Properties_C15.vo", "Extract/Extract_C15.vo"]
TRUSTED_BASE = ["Coq 8.16.1 kernel (coqc), vm_compute only for closed witnesses",
                "Extraction with ExtrOcamlBasic, no Extract Constant; OCaml 4.13.1",
                "hand-written model coq/C15/Reader.v of runtime/connection.cpp (FIXReader::read, execute), include/fix8/connection.hpp "
                "(sockRead), message.hpp (extract_element), f8utils.hpp (fast_atoi), tied by differential execution",
                "ocaml/prelude.ml + ocaml/c15_driver.ml, harness/h_c15.cpp + vsock.hpp + vclock.cpp, vlib (generators, comparison)",
                "g++ 12 -fsanitize=address: a write past a stack array traps; x86-64 char is signed"]
ASSUMPTIONS = ["a socket read returns a non-empty prefix of the bytes that have arrived (modelled as a prefix of the head chunk); "
               "EAGAIN retries are not modelled",
               "Session::process returns normally and does not shut the session down (the recording session of the harness); "
               "what the session does with a message is C16-C23",
               "non-buffered socket read (FIX8_EXPERIMENTAL_BUFFERED_SOCKET_READ off), threaded process model; pm_pipeline/pm_coro "
               "call the same FIXReader::read"]
RULE = ("streams of 1..5 valid frames (arbitrary body bytes incl. SOH/NUL/0xff, body lengths at the digit-count and maximum "
        "boundaries, leading zeros in BodyLength) under chunkings: one chunk, 1-byte chunks, every 2-split of short streams, "
        "random splits, splits around the 13-byte preamble; truncation at every offset with and without close; malformed "
        "streams after 0..2 valid frames: wrong/short/long/NUL BeginString, wrong first/second tag, BodyLength zero, empty, "
        "non-numeric, signed, 10/11 digits, 2^32+n, around the maximum 8172, digit runs 31/32/33/.., values 2047/2048/2049, "
        "missing SOH, 8192-byte preambles, negative chars; byte mutations of valid streams; digit-heavy garbage. Each with "
        "closed/open end and pre-queued/stepwise delivery. non-trivial = at least 2 chunks and (a message handed on or an "
        "error end); distinct = distinct case lines")

BEGIN = b"FIX.4.2"
SOH = b"\x01"
MAXLEN = 8192
BG = 2 + len(BEGIN) + 1 + 3
LIMIT = MAXLEN - BG - 7
TAGCAP = 32
VALCAP = 2048
HDR = b"8=" + BEGIN + SOH + b"9="


def build(tier):
    # symbolize=0: symbolising one ASan report of this executable takes ~20 s; only the kind of error is used
    return {"impl": [B.harness("h_c15", runtime=None, schema="utest", extra_srcs=["vclock.cpp"])],
            "env": {"ASAN_OPTIONS": "detect_leaks=0:abort_on_error=0:halt_on_error=1:allocator_may_return_null=1:"
                                    "detect_stack_use_after_return=0:symbolize=0"},
            "per_case_timeout": 60}


# --------------------------------------------------------------------------------- frames
def frame(body, begin=BEGIN, lenfield=None, trailer=None):
    lf = str(len(body)).encode() if lenfield is None else lenfield
    pre = b"8=" + begin + SOH + b"9=" + lf + SOH
    if trailer is None:
        trailer = b"10=" + ("%03d" % (sum(pre + body) % 256)).encode() + SOH
    return pre + body + trailer


def rand_body(rng, n=None):
    if n is None:
        n = rng.choice((1, 2, 5, 9, 10, 11, 20, 35, 60, 99, 100, 101, rng.randrange(1, 80), rng.randrange(1, 300)))
    mode = rng.randrange(5)
    if mode == 0:       # FIX-like
        out = b""
        while len(out) < n:
            out += str(rng.choice((35, 49, 56, 34, 52, 11, 55, 10, 8, 9))).encode() + b"=" + \
                   bytes(rng.choice(b"AB0129.:") for _ in range(rng.randrange(1, 8))) + SOH
        return out[:n - 1] + SOH if n > 1 else SOH
    if mode == 1:
        return bytes(rng.randrange(256) for _ in range(n))
    if mode == 2:       # looks like framing
        pool = [b"8=FIX.4.2", SOH, b"9=", b"10=", b"123", SOH, b"\x00", b"="]
        out = b""
        while len(out) < n:
            out += rng.choice(pool)
        return out[:n]
    if mode == 3:
        return bytes(rng.choice((0, 1, 0x30, 0x39, 0x3d, 0xff, 0x80, 0x38)) for _ in range(n))
    return bytes(rng.randrange(0x20, 0x7f) for _ in range(n))


def rand_frame(rng, n=None):
    body = rand_body(rng, n)
    lf = None
    if rng.randrange(8) == 0:
        lf = b"0" * rng.choice((1, 2, 5, 30)) + str(len(body)).encode()
    return frame(body, lenfield=lf)


# --------------------------------------------------------------------------------- chunking
def split_at(s, cuts):
    cuts = sorted(set(c for c in cuts if 0 < c < len(s)))
    out, p = [], 0
    for c in cuts:
        out.append(s[p:c])
        p = c
    out.append(s[p:])
    return out


def rand_chunks(rng, s, style=None):
    if not s:
        return []
    style = style if style is not None else rng.randrange(7)
    if style == 0:
        return [s]
    if style == 1 and len(s) <= 400:
        return [s[i:i + 1] for i in range(len(s))]
    if style == 2:
        return split_at(s, [rng.randrange(1, len(s) + 1) for _ in range(rng.randrange(1, 4))])
    if style == 3:
        out, p = [], 0
        while p < len(s):
            k = rng.choice((1, 1, 2, 3, 5, 7, 12, 13, 14, 20, 64))
            out.append(s[p:p + k])
            p += k
        return out
    if style == 4:      # around the fixed-size first read and the SOHs
        pts = [i + 1 for i, b in enumerate(s) if b == 1] + [12, 13, 14]
        return split_at(s, rng.sample(pts, min(len(pts), rng.randrange(1, 6))))
    if style == 5:      # with empty chunks (dropped by the socket)
        ch = split_at(s, [rng.randrange(1, len(s) + 1) for _ in range(3)])
        ch.insert(rng.randrange(len(ch) + 1), b"")
        return ch
    out, p = [], 0
    while p < len(s):
        k = rng.randrange(1, max(2, len(s) // 3))
        out.append(s[p:p + k])
        p += k
    return out


def mk(closed, mode, chunks, cls):
    if mode == 1 and len(chunks) > 48:
        mode = 0
    return Case("%d %d %s" % (1 if closed else 0, mode, ",".join(c.hex() for c in chunks) or "-"), cls)


def parse_case(line):
    closed, mode, ch = line.split(" ")
    chunks = [] if ch == "-" else [bytes.fromhex(h) for h in ch.split(",")]
    return closed == "1", int(mode), chunks


# --------------------------------------------------------------------------------- malformed heads
def bad_heads(rng, thorough):
    """(class, bytes) of corrupted preambles (followed by enough bytes for the reader to go on).
    thorough=False keeps only the boundary pairs of the over-long fields (used while those crashed)."""
    fill = lambda n: bytes(rng.choice(b"ABCxyz019=") for _ in range(n)) + b"10=000" + SOH
    d = lambda n, c=b"7": c * n
    H = []
    # BeginString
    for v in (b"FIX.4.1", b"FIX.4.4", b"fix.4.2", b"FIX.4.3", b"FIX", b"", b"FIXT.1.1", b"FIX.4.20", b"FIX.4.2 ",
              b"FIX.4.2\x00", b"FIX.4\x002", b"\x00IX.4.2", b"FIX.4.2\x00\x00", b"FIX.4.22222222222", b"1234567", b"123456789012345"):
        H.append(("bad-beginstring", b"8=" + v + SOH + b"9=12" + SOH + fill(12)))
    # first tag
    for t in (b"9", b"88", b"80", b"08", b"", b"x", b"7", b"888", b"18", b"8 "):
        H.append(("bad-first-tag", t + b"=" + BEGIN + SOH + b"9=5" + SOH + fill(5)))
    # second tag
    for t in (b"93", b"90", b"10", b"35", b"8", b"", b"x", b"99", b"09"):
        H.append(("bad-second-tag", b"8=" + BEGIN + SOH + t + b"=5" + SOH + fill(5)))
    # BodyLength values
    for v in (b"0", b"00", b"0000000000", b"", b"abc", b"1a", b"a1", b":", b":2", b"/", b"/5", b"-5", b"+5", b" 5", b"5 ", b"1.5",
              b"\x00", b"\x005", b"\xff5", b"\x80", b"\xd0", b"\xd01", b"4294967296", b"4294967295", b"4294967301", b"4294967308",
              b"8589934597", b"42949672960005", b"99999999999", b"12345678901", b"8172", b"8173", b"8174", b"8178", b"8179", b"8180",
              b"8192", b"9999", b"10000", b"99999999", b"2147483648", b"4294959124", b"=5", b"5=", b"1" + SOH + b"2"):
        H.append(("bad-bodylength", HDR + v + SOH + fill(rng.choice((5, 12, 20)))))
    # digit runs (tag buffer)
    for n in (12, 13, 14, 30, 31, 32, 33, 40, 60, 100):
        if thorough or n <= 32:
            H.append(("digit-run", d(n) + SOH + fill(5)))
            H.append(("digit-run", b"8=" + BEGIN + SOH + d(n) + SOH + fill(5)))
        if thorough or n < 32:
            H.append(("digit-run", d(n) + b"=" + BEGIN + SOH + fill(5)))
            H.append(("digit-run", b"8=" + BEGIN + SOH + b"9" + d(n - 1) + b"=5" + SOH + fill(5)))
            H.append(("digit-run", b"8" + d(n - 1) + SOH + fill(5)))
    # long values (val buffer)
    for n in (2040, 2046, 2047, 2048, 2049, 2100):
        if thorough or n <= 2048:
            H.append(("long-value", b"8=" + d(n, b"1") + SOH + fill(5)))
            H.append(("long-value", HDR + d(n - 2, b"0") + b"12" + SOH + b"ABCDEFGHIJKL" + b"10=000" + SOH))
        if thorough or n < 2048:
            H.append(("long-value", b"8=" + b"ABCDEFGHIJK" + d(n - 11, b"1") + SOH + fill(5)))
            H.append(("long-value", HDR + d(n, b"1") + SOH + fill(5)))
            H.append(("long-value", b"8=" + BEGIN + b"\x00" + d(n - 8, b"1") + SOH + fill(5)))
    # missing separators
    H.append(("missing-soh", b"8=" + BEGIN + b"9=12" + SOH + fill(12)))
    H.append(("missing-soh", HDR + b"12" + fill(12)))
    H.append(("missing-soh", b"8=" + BEGIN + SOH + b"9=12"))
    H.append(("missing-soh", b"8" + BEGIN + SOH + b"9=12" + SOH + fill(12)))
    H.append(("missing-soh", b"8=" + BEGIN + SOH + b"912" + SOH + fill(12)))
    H.append(("missing-soh", b"8=" + BEGIN + SOH + SOH + b"9=12" + SOH + fill(12)))
    H.append(("missing-soh", SOH + b"8=" + BEGIN + SOH + b"9=12" + SOH + fill(12)))
    # preambles reaching the size of msg_buf
    for head in (b"X", HDR, b"8=FIX.4.1" + SOH, b"8=" + BEGIN + SOH, b"=", b"8", b"8=" + BEGIN + SOH + b"9=" + SOH):
        overflows = head[:1] in (b"8", b"=") and head != b"8=FIX.4.1" + SOH
        for n in (MAXLEN - 1, MAXLEN, MAXLEN + 1, MAXLEN + 50):
            if thorough or not overflows or (head == HDR and n == MAXLEN):
                H.append(("max-preamble", head + d(n - len(head), b"3") + rng.choice((b"", SOH, b"Z"))))
    # NUL / odd bytes in the first 13
    for pre in (b"8=FIX\x00.4.2" + SOH + b"9=", b"\x00\x00\x00\x00\x00\x00\x00\x00\x00\x00\x00\x00\x00", b"8=" + BEGIN + SOH + b"\x00=",
                b"\xff" * 13, b"8=\x01\x01\x01\x01\x01\x01\x01\x01\x01\x01\x01"):
        H.append(("odd-first-bytes", pre + b"12" + SOH + fill(12)))
        H.append(("odd-first-bytes", pre + b"1a" + SOH + fill(12)))
    return H


def gen_cases(rng, tier):
    cs = []
    thorough = tier == "thorough"
    rep = 4 if thorough else 1

    # 1. valid streams, 1..5 frames, all chunking styles
    for _ in range(220 * rep):
        k = rng.randrange(1, 6)
        s = b"".join(rand_frame(rng) for _ in range(k))
        cs.append(mk(rng.randrange(2), rng.randrange(2), rand_chunks(rng, s), "valid-%d" % k))
    # 1b. body lengths at the digit-count boundaries and at the reader's maximum
    for n in (1, 9, 10, 99, 100, 999, 1000, 1001, 2047, 2048, 4096, LIMIT - 1, LIMIT):
        for _ in range(rep):
            s = rand_frame(rng, 3) + frame(rand_body(rng, n)) + rand_frame(rng, 4)
            cs.append(mk(rng.randrange(2), 0, rand_chunks(rng, s, rng.choice((0, 2, 3, 4, 6))), "valid-boundary-len"))
    # 1b'. just above the maximum, with the whole body present: must be refused, not handed on
    for n in (LIMIT + 1, LIMIT + 7, LIMIT + 8, MAXLEN):
        s = rand_frame(rng, 3) + frame(rand_body(rng, n)) + rand_frame(rng, 4)
        cs.append(mk(rng.randrange(2), 0, rand_chunks(rng, s, rng.choice((0, 2, 4))), "oversized-full"))
    # 1c. leading zeros up to the val capacity
    for z in (1, 28, 29, 30, 31, 32, 100, VALCAP - 4, VALCAP - 3):
        body = rand_body(rng, 12)
        s = frame(body, lenfield=b"0" * z + b"12") + rand_frame(rng, 3)
        cs.append(mk(1, 0, rand_chunks(rng, s, rng.choice((0, 2, 4))), "valid-leading-zeros"))
    # 2. every 2-split (and some 3-splits) of a short two-frame stream; 1-byte chunks
    for _ in range(2 * rep):
        s = rand_frame(rng, rng.randrange(1, 9)) + rand_frame(rng, rng.randrange(1, 12))
        for c in range(1, len(s)):
            cs.append(mk(rng.randrange(2), rng.randrange(2), split_at(s, [c]), "every-split"))
        for _ in range(25):
            cs.append(mk(rng.randrange(2), rng.randrange(2), split_at(s, [rng.randrange(1, len(s)) for _ in range(2)]), "three-split"))
        cs.append(mk(1, 0, rand_chunks(rng, s, 1), "one-byte-chunks"))
        cs.append(mk(0, 1, rand_chunks(rng, s, 1)[:48], "one-byte-chunks"))
    # 3. truncation at every offset
    for _ in range(rep):
        s = rand_frame(rng, rng.randrange(1, 9)) + rand_frame(rng, rng.randrange(1, 12))
        for c in range(0, len(s)):
            cs.append(mk(c % 3 != 0, rng.randrange(2), rand_chunks(rng, s[:c], rng.choice((0, 2, 3))), "truncated"))
    # 4. corrupted preambles after 0..2 valid frames
    for r in range(rep):
        # since d48d8ce the over-long fields are plain error cases (no crash): the full set also in the quick tier
        for cls, h in bad_heads(rng, True):
            if r > 0 and cls in ("digit-run", "long-value", "max-preamble"):
                continue
            k = rng.choice((0, 0, 1, 2))
            s = b"".join(rand_frame(rng, rng.randrange(1, 30)) for _ in range(k)) + h
            if rng.randrange(3) == 0:
                s += rand_frame(rng, 5)
            style = rng.choice((0, 2, 4, 6)) if len(s) > 300 else None
            cs.append(mk(rng.randrange(4) != 0, rng.randrange(2) if len(s) < 300 else 0, rand_chunks(rng, s, style), cls))
    # 5. wrong trailer position / BodyLength not matching the body (outside the property, the model must still agree)
    for _ in range(40 * rep):
        body = rand_body(rng)
        delta = rng.choice((-3, -1, 1, 2, 7, 8))
        n = max(1, len(body) + delta)
        s = rand_frame(rng, 4) + frame(body, lenfield=str(n).encode()) + rand_frame(rng, 6) + rand_frame(rng, 2)
        cs.append(mk(rng.randrange(2), rng.randrange(2), rand_chunks(rng, s), "mismatched-bodylength"))
    # 6. byte mutations of valid streams, aimed at the preambles
    for _ in range(220 * rep):
        fr = [rand_frame(rng, rng.randrange(1, 40)) for _ in range(rng.randrange(1, 4))]
        j = rng.randrange(len(fr))
        m = bytearray(fr[j])
        pos = rng.randrange(0, min(len(m), 17))
        op = rng.randrange(4)
        if op == 0:
            m[pos] = rng.choice((0, 1, 0x30, 0x31, 0x38, 0x39, 0x3d, 0x3a, 0x2f, 0xff, rng.randrange(256)))
        elif op == 1:
            del m[pos]
        elif op == 2:
            m.insert(pos, rng.choice((0, 1, 0x30, 0x38, 0x39, 0x3d, rng.randrange(256))))
        else:
            m[pos] ^= 1 << rng.randrange(8)
        fr[j] = bytes(m)
        s = b"".join(fr)
        cs.append(mk(rng.randrange(3) != 0, rng.randrange(2), rand_chunks(rng, s), "mutated"))
    # 7. digit-heavy garbage
    for _ in range(110 * rep):
        n = rng.choice((5, 13, 14, 20, 40, 80, 200))
        alpha = rng.choice((b"0123456789", b"0123456789=\x01", b"89=\x01FIX.42", b"\x00\x0118=9", bytes(range(256))))
        s = bytes(rng.choice(alpha) for _ in range(n))
        if rng.randrange(2):
            s = HDR[:rng.randrange(0, len(HDR) + 1)] + s
        cs.append(mk(rng.randrange(3) != 0, rng.randrange(2), rand_chunks(rng, s), "garbage"))
    return cs


# --------------------------------------------------------------------------------- verdict helpers
def postprocess(case, r):
    if r.startswith("CRASH") and "stack-buffer-overflow" in r:
        return "OOB"
    return r


def nontrivial(case, r):
    closed, mode, chunks = parse_case(case.line)
    if len([c for c in chunks if c]) < 2:
        return False
    if r == "OOB":
        return True
    if not r.startswith("D "):
        return False
    d, e = r[2:].split("|", 1)
    return d != "-" or e.split(" ")[0] in ("ILLEGAL", "BADVERSION", "BADLEN")


def reader_rest(stream):
    """Bytes at which the reader starts its first read that is not a plain valid frame (python rendering of the
    spec's frame rule, stopping also at a BodyLength field that does not fit val[])."""
    s = stream
    while s:
        if not s.startswith(HDR):
            return s
        m = re.match(rb"[0-9]*", s[len(HDR):])
        ds = m.group(0)
        p = len(HDR) + len(ds)
        if not ds or len(ds) >= VALCAP or s[p:p + 1] != SOH:
            return s
        n = int(ds[-12:]) if len(ds.lstrip(b"0")) <= 12 else LIMIT + 1
        if n == 0 or n > LIMIT or len(s) < p + 1 + n + 7:
            return s
        t = s[p + 1 + n:p + 1 + n + 7]
        if not re.fullmatch(rb"10=[0-9]{3}\x01", t):
            return s
        s = s[p + 1 + n + 7:]
    return s


def _rest(case):
    closed, mode, chunks = parse_case(case.line)
    return reader_rest(b"".join(chunks))


TAG_RUN = re.compile(rb"(?s)\A(?:[0-9]{0,%d}=[^\x01]{0,%d}\x01)?[0-9]{%d,}" % (TAGCAP - 1, VALCAP - 1, TAGCAP))
VAL_RUN = re.compile(rb"(?s)\A(?:[0-9]{0,%d}=[^\x01]{0,%d}\x01)?[0-9]{0,%d}=[^\x01]{%d,}" % (TAGCAP - 1, VALCAP - 1, TAGCAP - 1, VALCAP))


def c_tag_overflow(case, r, m):
    # negation of "no run of >= 32 digits where extract_element reads a tag"
    return r == "OOB" and TAG_RUN.match(_rest(case)) is not None


def c_val_overflow(case, r, m):
    # negation of "the values of the first two fields are shorter than val[2048]"
    return r == "OOB" and VAL_RUN.match(_rest(case)) is not None


def c_bodylength_wrap(case, r, m):
    # negation of "the BodyLength digits denote a number below 2^32"
    mm = re.match(rb"([0-9]+)\x01", _rest(case)[len(HDR):]) if _rest(case).startswith(HDR) else None
    if mm is None:
        return False
    ds = mm.group(1).lstrip(b"0")
    return len(ds) > 10 or (len(ds) == 10 and ds >= b"4294967296")


def c_bodylength_first_char(case, r, m):
    # negation of "the first character of the BodyLength value is a digit" (position 13 of the preamble is never inspected)
    rest = _rest(case)
    return rest.startswith(HDR) and re.match(rb"(?s)[^0-9\x01][0-9]*\x01", rest[len(HDR):]) is not None


def c_tag_first_char(case, r, m):
    # negation of "the tags of the first two fields are exactly 8 and 9" (only their first character is tested)
    rest = _rest(case)
    return (re.match(rb"8[0-9]+=" + re.escape(BEGIN) + rb"\x019[0-9]*=", rest) is not None or
            re.match(rb"8=" + re.escape(BEGIN) + rb"\x019[0-9]+=", rest) is not None)


def c_beginstring_nul(case, r, m):
    # negation of "the BeginString value contains no NUL byte" (it is compared as a C string)
    return _rest(case).startswith(b"8=" + BEGIN + b"\x00")


CLASSIFIERS = {"tag-overflow": c_tag_overflow, "val-overflow": c_val_overflow, "bodylength-wrap": c_bodylength_wrap,
               "bodylength-first-char": c_bodylength_first_char, "tag-first-char": c_tag_first_char,
               "beginstring-nul": c_beginstring_nul}


def extra_search(rng, seeds, tier):
    out = []
    for c in seeds[:20]:
        closed, mode, chunks = parse_case(c.line)
        s = b"".join(chunks)
        for _ in range(4):
            out.append(mk(closed, 0, rand_chunks(rng, s), "neighbour"))
        # the same stream completed by plenty of bytes and a close: a reader that wrongly accepted a preamble now has
        # to hand something on
        for pad in (20, 300, MAXLEN + 40):
            out.append(mk(True, 0, [s + bytes(rng.choice(b"AB=1\x01") for _ in range(pad)) + b"10=000" + SOH], "neighbour-padded"))
    out += gen_cases(rng, "quick")[:400]
    return out


def shrink(case):
    closed, mode, chunks = parse_case(case.line)
    s = b"".join(chunks)
    out = [mk(closed, 0, [s], "shrink")]
    if len(s) > 1:
        out.append(mk(closed, 0, [s[:-1]], "shrink"))
        out.append(mk(closed, 0, [s[:len(s) // 2]], "shrink"))
    return out
