"""C31 — timer events fire no earlier than scheduled and in due order."""
from vlib import build as B
from vlib.core import Case

ID = "C31"
LEVEL = "proof"
TECHNIQUE = ("Coq proof (invariant relating the modelled event queue to a history monitor, induction over arbitrary operation "
             "sequences, tie-breaking as an oracle) about a hand-written Gallina model of Timer<T>; model tied to the code by "
             "running the real timer thread on a virtual clock against the extracted model")
LEVEL_TEXT = ("Theorems c31_not_early / c31_due_order / c31_repeat / c31_clear (+ c31_prompt): for every sequence of schedule, "
              "clear and loop-pass operations with any clock values after the epoch, any tie-breaking among equal due times and "
              "any callback results, the observable history of the modelled timer satisfies each clause of the property. "
              "The model is tied to include/fix8/timer.hpp by scripted runs of the real Timer<T> thread on an interposed clock.")
LEVEL_NOTE = ("Trusted: Coq kernel, extraction, the hand transcription of timer.hpp (checked by the correspondence run), that "
              "_spin_lock serialises schedule/clear/loop body (mutual exclusion of pthread_spin_lock is not proved), that the "
              "clock read by Tickval is the interposed clock_gettime(CLOCK_REALTIME). Real-time behaviour (how long the thread "
              "really sleeps) is outside the model: the theorems speak about clock values read by the code.")
DESIGN_REF = "DESIGN.md section 4, C31"
PROPS_FILE = "Props/Properties_C31.v"
COQ_TARGETS = ["Props/Properties_C31.vo", "Extract/Extract_C31.vo"]
TRUSTED_BASE = ["Coq 8.16.1 kernel (coqc), vm_compute only for the closed sanity theorems",
                "Extraction with ExtrOcamlBasic, no Extract Constant; OCaml 4.13.1",
                "hand-written model coq/C31/Timer.v of include/fix8/timer.hpp (schedule, clear, one pass of operator()), tied by differential execution",
                "ocaml/prelude.ml + ocaml/c31_driver.ml (token parsing, history reconstruction), harness/h_c31.cpp (virtual clock by "
                "interposing clock_gettime, quiescence = two further sleeps begun by the timer thread), vlib",
                "pthread_spin_lock gives mutual exclusion; std::chrono::high_resolution_clock reads clock_gettime(CLOCK_REALTIME)"]
ASSUMPTIONS = ["schedule(), clear() and one pass of the loop body (including the callback) are atomic with respect to each other (they hold _spin_lock; "
               "exercised by the W operation: a clear() issued during a callback does not return before the callback has and removes the re-queued event; "
               "c31_clear_unlocked_refuted shows the clear clause fails for a loop that releases the lock around the callback)",
               "callbacks do not call schedule()/clear() on their own timer (they would deadlock on the non-recursive spin lock)",
               "delays fit an unsigned and the clock is not before the epoch (no 64-bit overflow of now + ms*10^6)"]
RULE = ("scripts of 6..45 operations: schedule calls (delays 1..200 ms plus the boundary values 0 and 2^32-1; repeat flags; scripted "
        "callback results), clock advances (whole and fractional milliseconds, exactly to / 1 ns before / 1 ns after a due time, "
        "large jumps that make several events late at once, zero), clear at arbitrary moments, and clear() from a SECOND "
        "thread while the callback of a repeating event is kept from returning (W: the call must block on the spin lock until "
        "the callback has returned and the event is re-queued, and must then remove it); classes aimed at ties, repeats that "
        "stop on false, clears, boundaries, lateness, clear-during-callback, and wake-ups in which several events are due and the "
        "callbacks of the earlier ones take several ms of (virtual) clock time while a later one repeats (the loop reads the clock "
        "per pass, so that event is re-armed from the time of its own run). After each action the real thread is run to quiescence. "
        "non-trivial = at least two callback runs observed; distinct = distinct case lines")

MS = 1000000


def build(tier):
    return {"impl": [B.harness("h_c31", runtime=["logger.cpp", "f8utils.cpp", "gzstream.cpp", "modp_numtoa.c"],
                               extra_link=["-rdynamic"])],
            "per_case_timeout": 60}


def rand_t0(rng):
    return rng.choice([0, 1, 5, 999999, 1000000000, 1700000000000000000, 1700000000123456789,
                       rng.randrange(0, 4 * 10**18)])


class Script:
    def __init__(self, rng, t0):
        self.rng = rng
        self.t0 = t0
        self.now = t0
        self.ops = []
        self.res = []
        self.durs = []        # clock time (ns) each callback's run takes
        self.dues = []        # (approximate) pending due times, to aim advances at them

    def sched(self, rep, ms, results="", dur=0):
        if len(self.res) >= 64:
            return
        self.ops.append("S%d:%d" % (1 if rep else 0, ms))
        self.res.append(results)
        self.durs.append(dur)
        if ms:
            self.dues.append(self.now + ms * MS)
            if rep:
                for k in range(1, len(results) + 2):
                    self.dues.append(self.now + (k + 1) * ms * MS)

    def adv(self, d):
        self.ops.append("A%d" % d)
        self.now += d

    def clear(self):
        self.ops.append("C")
        self.dues = []

    def park(self, k, d):
        """advance by d with callback k parked when it runs; a second thread calls clear() meanwhile"""
        self.ops.append("W%d:%d" % (k, d))
        self.now += d
        self.dues = []

    def adv_to_due(self, delta=0):
        fut = sorted(d for d in self.dues if d + delta > self.now)
        if fut:
            d = self.rng.choice(fut[:3])
            self.adv(d + delta - self.now)
        else:
            self.adv(self.rng.randrange(0, 5 * MS))

    def line(self):
        rs = ",".join(r or "-" for r in self.res) or "-"
        line = "%d %s %s" % (self.t0, rs, ",".join(self.ops))
        if any(self.durs):
            line += " " + ",".join(str(d) for d in self.durs)
        return line


def results(rng):
    n = rng.randrange(0, 5)
    mode = rng.randrange(4)
    if mode == 0:
        return "T" * n
    if mode == 1:
        return "".join(rng.choice("TF") for _ in range(n))
    if mode == 2:
        return "T" * n + "F" + "T" * rng.randrange(0, 3)     # a true after the first false must not matter
    return ""


def rand_ms(rng):
    m = rng.randrange(10)
    if m < 5:
        return rng.randrange(1, 21)
    if m < 8:
        return rng.randrange(1, 201)
    return rng.choice([1, 2, 199, 200])


def rand_adv(rng):
    m = rng.randrange(8)
    if m == 0:
        return 0
    if m == 1:
        return rng.randrange(1, 1000)                  # sub-microsecond
    if m == 2:
        return rng.randrange(1, 30) * MS
    if m == 3:
        return rng.randrange(1, 30 * MS)
    if m == 4:
        return rng.randrange(50, 250) * MS             # big jump: several events late
    return rng.randrange(1, 8) * MS


def gen_one(rng, cls):
    s = Script(rng, rand_t0(rng))
    n = rng.randrange(6, 46)
    if cls == "ties":
        ms = rand_ms(rng)
        for _ in range(rng.randrange(2, 7)):
            s.sched(rng.random() < 0.4, ms, results(rng))
        for _ in range(rng.randrange(0, 3)):
            s.sched(rng.random() < 0.3, rand_ms(rng), results(rng))
        for _ in range(n // 2):
            r = rng.random()
            if r < 0.5:
                s.adv_to_due(rng.choice([0, 0, -1, 1]))
            elif r < 0.8:
                s.adv(rand_adv(rng))
            else:
                s.sched(rng.random() < 0.4, ms, results(rng))
    elif cls == "repeat":
        for _ in range(rng.randrange(1, 4)):
            s.sched(True, rng.randrange(1, 12), results(rng))
        for _ in range(n):
            r = rng.random()
            if r < 0.45:
                s.adv_to_due(rng.choice([0, -1, 1, 0, 500000]))
            elif r < 0.85:
                s.adv(rand_adv(rng) % (12 * MS))
            elif r < 0.95:
                s.sched(rng.random() < 0.7, rng.randrange(1, 12), results(rng))
            else:
                s.clear()
    elif cls == "clear":
        for _ in range(n):
            r = rng.random()
            if r < 0.4:
                s.sched(rng.random() < 0.4, rand_ms(rng), results(rng))
            elif r < 0.6:
                s.clear()
            elif r < 0.8:
                s.adv_to_due(rng.choice([0, -1, 1]))
            else:
                s.adv(rand_adv(rng))
    elif cls == "boundary":
        for _ in range(n):
            r = rng.random()
            if r < 0.35:
                s.sched(rng.random() < 0.3, rand_ms(rng), results(rng))
            else:
                s.adv_to_due(rng.choice([0, -1, 1, -1, 0]))
    elif cls == "late":
        for _ in range(rng.randrange(3, 12)):
            s.sched(rng.random() < 0.5, rand_ms(rng), results(rng))
            if rng.random() < 0.3:
                s.adv(rand_adv(rng) % (3 * MS))
        for _ in range(rng.randrange(2, 8)):
            s.adv(rng.randrange(20, 300) * MS + rng.randrange(0, MS))
            if rng.random() < 0.3:
                s.sched(rng.random() < 0.5, rand_ms(rng), results(rng))
    elif cls == "slow":
        # several events due in ONE wake-up; the callbacks of the earlier ones take several ms of clock time (more than the
        # poll granularity), a later one repeats: it must be re-armed from the clock value of its own run
        ms = rng.randrange(2, 30)
        nslow = rng.randrange(1, 4)
        for _ in range(nslow):
            s.sched(rng.random() < 0.2, rng.choice([ms, ms, max(1, ms - 1)]), rng.choice(["", "T", "F"]),
                    rng.choice([2, 3, 5, 8, 13]) * MS + rng.choice([0, 0, 1, 250000]))
        for _ in range(rng.randrange(1, 4)):
            s.sched(True, rng.choice([ms, ms, ms + 1]) if rng.random() < 0.8 else rand_ms(rng), rng.choice(["TTTT", "TT", "TTF", "T"]),
                    rng.choice([0, 0, 0, 1 * MS, 4 * MS]))
        if rng.random() < 0.3:
            s.sched(False, ms, "", 0)
        s.adv((ms + rng.choice([0, 0, 1, 2])) * MS)          # all of them fall due in this wake-up
        for _ in range(rng.randrange(3, 9)):
            r = rng.random()
            if r < 0.5:
                s.adv(rng.choice([1, 2, 3, 5]) * MS)          # small steps: is the re-armed event back too early?
            elif r < 0.8:
                s.adv(ms * MS - rng.choice([0, 1, 1 * MS, 2 * MS]))
            elif r < 0.9:
                s.adv(rand_adv(rng))
            else:
                s.sched(rng.random() < 0.5, rand_ms(rng), results(rng), rng.choice([0, 3 * MS]))
    elif cls == "park":
        # a repeating event whose callback is kept from returning while another thread calls clear()
        for _ in range(rng.randrange(0, 3)):
            s.sched(rng.random() < 0.3, rand_ms(rng), results(rng))
        k = len(s.res)
        ms = rng.randrange(1, 12)
        s.sched(True, ms, rng.choice(["TTTTTT", "TTTTTT", "TTFT", "FTT", "T"]))
        for _ in range(rng.randrange(0, 3)):
            s.sched(rng.random() < 0.4, rng.choice([ms, ms, rand_ms(rng)]), results(rng))
        if rng.random() < 0.3:
            s.adv(rng.randrange(0, ms * MS))
        m = rng.randrange(10)
        if m < 7:
            d = s.t0 + ms * MS - s.now + rng.choice([0, 0, 1, 500000])       # callback k due (for the first time)
        elif m < 9:
            d = s.t0 + 2 * ms * MS - s.now + rng.choice([0, 1])              # k has run once already, parked at its second run
            s.adv(s.t0 + ms * MS - s.now)
            d = s.t0 + 2 * ms * MS - s.now
        else:
            d = max(0, s.t0 + ms * MS - s.now - 1)                           # not yet due: plain clear from the second thread
        s.park(k, max(0, d))
        for _ in range(rng.randrange(2, 6)):
            r = rng.random()
            if r < 0.7:
                s.adv(ms * MS + rng.choice([0, 1, 250000]))                  # would the cleared event run again?
            elif r < 0.85:
                s.sched(rng.random() < 0.5, rand_ms(rng), results(rng))
            else:
                s.adv(rand_adv(rng))
    elif cls == "odd":
        # outside the property's range (0 ms, huge delays), clear on an empty queue, zero advances
        for _ in range(n):
            r = rng.random()
            if r < 0.2:
                s.sched(rng.random() < 0.5, 0, results(rng))
            elif r < 0.3:
                s.sched(rng.random() < 0.5, rng.choice([4294967295, 4294967, 100000]), results(rng))
            elif r < 0.5:
                s.sched(rng.random() < 0.5, rand_ms(rng), results(rng))
            elif r < 0.65:
                s.clear()
            elif r < 0.8:
                s.adv(0)
            else:
                s.adv(rand_adv(rng))
    else:
        for _ in range(n):
            r = rng.random()
            if r < 0.35:
                s.sched(rng.random() < 0.4, rand_ms(rng), results(rng))
            elif r < 0.42:
                s.clear()
            elif r < 0.7:
                s.adv_to_due(rng.choice([0, -1, 1, 123456]))
            else:
                s.adv(rand_adv(rng))
    return Case(s.line(), cls)


CLASSES = ["ties", "repeat", "clear", "boundary", "late", "odd", "slow", "park", "random", "slow"]


def gen_cases(rng, tier):
    n = 3000 if tier == "thorough" else 300
    cs = [Case("1000000000 T,-,- S1:5,S0:5,S0:3,A5000000,A5000000,S0:2,C,A10000000", "fixed"),
          Case("0 TTF S1:1,A999999,A1,A1000000,A5000000,A1000000", "fixed"),
          Case("5 - S0:0,A1000000,S0:1,A1000000", "fixed"),
          Case("0 -,TTT S0:10,S1:10,A10000000,A5000000,A4999999,A1 5000000,0", "slow"),
          Case("1000000000 T,- S1:5,S0:5,A5000000,A5000000 0,3000000", "slow"),
          Case("1000000000 TTTT,- S1:5,S0:7,W0:5000000,A5000000,A5000000", "park"),
          Case("1000000000 TTTT,- S1:5,S0:7,W1:5000000,A5000000", "park"),
          Case("5 TT,T,- S1:3,S0:3,S0:3,W0:3000000,S0:2,A5000000", "park")]
    for i in range(n):
        cs.append(gen_one(rng, CLASSES[i % len(CLASSES)]))
    return cs


def nontrivial(case, r):
    return sum(1 for t in r.split() if t.startswith("f")) >= 2


CLASSIFIERS = {}


def extra_search(rng, seeds, tier):
    return [gen_one(rng, CLASSES[i % len(CLASSES)]) for i in range(300)]


def shrink(case):
    parts = case.line.split()
    t0, rs, ops = parts[:3]
    tail = (" " + parts[3]) if len(parts) > 3 else ""
    ops = ops.split(",")
    out = []
    if len(ops) > 1:
        # drop trailing operations, then single non-schedule operations (schedule calls carry the callback numbering)
        out.append(Case("%s %s %s%s" % (t0, rs, ",".join(ops[:-1]), tail), "shrink"))
        for i, o in enumerate(ops):
            if not o.startswith("S"):
                out.append(Case("%s %s %s%s" % (t0, rs, ",".join(ops[:i] + ops[i + 1:]), tail), "shrink"))
    return out


def extra_evidence(ctx):
    """The harness works under /tmp/C31-<pid>/ and removes it on exit; a harness process that was killed (sanitizer abort of
    a mutant, time-out) cannot, so directories of dead processes are removed here."""
    import glob
    import os
    import shutil
    for d in glob.glob("/tmp/C31-[0-9]*"):
        pid = d.rsplit("-", 1)[1]
        if pid.isdigit() and not os.path.exists("/proc/" + pid):
            shutil.rmtree(d, ignore_errors=True)
    return {}
