"""C29 — log and store rotation keeps generations and stays in bounds."""
import os
import shutil

from vlib import build as B
from vlib.core import Case

ID = "C29"
LEVEL = "proof"
TECHNIQUE = ("Coq proof (induction on the shifting loop over an arbitrary directory; injectivity of the generation "
             "names) about a hand-written Gallina model of FileLogger::rotate and the purge branch of "
             "FilePersister::initialise with instrumented vector bounds; model tied to the code by differential "
             "execution (extracted OCaml vs the real classes on a private directory, libstdc++ assertions + ASan)")
LEVEL_TEXT = ("Theorems c29_bounds/c29_shift/c29_cap/c29_untouched/c29_append (+ store versions): for every directory, "
              "file name and rotation count (no bound) the modelled rotation (logger and store) never indexes outside "
              "its name vector, shifts generation k-1 into k for 1 <= k <= min(count,1024), leaves the live file fresh, "
              "creates no generation beyond the kept number, leaves every other name alone and does nothing to an "
              "append-mode log unless forced; c29_model_ok: the executable oracle holds on every run of the model. "
              "c29_sweep_*: counts 0..1100 swept by evaluation, none out of bounds; c29_oob_orig_refuted: the routines "
              "before the repair a64fc7d indexed past the vector for every count above 1024.  The model is tied to "
              "FileLogger and FilePersister by running both on the same pre-populated directories.")
LEVEL_NOTE = ("Trusted: Coq kernel, extraction (ExtrOcamlBasic), the hand transcription of rotate/initialise (checked by "
              "the correspondence run), POSIX rename/open semantics as modelled (one directory, regular files, no "
              "concurrent writer), -D_GLIBCXX_ASSERTIONS turning an out-of-range vector index into an abort, "
              "HAVE_COMPRESSION undefined in this build (as in the pinned tree's configuration).")
DESIGN_REF = "DESIGN.md section 4, C29; finding F34"
PROPS_FILE = "Props/Properties_C29.v"
COQ_TARGETS = ["Props/Properties_C29.vo", "Extract/Extract_C29.vo"]
TRUSTED_BASE = ["Coq 8.16.1 kernel (coqc), vm_compute only",
                "Extraction with ExtrOcamlBasic, no Extract Constant; OCaml 4.13.1",
                "hand-written model coq/C29/Rotate.v of runtime/logger.cpp:FileLogger::rotate and "
                "runtime/filepersist.cpp:FilePersister::initialise, tied by differential execution",
                "ocaml/prelude.ml + ocaml/c29_driver.ml (case parsing, listing rendering), harness/h_c29.cpp, vlib",
                "g++ 12 -fsanitize=address,undefined -D_GLIBCXX_ASSERTIONS: vector::operator[] out of range aborts",
                "Linux rename(2)/open(2) on tmpfs/ext4 behave as the model's rename/open_trunc/open_app"]
ASSUMPTIONS = ["rename(2) replaces the target atomically and fails without effect when the source is missing; nobody else "
               "writes to the directory during a rotation; all names are regular files in one directory",
               "an out-of-range std::vector::operator[] is observable only through -D_GLIBCXX_ASSERTIONS (the access lands "
               "in the vector's spare capacity, ASan stays silent): the harness' runtime objects are built with it",
               "the logger's background thread is idle (nothing is enqueued) and is joined before the final listing"]
RULE = ("directories pre-populated with every subset of {name, name.1 .. name.4} (distinct markers, plus unrelated and "
        "look-alike names) for counts 0..6 and every flag combination (append, compress), once with the constructor "
        "alone (append: constructor + forced rotation) and once followed by a random sequence of rotate(false)/"
        "rotate(true)/stream writes; the store likewise with every subset of {db, db.1, db.2, db.idx, db.1.idx, db.2.idx} "
        "(+ db.3 files at random) for counts 0..4, purge and no purge, and random op sequences; then counts "
        "{1023,1024,1025,1100} and a few beyond with sparse sets around the cap. non-trivial = a rotation actually "
        "takes place (count >= 1, not append-only) on a directory holding at least one generation; distinct = "
        "distinct case lines")

CAP = 1024
BASES_L = ("log", "a.1", "x.gz", "my_log.txt")
BASES_P = ("db", "s.1", "st.idx")


# a small ASan quarantine: every case opens a dozen streams (8 KB buffers each); with the default
# 256 MB quarantine each of them lands on fresh pages and the page faults dominate the run (10x)
ASAN = ("detect_leaks=0:abort_on_error=0:halt_on_error=1:allocator_may_return_null=1:"
        "detect_stack_use_after_return=0:quarantine_size_mb=4")


def build(tier):
    return {"impl": [B.harness("h_c29", variant="asan_assert", runtime=None)], "per_case_timeout": 60,
            "env": {"ASAN_OPTIONS": ASAN}}


def run_impl(built, cases, tier):
    from vlib import core
    try:
        return core.run_lines(built["impl"], [c.line for c in cases], env=built.get("env"),
                              per_case_timeout=built.get("per_case_timeout", 60), timeout_per_batch=900)
    finally:
        # a harness killed by a timeout cannot remove its directory: sweep those of dead processes
        for e in os.listdir("/tmp"):
            if e.startswith("C29-") and e[4:].isdigit() and not os.path.exists("/proc/" + e[4:]):
                shutil.rmtree(os.path.join("/tmp", e), ignore_errors=True)


def postprocess(case, r):
    # libstdc++'s assertion in vector::operator[] (abort) = the model's OOB
    if r.startswith("CRASH") and "__n < this->size()" in r:
        return "OOB"
    return r


# ------------------------------------------------------------------------------- generators

def gen_name(kind, base, comp, k, idx=False):
    if kind == "L":
        return base if k == 0 else "%s.%d%s" % (base, k, ".gz" if comp else "")
    s = base if k == 0 else "%s.%d" % (base, k)
    return s + (".idx" if idx else "")


def others(rng, kind, base, comp, count):
    """names that look like generations but are not (for this configuration), and unrelated ones"""
    pool = ["other", base + "x", base[:-1] or "q", base + ".", base + ".x", base + ".0", base + ".01",
            base + ".1.1", base + ".10", base + ".1x", "z" + base + ".1"]
    if kind == "L":
        pool += [base + ".idx", base + ".gz", base + ".1" + ("" if comp else ".gz"), base + ".2" + ("" if comp else ".gz")]
    else:
        pool += [base + ".gz", base + ".1.gz", base + ".idx.1", base + ".1.idx.idx", base + ".idxx"]
    n = min(count, CAP)
    pool += [gen_name(kind, base, comp, n + 1), gen_name(kind, base, comp, n + 2)]
    if kind == "P":
        pool += [gen_name(kind, base, comp, n + 1, True)]
    k = rng.choice((0, 1, 1, 2, 3))
    return rng.sample(pool, k)


def mk(kind, base, count, flags, ops, files, cls):
    seen, ents = set(), []
    for i, n in enumerate(files):
        if n in seen:
            continue
        seen.add(n)
        ents.append("%s=%s%d" % (n, "GHIJKLMN"[i % 8], i))
    return Case("%s %s %d %s %s %s" % (kind, base, count, flags or "-", ops, ",".join(ents) or "-"), cls)


def rand_ops(rng, kind, lo=1, hi=5):
    n = rng.randrange(lo, hi + 1)
    if kind == "L":
        return "c" + "".join(rng.choice("nffwwv") for _ in range(n))
    return "".join(rng.choice("PPPpwv") for _ in range(n + 1))


def gen_cases(rng, tier):
    thorough = tier == "thorough"
    cs = []
    # --- logger: every subset of {name, name.1..name.4}, counts 0..6, all flag combinations
    for count in range(0, 7):
        for flags in ("", "a", "c", "ac"):
            comp = "c" in flags
            for mask in range(32):
                base = BASES_L[(mask + count) % len(BASES_L)] if (mask % 5 == 4) else "log"
                gens = [gen_name("L", base, comp, k) for k in range(5) if mask >> k & 1]
                cs.append(mk("L", base, count, flags, "cf" if "a" in flags else "c",
                             gens + others(rng, "L", base, comp, count), "log-subsets"))
                if thorough or mask % 2 == count % 2:
                    cs.append(mk("L", base, count, flags, rand_ops(rng, "L"),
                                 gens + others(rng, "L", base, comp, count), "log-sequence"))
    # --- store: every subset of {db, db.1, db.2} x {db.idx, db.1.idx, db.2.idx}, counts 0..4
    for count in range(0, 5):
        for mask in range(64):
            base = BASES_P[mask % len(BASES_P)] if (mask % 7 == 6) else "db"
            gens = [gen_name("P", base, False, k) for k in range(3) if mask >> k & 1]
            gens += [gen_name("P", base, False, k, True) for k in range(3) if mask >> (3 + k) & 1]
            if rng.randrange(3) == 0:
                gens += [gen_name("P", base, False, 3), gen_name("P", base, False, 3, True)][:rng.randrange(1, 3)]
            cs.append(mk("P", base, count, "", "P", gens + others(rng, "P", base, False, count), "store-subsets"))
            if thorough or mask % 3 == count % 3:
                cs.append(mk("P", base, count, "", rand_ops(rng, "P"),
                             gens + others(rng, "P", base, False, count), "store-sequence"))
            if mask % 8 == count:
                cs.append(mk("P", base, count, "", "p", gens, "store-nopurge"))
    for count in (5, 6):
        for _ in range(40 if thorough else 12):
            gens = [gen_name("P", "db", False, k, i) for k in range(8) for i in (False, True) if rng.randrange(2)]
            cs.append(mk("P", "db", count, "", rng.choice(("P", "P", rand_ops(rng, "P"))), gens, "store-subsets"))
    # --- around the cap: sparse sets
    def sparse(kind, base, comp):
        ks = [0, 1, 2, 3, 500, 1022, 1023, 1024, 1025, 1026, 1100, 1101]
        pick = [k for k in ks if rng.randrange(2)]
        out = [gen_name(kind, base, comp, k) for k in pick]
        if kind == "P":
            out += [gen_name(kind, base, comp, k, True) for k in ks if rng.randrange(3) == 0]
        return out
    big_ok = (1000, 1023, 1024)
    big_bad = (1025, 1100)
    for count in big_ok:
        for _ in range(6 if thorough else 3):
            flags = rng.choice(("", "", "c", "a", "ac"))
            cs.append(mk("L", "log", count, flags, rng.choice(("cf", "cfwf", rand_ops(rng, "L", 1, 3))),
                         sparse("L", "log", "c" in flags), "cap-in-range"))
            cs.append(mk("P", "db", count, "", rng.choice(("P", "PwP", rand_ops(rng, "P", 1, 2))),
                         sparse("P", "db", False), "cap-in-range"))
    for count in big_bad + ((1026, 2047, 2048, 2049, 65536, 4294967295) if thorough else (2048, 4294967295)):
        reps = 3 if count in big_bad else 1
        for _ in range(reps):
            flags = rng.choice(("", "c"))
            cs.append(mk("L", "log", count, flags, rng.choice(("c", "cw")), sparse("L", "log", "c" in flags), "cap-exceeded"))
            cs.append(mk("P", "db", count, "", rng.choice(("P", "wP")), sparse("P", "db", False), "cap-exceeded"))
        # above the cap but no rotation takes place: must be harmless
        cs.append(mk("L", "log", count, "a", "cwnv", sparse("L", "log", False), "cap-exceeded-unrotated"))
        cs.append(mk("P", "db", count, "", "pwp", sparse("P", "db", False), "cap-exceeded-unrotated"))
        # ... until it is forced
        cs.append(mk("L", "log", count, "a", "cwf", sparse("L", "log", False), "cap-exceeded"))
    if thorough:
        # the property's whole range of counts, one sparse directory each
        for count in range(0, 1101):
            flags = rng.choice(("", "", "c"))
            cs.append(mk("L", "log", count, flags, "c", sparse("L", "log", "c" in flags), "sweep-log"))
            if count % 3 == 0 or count > 1000:
                cs.append(mk("P", "db", count, "", "P", sparse("P", "db", False), "sweep-store"))
    # --- malformed / degenerate: empty directory, name that is itself a generation of another file
    cs.append(mk("L", "log", 3, "", "cfff", [], "degenerate"))
    cs.append(mk("P", "db", 3, "", "PPP", [], "degenerate"))
    cs.append(mk("L", "log.1", 2, "", "cf", ["log", "log.1", "log.1.1", "log.2", "log.1.2"], "degenerate"))
    cs.append(mk("P", "db.idx", 2, "", "PP", ["db", "db.idx", "db.idx.idx", "db.idx.1", "db.1.idx"], "degenerate"))
    return cs


# ------------------------------------------------------------------------------- analysis

def parse(case):
    kind, base, count, flags, ops, files = case.line.split(" ")
    return kind, base, int(count), flags, ops, ([] if files == "-" else files.split(","))


def nontrivial(case, r):
    kind, base, count, flags, ops, files = parse(case)
    if count < 1 or not files:
        return False
    if kind == "L":
        return "a" not in flags or "f" in ops
    return "P" in ops


def c_count_above_cap(case, r, m):
    # the counts on which the routines before the repair a64fc7d went out of bounds (c29_oob_orig_refuted)
    return parse(case)[2] > CAP


CLASSIFIERS = {"rotation count > cap": c_count_above_cap}


def extra_search(rng, seeds, tier):
    out = [c for c in gen_cases(rng, "thorough") if not c.cls.startswith("sweep")][:5000]
    return out


def shrink(case):
    kind, base, count, flags, ops, files = parse(case)

    def again(count=count, flags=flags, ops=ops, files=files):
        return Case("%s %s %d %s %s %s" % (kind, base, count, flags, ops, ",".join(files) or "-"), "shrink")
    out = []
    for i in range(len(files)):
        out.append(again(files=files[:i] + files[i + 1:]))
    if len(ops) > 1:
        out.append(again(ops=ops[:-1]))
        for i in range(1, len(ops)):
            out.append(again(ops=ops[:i] + ops[i + 1:]))
    if flags != "-":
        out.append(again(flags="-"))
    if count > 0:
        out.append(again(count=count - 1))
    return out
