"""C14 — distinct repeating-group definitions never share metadata."""
import os
import random

from vlib import build as B
from vlib.core import Case
from vlib.suites import c13_lib as L

ID = "C14"
LEVEL = "proof"
TECHNIQUE = ("Coq proof about a hand-written Gallina model of f8c's group sharing (rothash on 32-bit words, group_hash over "
             "the expanded schema tree, the CommonGroupMap insert-if-absent and its lookup during generation): algebraic "
             "characterisation of the hash, refutation witnesses, and conditional soundness under the decidable injectivity "
             "premise; model tied to the real f8c by compiling generated schemas with the freshly built f8c + g++ and reading "
             "the group traits back from the running generated code, plus round trips of probe messages")
LEVEL_TEXT = ("c14_sound_if_injective: for every expanded schema whose group definitions are told apart by (count field, "
              "group_hash) the modelled generator gives every group of every message the trait tree of the message's own "
              "definition; c14_collision_refuted / c14_order_flags_refuted: the pinned f8c violates the property (hash ignores "
              "order, required flags and collides: {1,24676} vs {2,7}); c14_rothash_linear + c14_pair_collision_iff explain "
              "all two-member collisions.  Tie: the model predicts the trait trees and probe outcomes of the real generated code "
              "exactly on every generated schema, including the defective ones.")
LEVEL_NOTE = ("Trusted: Coq kernel, extraction, the hand transcription of parse_groups/group_hash/find_group/generate_group_bodies "
              "(checked by the tie), the abstract codec semantics Probe.v used to predict probe outcomes from trait trees "
              "(checked by the tie), the XML reader/writer and generators in vlib/suites/c13_lib.py, harness/h_c13.cpp.")
DESIGN_REF = "DESIGN.md section 4, C14; finding F18"
PROPS_FILE = "Props/Properties_C14.v"
COQ_TARGETS = ["Props/Properties_C14.vo", "Extract/Extract_C14.vo"]
TRUSTED_BASE = ["Coq 8.16.1 kernel (coqc), vm_compute only",
                "Extraction with ExtrOcamlBasic, no Extract Constant; OCaml 4.13.1",
                "hand-written models coq/C13/Schema.v (schema, component expansion, own trait trees) and coq/C14/GroupHash.v "
                "(rothash, group_hash, CommonGroupMap, generation) of compiler/f8c.cpp + f8precomp.cpp, tied by differential execution",
                "coq/C13/Probe.v: metadata-dependent behaviour of MessageBase::add_field/encode/decode/decode_group on a probe",
                "ocaml/prelude.ml + ocaml/c14_driver.ml (schema term parser, dump parser/printer), harness/h_c13.cpp, "
                "vlib/suites/c13_lib.py (XML reader/writer, generators, per-schema builds)",
                "g++ 12 -fsanitize=address,undefined for f8c itself (minus nonnull-attribute) and for the generated code"]
ASSUMPTIONS = ["the generated code is observed through the runtime's own structures (FieldTraits of objects made by the generated "
               "constructors / create_group / create_nested_group); the `present` bit is run-time state and is masked",
               "a message tree uses a field number at one level only (FIX rule); probes avoid values other properties already "
               "know to be mishandled (negative int text, TZ time types)",
               "f8c's memcpy(dst, nullptr, 0) in presorted_set's copy constructor is tolerated (nonnull-attribute check off for f8c)"]
RULE = ("schemas in which two messages reuse a count field with differing definitions: solved hash collisions (the pair {1,24676}/"
        "{2,7} and pairs solved afresh from d = L(a xor c) xor b), same members in another order, same members with other "
        "required flags, differing nested definitions, plus controls (identical definitions, hash-distinct definitions), "
        "random schemas with reused groups, a FIXT-mode pair (f8c -x) whose application redefines a transport component name, and the stock schemas; one case per message that has a group = its trait tree + "
        "8 probes (full, minimal, every group once, random subsets, mandatory field removed). non-trivial = the message has a "
        "group and at least 3 probes; distinct = distinct case lines")


def build(tier):
    L.f8c_asan()
    B.runtime_objs("asan")
    return {"impl": [], "harness": "h_c14"}


def schemas(rng, tier):
    out = [("gen", L.gen_c14(rng, True), "scenario")]
    n_extra = 6 if tier == "thorough" else 1
    for _ in range(n_extra):
        out.append(("gen", L.gen_c14(rng, False), "scenario"))
    for _ in range(6 if tier == "thorough" else 1):
        out.append(("gen", L.gen_random(rng), "random"))
    # FIXT mode (f8c -x): the application redefines a transport component name (HopGrp) with other members
    for _ in range(4 if tier == "thorough" else 1):
        out.append(("genx", L.gen_fixt(rng), "fixt"))
    stock = ["schema/FIX42UTEST.xml"] + (["schema/FIX44.xml", "schema/FIX43.xml"] if tier == "thorough" else [])
    for rel in stock:
        out.append(("repo:" + rel, L.read_xml(os.path.join(B.REPO, rel)), "stock"))
    return out


_premise = []


def gen_cases(rng, tier):
    cases = []
    del _premise[:]
    for src, s, cls in schemas(rng, tier):
        cs = L.make_cases(s, src, rng, kinds=("G",), only_groups=True, cls=cls)
        cases += cs
        if cs:
            _premise.append((cls, src, cs[0].line))
    return cases


run_impl = L.run_impl


def nontrivial(case, r):
    toks = case.line.split(L.SEP)[0].split(" ")
    return toks[0] == "G" and int(toks[3]) >= 3 and " g " in case.line.split(L.SEP)[0] and r.startswith("N ")


def c_clash(case, r, m):
    mt = L.case_mtype(case.line)
    return mt is not None and L.query(ID, "clash " + mt, case.line)


CLASSIFIERS = {"hash-clash": c_clash}


def extra_search(rng, seeds, tier):
    out = []
    for c in seeds[:10]:
        parts = L.split_case(c.line)
        if parts is None:
            continue
        s = L.parse_term(parts[2])
        mt = L.case_mtype(c.line)
        s2 = dict(s)
        s2["msgs"] = [m for m in s["msgs"] if m["msgtype"] == mt]
        full = L.make_cases(s, parts[1], rng, kinds=("G",), only_groups=True, nrand=6, nneg=8, cls="search")
        out += [x for x in full if L.case_mtype(x.line) == mt]
    return out


def extra_evidence(ctx):
    prem = []
    for cls, src, line in _premise:
        prem.append({"schema": cls + ":" + src, "defs_injective": L.query(ID, "inj", line)})
    return {"injectivity_premise": prem,
            "schemas_compiled": len(set(tuple(c.line.split(L.SEP)[1:]) for c in ctx["cases"] if L.SEP in c.line))}
