"""C27 — file persister survives process crashes without corruption."""
import glob
import itertools
import os
import shutil
from concurrent.futures import ThreadPoolExecutor

from vlib import build as B
from vlib import core
from vlib.core import Case

ID = "C27"
LEVEL = "proof"
TECHNIQUE = ("Coq proof about a crash model of FilePersister built on the C26 file model: every store is compiled to the "
             "lseek/write calls of filepersist.cpp in program order, a crash keeps any prefix of the calls, recovery is the "
             "index replay of initialise; the theorems reduce every non-torn crash point to the C26 refinement theorem. "
             "Model tied to the code by killing the real FilePersister (write/lseek wrapped with --wrap) after every "
             "possible number of system calls and comparing both files byte-wise and every answer after the reopen")
LEVEL_TEXT = ("Theorem c27_atomic_partial: for control-first histories (never_lost) and EVERY crash point -- between API calls "
              "(c27_between_ops_partial), inside a control put, and at every call boundary inside a message put including between "
              "its data write and its index write (tree since a892b9a) -- after the reopen all answers (completed stores "
              "byte-identical, no foreign bytes, control record = last completed, further stores retrievable) are those of the store "
              "contract after the completed operations; c27_control_refuted (F31, open) and c27_order_orig_refuted (F32, the write "
              "order before a892b9a) exhibit the violations.")
LEVEL_NOTE = ("Partial: the property is still violated by the code for message-before-control histories (F31, listed finding). "
              "Trusted and NOT proved: each write()/lseek() is atomic and durable, completed calls are never reordered or lost by the "
              "kernel/page cache/disk (a process crash, not a power failure); no short writes; the byte-list model of regular files.")
DESIGN_REF = "DESIGN.md section 4, C27"
PROPS_FILE = "Props/Properties_C27.v"
COQ_TARGETS = ["Props/Properties_C27.vo", "Extract/Extract_C27.vo"]
TRUSTED_BASE = ["Coq 8.16.1 kernel (coqc), vm_compute only",
                "Extraction with ExtrOcamlBasic, no Extract Constant; OCaml 4.13.1",
                "hand-written models coq/C26/FilePersist.v + coq/C27/Crash.v of runtime/filepersist.cpp, tied by differential execution "
                "with crash injection",
                "ocaml/prelude.ml + ocaml/c27_driver.ml, harness/h_c27.cpp (fork + --wrap=write,--wrap=lseek + _exit), vlib",
                "crash model: every completed write/lseek is atomic and durable, nothing else survives (process crash; no torn or "
                "reordered writes); POSIX regular-file semantics"]
ASSUMPTIONS = ["a process crash keeps exactly the effect of the system calls that completed (each write atomic and durable, no reordering)",
               "write/lseek/read never fail and never transfer fewer bytes than asked",
               "message sequence numbers below 2^31; control values: the whole unsigned range"]
RULE = ("quick: 100 random store histories of <= 6 operations (message put over sequence numbers 1..4 with payloads of 1..12 "
        "distinct bytes, control put with values 0, small or from {8191, 8192, 8193, 65535, 65536, 2^31-1, 2^31, 2^32-1}, get, "
        "close+reopen; 3 of 4 control-first) plus fixed control-first histories using every boundary control value as sender and as target and (0,0)/zero-component/repeated control stores, x EVERY crash point k = 0..total number of "
        "write/lseek calls; thorough: ALL histories of <= 3 operations over {put 1,2,3 x 2 payload sizes, control put, reopen} and every "
        "6th history of length 4 (all of them with VERIF_C27_FULL=1; that run exceeds the 15 min budget on a loaded machine) x "
        "every crash point.  After the crash: both files compared byte-wise with the model's disk; reopen; control get, last, get "
        "of every sequence number; two further stores (aimed at the in-flight sequence number and its neighbour); the same reads "
        "again.  non-trivial = a crash strictly inside an operation, or at least two completed stores; distinct = distinct case lines")

NWORKERS = 4


def build(tier):
    return {"impl": [B.harness("h_c27", variant="plain", runtime=None,
                               extra_link=["-Wl,--wrap=write,--wrap=lseek"])]}


# --------------------------------------------------------------------------- syntax

def fmt_op(o):
    if o[0] == "P":
        return "P %d %s" % (o[1], bytes(o[2]).hex() or "-")
    return " ".join(str(x) for x in o)


def fmt_ops(ops):
    return ";".join(fmt_op(o) for o in ops)


def parse_ops(s):
    ops = []
    for t in s.split(";"):
        w = t.split()
        if not w:
            continue
        if w[0] == "P":
            ops.append(("P", int(w[1]), bytes.fromhex(w[2]) if w[2] != "-" else b""))
        else:
            ops.append(tuple([w[0]] + [int(x) for x in w[1:]]))
    return ops


def parse(line):
    pre, k, after = line.split("|")
    return parse_ops(pre), int(k), parse_ops(after)


# --------------------------------------------------------------------------- bookkeeping of system calls
# (only used to enumerate crash points and to classify; the model of record is the Coq one)

def syscalls(pre):
    """per operation: number of write/lseek calls, and whether it is an accepted message put"""
    index, recs = {}, []
    out = []
    for o in pre:
        if o[0] == "P":
            if o[1] == 0 or o[1] in index:
                out.append((0, False))
            else:
                out.append((4, True))
                index[o[1]] = 1
                recs.append(o[1])
        elif o[0] == "C":
            out.append((2, False))
            index[0] = 1
            if recs:
                recs[0] = 0
            else:
                recs.append(0)
        elif o[0] == "G":
            out.append((1 if (o[1] != 0 and o[1] in index) else 0, False))
        elif o[0] == "O":
            out.append((0, False))
            index = {}
            for r in recs:
                index.setdefault(r, 1)
        else:
            out.append((0, False))
    return out


def locate(pre, k):
    """(index of the operation in progress or None, calls of it that completed, accepted-put?)"""
    for i, (n, acc) in enumerate(syscalls(pre)):
        if n <= k:
            k -= n
        else:
            return i, k, acc
    return None, 0, False


# --------------------------------------------------------------------------- generation

# control values: see c26.py (target lives in the int32 _size field of index record 0)
CTL_BOUNDARY = (8191, 8192, 8193, 65535, 65536, 2**31 - 1, 2**31, 2**32 - 1)


def ctl_val(rng):
    """0 (the value of a default-constructed record; (0,0) is a legal first control store), a boundary
    value of the packing into the index record, or a small number"""
    r = rng.randrange(10)
    if r < 2:
        return 0
    if r < 5:
        return rng.choice(CTL_BOUNDARY)
    return rng.randrange(1, 40)


def obs(maxseq):
    return [("c",), ("L",)] + [("G", s) for s in range(1, maxseq + 1)]


def mk(pre, k, post, cls, maxseq):
    after = obs(maxseq) + post + obs(maxseq)
    return Case("%s|%d|%s" % (fmt_ops(pre), k, fmt_ops(after)), cls)


def fresh(rng, n, tag):
    return bytes(((tag * 37 + i * 11 + rng.randrange(4)) & 0xff) for i in range(n))


def post_ops(rng, pre, k, maxseq):
    """two further stores, aimed at the sequence number in flight and a neighbour"""
    i, done, acc = locate(pre, k)
    target = pre[i][1] if (i is not None and pre[i][0] == "P") else rng.randrange(1, maxseq + 1)
    other = target % maxseq + 1
    sz = rng.choice((3, 8, 14))
    a = ("P", target, fresh(rng, rng.choice((2, 5)), 201))
    b = rng.choice([("P", other, fresh(rng, sz, 202)), ("P", maxseq, fresh(rng, sz, 203)), ("C", ctl_val(rng), ctl_val(rng))])
    return [a, b]


def cls_of(pre, k):
    i, done, acc = locate(pre, k)
    if i is None:
        return "after-all"
    if done == 0:
        return "between-ops"
    if acc and done == 3:
        return "torn-put"
    return "inside-op"


def all_points(rng, pre, maxseq, out):
    total = sum(n for n, _ in syscalls(pre))
    for k in range(total + 1):
        out.append(mk(pre, k, post_ops(rng, pre, k, maxseq), cls_of(pre, k), maxseq))


def gen_cases(rng, tier):
    cs = []
    if tier == "thorough":
        sizes = (3, 7)
        alphabet = [("P", s, n) for s in (1, 2, 3) for n in sizes] + [("C",), ("O",)]
        serial = 0
        full = os.environ.get("VERIF_C27_FULL") == "1"
        for ln in range(1, 5):
            for idx, combo in enumerate(itertools.product(alphabet, repeat=ln)):
                if ln == 4 and not full and idx % 6 != 0:
                    serial += 4      # keep payload bytes independent of the sampling
                    continue
                pre = []
                for j, o in enumerate(combo):
                    serial += 1
                    if o[0] == "P":
                        pre.append(("P", o[1], bytes(((serial * 13 + j * 29 + i) & 0xff) for i in range(o[2]))))
                    elif o[0] == "C":
                        # small and boundary values alternate deterministically
                        pre.append(("C", 10 + j, 20 + (serial % 7)) if serial % 3 else
                                   ("C", CTL_BOUNDARY[(serial // 3) % 8], CTL_BOUNDARY[(serial // 3 + 5) % 8]))
                    else:
                        pre.append(("O",))
                all_points(rng, pre, 3, cs)
        return cs
    # every boundary control value as sender and as target, in a control-first history, every crash point
    for j, v in enumerate(CTL_BOUNDARY):
        w = CTL_BOUNDARY[(j + 3) % len(CTL_BOUNDARY)]
        all_points(rng, [("C", v, w), ("P", 1, fresh(rng, 4, j)), ("C", w, v)], 2, cs)
    # the first control store is (0,0) / has a zero component / repeats the stored value: every crash point
    for (a, b) in ((0, 0), (0, 9), (9, 0)):
        all_points(rng, [("C", a, b), ("P", 1, fresh(rng, 3, a + b)), ("C", a, b), ("C", 5, 6), ("P", 2, fresh(rng, 2, 7))], 2, cs)
    all_points(rng, [("C", 0, 0), ("O",), ("P", 1, fresh(rng, 3, 1)), ("C", 2, 2), ("O",), ("P", 2, fresh(rng, 2, 2))], 2, cs)
    for n in range(100):
        ln = rng.randrange(1, 7)
        pre = []
        if n % 4 != 0:
            pre.append(("C", ctl_val(rng), ctl_val(rng)))
        while len(pre) < ln:
            r = rng.randrange(100)
            if r < 55:
                seq = rng.randrange(1, 5) if rng.randrange(15) else 0
                pre.append(("P", seq, fresh(rng, rng.randrange(1, 13), len(pre) + 1)))
            elif r < 72:
                pre.append(("C", ctl_val(rng), ctl_val(rng)))
            elif r < 87:
                pre.append(("G", rng.randrange(1, 5)))
            else:
                pre.append(("O",))
        all_points(rng, pre, 4, cs)
    return cs


# --------------------------------------------------------------------------- execution (parallel harness processes)

def run_impl(built, cases, tier):
    lines = [c.line for c in cases]
    n = max(1, min(NWORKERS, len(lines) // 50 or 1))
    chunks = [lines[i::n] for i in range(n)]
    with ThreadPoolExecutor(max_workers=n) as ex:
        res = list(ex.map(lambda ch: core.run_lines(built["impl"], ch, per_case_timeout=20, timeout_per_batch=1800), chunks))
    out = [None] * len(lines)
    for i, r in enumerate(res):
        out[i::n] = r
    for d in glob.glob("/tmp/C27-[0-9]*"):
        pid = d.rsplit("-", 1)[1]
        if pid.isdigit() and not os.path.exists("/proc/" + pid):
            shutil.rmtree(d, ignore_errors=True)
    return out


def nontrivial(case, r):
    pre, k, after = parse(case.line)
    i, done, acc = locate(pre, k)
    if i is not None and done > 0:
        return True
    n = int(r.split("|", 1)[0])
    sc = syscalls(pre)
    return sum(1 for j in range(min(n, len(pre))) if sc[j][0] >= 2) >= 2


# --------------------------------------------------------------------------- classifiers

def c_msg_before_control(case, r, m):
    """the first record of the index file is a message's and a control put that follows it was executed
    (completed before the crash, in progress with its write done, or issued after the reopen)"""
    pre, k, after = parse(case.line)
    i, done, acc = locate(pre, k)
    executed = list(pre) if i is None else list(pre[:i]) + ([pre[i]] if (pre[i][0] == "C" and done == 2) else [])
    slot = "virgin"
    for o in executed + list(after):
        if slot == "virgin" and o[0] == "P" and o[1] != 0:
            slot = "msg"
        elif slot == "virgin" and o[0] == "C":
            slot = "ctl"
        elif slot == "msg" and o[0] == "C":
            return True
    return False


CLASSIFIERS = {"msg-before-control": c_msg_before_control}


def EXHAUSTIVE(tier):
    # exhaustive only for histories of <= 3 operations (and for <= 4 with VERIF_C27_FULL=1): not claimed
    return tier == "thorough" and os.environ.get("VERIF_C27_FULL") == "1"


def extra_search(rng, seeds, tier):
    return gen_cases(rng, "quick")


def _shrink_raw(case):
    pre, k, after = parse(case.line)
    out = []
    for i in range(len(pre)):
        p2 = pre[:i] + pre[i + 1:]
        tot = sum(n for n, _ in syscalls(p2))
        for kk in sorted(set((min(k, tot), max(0, min(k, tot) - 1), max(0, k - 4), max(0, k - 2)))):
            if kk <= tot:
                out.append(Case("%s|%d|%s" % (fmt_ops(p2), kk, fmt_ops(after)), "shrink"))
    mid = [o for o in after if o[0] in "PC"]
    for j in range(len(mid)):
        a2 = [o for o in after if o is not mid[j]]
        out.append(Case("%s|%d|%s" % (fmt_ops(pre), k, fmt_ops(a2)), "shrink"))
    return out


def shrink(case):
    """Shrink candidates, never drifting INTO a listed finding: a candidate that one of the classifiers
    accepts although the case being shrunk is outside it would turn a new failure into a known one."""
    mine = {n for n, f in CLASSIFIERS.items() if f(case, "", "OOB")}
    if mine:
        # an unlisted failure on an input of a listed finding means model and implementation differ
        # there; shrinking blind to the outputs could end on a merely known input: report it as it is
        return []
    out = []
    for c in _shrink_raw(case):
        try:
            if any(f(c, "", "OOB") for n, f in CLASSIFIERS.items() if n not in mine):
                continue
        except Exception:
            continue
        out.append(c)
    return out
