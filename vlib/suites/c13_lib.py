"""Shared machinery of the C13 and C14 suites: schema objects, XML reader / writer, the schema
term passed to the model, schema generators, probe generation, and the per-schema build
(fresh sanitized f8c -> generated code -> g++ -> harness executable)."""
import os
import shutil
import subprocess
import threading
import xml.etree.ElementTree as ET
from concurrent.futures import ThreadPoolExecutor

from vlib import build as B
from vlib.core import Case, run_lines

SEP = " @ "
PREFIX = "c13s"
NS = "C13S"

# ------------------------------------------------------------------------------ schema objects
# schema = dict(type, major, minor, rev, fields=[dict(num,name,type,vals=[(enum,desc,range)])],
#               comps=[(name, items)], header=items, trailer=items,
#               msgs=[dict(name, msgtype, admin, items)])
# item   = ('f', name, req) | ('g', name, req, items) | ('c', name, req)


def bool_attr(v):
    """FIX8::get_value<bool>"""
    if not v:
        return False
    return v.lower() in ("true", "yes", "y") or v == "1"


def req_true(kind, v):
    """How f8c reads a `required` attribute: fields and groups `== "Y"`; component references through
    get_value<bool> (true / yes / y in any case, or 1).  Booleans are the generators' shorthand."""
    if isinstance(v, bool):
        return v
    return bool_attr(v) if kind == "c" else v == "Y"


def req_text(kind, v):
    if isinstance(v, bool):
        return "Y" if v else "N"
    return v


def is_admin(m):
    """msgcat % "admin": case-insensitive"""
    return (m.get("msgcat") or "").lower() == "admin"


def raw_req(kind, v):
    v = v or ""
    if v in ("0", "1") and kind != "c":      # these two texts are the term's shorthand for booleans
        return False
    return v


def read_items(el):
    out = []
    for c in el:
        if c.tag == "field":
            out.append(("f", c.get("name", ""), raw_req("f", c.get("required"))))
        elif c.tag == "group":
            out.append(("g", c.get("name", ""), raw_req("g", c.get("required")), read_items(c)))
        elif c.tag == "component":
            out.append(("c", c.get("name", ""), raw_req("c", c.get("required"))))
    return out


def read_xml(path):
    root = ET.parse(path).getroot()
    rev = root.get("revision")
    if rev is None:
        rev = root.get("servicepack", "0")
    s = {"type": root.get("type", "FIX"), "major": root.get("major", ""), "minor": root.get("minor", ""),
         "rev": rev, "fields": [], "comps": [], "header": [], "trailer": [], "msgs": []}
    fl = root.find("fields")
    for f in (fl if fl is not None else []):
        if f.tag != "field":
            continue
        vals = []
        for v in f:
            if v.tag == "value" and v.get("enum") is not None:
                vals.append((v.get("enum"), v.get("description") or "", v.get("range") in ("lower", "upper")))
        s["fields"].append({"num": int(f.get("number").strip()), "name": f.get("name").strip(),
                            "type": f.get("type").strip(), "vals": vals})
    cl = root.find("components")
    for c in (cl if cl is not None else []):
        if c.tag == "component" and c.get("name") is not None:
            s["comps"].append((c.get("name"), read_items(c)))
    h = root.find("header")
    s["header"] = read_items(h) if h is not None else []
    t = root.find("trailer")
    s["trailer"] = read_items(t) if t is not None else []
    ml = root.find("messages")
    for m in (ml if ml is not None else []):
        if m.tag == "message":
            s["msgs"].append({"name": m.get("name", ""), "msgtype": m.get("msgtype", ""),
                              "msgcat": m.get("msgcat") or "", "items": read_items(m)})
    return s


def xesc(v):
    return (v.replace("&", "&amp;").replace("<", "&lt;").replace(">", "&gt;").replace("'", "&apos;")
            .replace('"', "&quot;"))


def write_items(items, ind, out):
    for it in items:
        if it[0] == "f":
            out.append("%s<field name='%s' required='%s' />" % (ind, it[1], req_text("f", it[2])))
        elif it[0] == "c":
            out.append("%s<component name='%s' required='%s' />" % (ind, it[1].lstrip(TMARK), req_text("c", it[2])))
        else:
            out.append("%s<group name='%s' required='%s'>" % (ind, it[1], req_text("g", it[2])))
            write_items(it[3], ind + " ", out)
            out.append("%s</group>" % ind)


def write_fields(s, out):
    out.append(" <fields>")
    for f in s["fields"]:
        if f["vals"]:
            out.append("  <field number='%d' name='%s' type='%s'>" % (f["num"], f["name"], f["type"]))
            for e, d, r in f["vals"]:
                extra = " range='lower'" if r else ""
                if d:
                    out.append("   <value enum='%s' description='%s'%s />" % (xesc(e), xesc(d), extra))
                else:
                    out.append("   <value enum='%s'%s />" % (xesc(e), extra))
            out.append("  </field>")
        else:
            out.append("  <field number='%d' name='%s' type='%s' />" % (f["num"], f["name"], f["type"]))
    out.append(" </fields>")


def write_xml(s, fields_first=False, with_header=True):
    out = ["<?xml version='1.0' encoding='ISO-8859-1'?>",
           "<fix major='%s' type='%s' servicepack='%s' minor='%s'>" % (s["major"], s["type"], s["rev"], s["minor"])]
    if fields_first:
        write_fields(s, out)
    if with_header:
        out.append(" <header>")
        write_items(s["header"], "  ", out)
        out.append(" </header>")
    out.append(" <messages>")
    for m in s["msgs"]:
        out.append("  <message name='%s' msgcat='%s' msgtype='%s'>" % (m["name"], m["msgcat"], m["msgtype"]))
        write_items(m["items"], "   ", out)
        out.append("  </message>")
    out.append(" </messages>")
    if with_header:
        out.append(" <trailer>")
        write_items(s["trailer"], "  ", out)
        out.append(" </trailer>")
    if s["comps"]:
        out.append(" <components>")
        for name, items in s["comps"]:
            out.append("  <component name='%s'>" % name.lstrip(TMARK))
            write_items(items, "   ", out)
            out.append("  </component>")
        out.append(" </components>")
    if not fields_first:
        write_fields(s, out)
    out.append("</fix>")
    return "\n".join(out) + "\n"


TMARK = "~"     # transport components of a FIXT-mode pair (see Schema.v: TMARK)


def item_names(items, comps, acc, seen):
    for it in items:
        if it[0] == "c":
            if it[1] not in seen:
                seen.add(it[1])
                item_names(comps.get(it[1], []), comps, acc, seen)
        else:
            acc.add(it[1])
            if it[0] == "g":
                item_names(it[3], comps, acc, seen)
    return acc


def split_fixt(s):
    """The merged view of a FIXT-mode pair -> (transport schema, application schema).  Transport =
    header, trailer, the admin messages, the '~' components and the fields those use."""
    comps = dict(s["comps"])
    tmsgs = [m for m in s["msgs"] if is_admin(m)]
    amsgs = [m for m in s["msgs"] if not is_admin(m)]
    tnames, seen = set(), set()
    item_names(s["header"], comps, tnames, seen)
    item_names(s["trailer"], comps, tnames, seen)
    for m in tmsgs:
        item_names(m["items"], comps, tnames, seen)
    for n, its in s["comps"]:
        if n.startswith(TMARK):
            item_names(its, comps, tnames, seen)
    ft = dict(s, msgs=tmsgs, comps=[c for c in s["comps"] if c[0].startswith(TMARK)],
              fields=[f for f in s["fields"] if f["name"] in tnames or f["num"] == 35])
    fa = dict(s, type="FIX", major="5", minor="0", rev="0", msgs=amsgs,
              comps=[c for c in s["comps"] if not c[0].startswith(TMARK)],
              fields=[f for f in s["fields"] if not (f["name"] in tnames or f["num"] == 35)], header=[], trailer=[])
    return ft, fa


def hx(v):
    b = v.encode("latin-1", "replace")
    return b.hex() if b else "-"


def term_items(items, out):
    out.append(str(len(items)))
    for it in items:
        rq = ("1" if it[2] else "0") if isinstance(it[2], bool) else (it[2] or "-")
        if it[0] == "f":
            out += ["f", it[1] or "-", rq]
        elif it[0] == "c":
            out += ["c", it[1] or "-", rq]
        else:
            out += ["g", it[1] or "-", rq]
            term_items(it[3], out)


def term(s):
    """The schema as the token string the OCaml driver turns into the model's `schema`."""
    out = ["S", s["type"] or "-", s["major"] or "-", s["minor"] or "-", s["rev"] or "-", str(len(s["fields"]))]
    for f in s["fields"]:
        out += ["F", str(f["num"]), f["name"], f["type"], str(len(f["vals"]))]
        for e, d, r in f["vals"]:
            out += ["V", hx(e), hx(d), "1" if r else "0"]
    out.append(str(len(s["comps"])))
    for name, items in s["comps"]:
        out += ["C", name]
        term_items(items, out)
    out.append("H")
    term_items(s["header"], out)
    out.append("T")
    term_items(s["trailer"], out)
    out.append(str(len(s["msgs"])))
    for m in s["msgs"]:
        out += ["M", m["name"], m["msgtype"], m["msgcat"] or "-"]
        term_items(m["items"], out)
    for tok in out:
        assert tok and " " not in tok and "\t" not in tok and "@" not in tok, tok
    return " ".join(out)


def parse_term(t):
    """Inverse of term() (replays carry only the term)."""
    toks = t.split(" ")
    pos = [0]

    def nx():
        pos[0] += 1
        return toks[pos[0] - 1]

    def unhx(v):
        return "" if v == "-" else bytes.fromhex(v).decode("latin-1")

    def items():
        out = []
        for _ in range(int(nx())):
            k = nx()
            nm, rq = nx(), nx()
            rq = True if rq == "1" else (False if rq == "0" else ("" if rq == "-" else rq))
            if k == "g":
                out.append(("g", nm, rq, items()))
            else:
                out.append((k, nm, rq))
        return out

    assert nx() == "S"
    s = {"type": nx(), "major": nx(), "minor": nx(), "rev": nx(), "fields": [], "comps": [], "msgs": []}
    for _ in range(int(nx())):
        assert nx() == "F"
        f = {"num": int(nx()), "name": nx(), "type": nx(), "vals": []}
        for _ in range(int(nx())):
            assert nx() == "V"
            e, d, r = unhx(nx()), unhx(nx()), nx() == "1"
            f["vals"].append((e, d, r))
        s["fields"].append(f)
    for _ in range(int(nx())):
        assert nx() == "C"
        nm = nx()
        s["comps"].append((nm, items()))
    assert nx() == "H"
    s["header"] = items()
    assert nx() == "T"
    s["trailer"] = items()
    for _ in range(int(nx())):
        assert nx() == "M"
        m = {"name": nx(), "msgtype": nx(), "msgcat": nx()}
        m["msgcat"] = {"1": "admin", "0": "app", "-": ""}.get(m["msgcat"], m["msgcat"])
        m["items"] = items()
        s["msgs"].append(m)
    return s


# ------------------------------------------------------------------------------ expansion (generator side)
TYPE_FAMILY = {}
for _n in ("INT", "TAGNUM", "SEQNUM", "NUMINGROUP", "DAYOFMONTH"):
    TYPE_FAMILY[_n] = "int"
TYPE_FAMILY["LENGTH"] = "length"
for _n in ("FLOAT", "QTY", "QUANTITY", "PRICE", "PRICEOFFSET", "AMT", "PERCENTAGE"):
    TYPE_FAMILY[_n] = "float"
TYPE_FAMILY["CHAR"] = "char"
TYPE_FAMILY["BOOLEAN"] = "bool"
SAMPLE = {"int": "7", "length": "3", "float": "1.5", "char": "A", "bool": "Y", "STRING": "abc",
          "MULTIPLEVALUECHAR": "A", "MULTIPLECHARVALUE": "A", "MULTIPLESTRINGVALUE": "AB", "MULTIPLEVALUESTRING": "AB",
          "COUNTRY": "US", "CURRENCY": "USD", "EXCHANGE": "XNYS", "MONTHYEAR": "202401",
          "UTCTIMESTAMP": "20240102-03:04:05.000", "UTCTIME": "03:04:05.000", "UTCTIMEONLY": "03:04:05.000",
          "UTCDATE": "20240102", "UTCDATEONLY": "20240102", "LOCALMKTDATE": "20240102",
          "TZTIMEONLY": "03:04:05Z", "TZTIMESTAMP": "20240102-03:04:05Z", "XMLDATA": "xml", "DATA": "xyz",
          "LANGUAGE": "en", "RESERVED100PLUS": "r1", "RESERVED1000PLUS": "r2", "RESERVED4000PLUS": "r3",
          "PATTERN": "p", "TENOR": "D5"}


def sample_value(f, rng=None):
    ty = f["type"].upper()
    fam0 = TYPE_FAMILY.get(ty)
    vals = [v for v in f["vals"] if not v[2] and (fam0 not in ("char", "bool") or len(v[0]) == 1)]
    if vals and not any(v[2] for v in f["vals"]):
        v = vals[rng.randrange(len(vals))][0] if rng else vals[0][0]
        if v and "\x01" not in v and not v.startswith("-"):   # negative int text: UB in fast_atoi (another property's finding)
            return v
    fam = TYPE_FAMILY.get(ty)
    return SAMPLE[fam] if fam else SAMPLE.get(ty, "abc")


class XS:
    """Expanded view of a schema used to draw probes (uniform component rule)."""

    def __init__(self, s):
        self.s = s
        self.byname = {}
        for f in sorted(s["fields"], key=lambda f: f["num"]):
            self.byname.setdefault(f["name"], f)
        self.comps = {}
        for name, items in s["comps"]:
            self.comps.setdefault(name, items)

    def expand(self, items, ctx=True, depth=0):
        """-> list of ('f', fielddef, req) | ('g', fielddef, req, sub)"""
        out = []
        if depth > 60:
            raise ValueError("component recursion")
        for it in items:
            if it[0] == "f":
                out.append(("f", self.byname[it[1]], req_true("f", it[2]) and ctx))
            elif it[0] == "g":
                out.append(("g", self.byname[it[1]], req_true("g", it[2]) and ctx, self.expand(it[3], ctx, depth + 1)))
            else:
                out += self.expand(self.comps[it[1]], req_true("c", it[2]) and ctx, depth + 1)
        return out


def group_members(sub, acc):
    for it in sub:
        acc.add(it[1]["num"])
        if it[0] == "g":
            group_members(it[3], acc)
    return acc


def draw_level(xs, items, mode, rng, top, depth=0, drop=None):
    """One level of a probe.  mode: 'full' | 'min' | 'mingrp' | 'rand'.  -> list of pnodes
    pnode = ('f', num, value) | ('g', num, [elements])."""
    out = []
    shadow = set()           # numbers that would be mistaken for members of a preceding group
    k = 0
    while k < len(items):
        it = items[k]
        num = it[1]["num"]
        ty = it[1]["type"].upper()
        first = (k == 0 and not top)
        if drop is not None and drop == (depth, num):
            k += 1
            continue
        if it[0] == "f":
            want = it[2] or first or mode == "full" or (mode == "rand" and rng.random() < 0.5)
            if num in shadow or num in (8, 9, 35, 10):
                want = False
            # Length/data pairs: only together, only when adjacent
            if ty == "LENGTH":
                nxt = items[k + 1] if k + 1 < len(items) else None
                paired = (nxt is not None and nxt[0] == "f" and nxt[1]["type"].upper() in ("DATA", "XMLDATA")
                          and nxt[1]["num"] == num + 1)
                if paired and (want or nxt[2]):
                    dv = sample_value(nxt[1], rng)
                    out.append(("f", num, str(len(dv))))
                    out.append(("f", nxt[1]["num"], dv))
                    k += 2
                    continue
                if paired:
                    k += 2
                    continue
                if want and it[2]:
                    out.append(("f", num, "1"))
                k += 1
                continue
            if ty in ("DATA", "XMLDATA") and not it[2] and not first:
                want = False
            if want:
                out.append(("f", num, sample_value(it[1], rng)))
        else:
            want = it[2] or first or mode in ("full", "mingrp") or (mode == "rand" and rng.random() < 0.6)
            if num in shadow:
                want = False
            if want and it[3]:
                nel = 2 if (mode == "full" and depth == 0) else (rng.randrange(1, 4) if mode == "rand" else 1)
                els = [draw_level(xs, it[3], mode, rng, False, depth + 1, drop) for _ in range(nel)]
                out.append(("g", num, els))
                group_members(it[3], shadow)
        k += 1
    return out


def pn_text(ps, out):
    out.append(str(len(ps)))
    for p in ps:
        if p[0] == "f":
            out += ["f", str(p[1]), hx(p[2])]
        else:
            out += ["g", str(p[1]), str(len(p[2]))]
            for el in p[2]:
                pn_text(el, out)


def required_sites(items, depth=0, acc=None):
    acc = [] if acc is None else acc
    for k, it in enumerate(items):
        if it[2] and it[1]["num"] not in (8, 9, 35, 10):
            acc.append((depth, it[1]["num"]))
        if it[0] == "g":
            required_sites(it[3], depth + 1, acc)
    return acc


def probes_for(xs, hdr, body, rng, nrand=2, nneg=3):
    """-> list of (label, header pnodes, body pnodes)"""
    ph = draw_level(xs, hdr, "min", rng, True)
    out = [("full", draw_level(xs, hdr, "full", rng, True), draw_level(xs, body, "full", rng, True)),
           ("min", ph, draw_level(xs, body, "min", rng, True)),
           ("mingrp", ph, draw_level(xs, body, "mingrp", rng, True))]
    for _ in range(nrand):
        out.append(("rand", ph, draw_level(xs, body, "rand", rng, True)))
    sites = required_sites(body)
    rng.shuffle(sites)
    for site in sites[:nneg]:
        out.append(("neg", ph, draw_level(xs, body, "mingrp", rng, True, 0, site)))
    return out


def make_cases(s, src, rng, kinds=("T", "M"), only_groups=False, nrand=2, nneg=3, cls="gen"):
    """Case lines for one schema: tables, then one per message table entry."""
    t = term(s)
    ncomps = len(set(n for n, _ in s["comps"] if not n.startswith(TMARK)))
    cases = []
    tail = SEP + src + SEP + t
    if "T" in kinds:
        cases.append(Case("T %d%s" % (ncomps, tail), cls + "-tables"))
    xs = XS(s)
    try:
        hdr = xs.expand(s["header"])
    except Exception:
        hdr = None
    mk = "M" if "M" in kinds else "G"
    if "M" in kinds or "G" in kinds:
        if mk == "M":
            cases.append(Case("M %d header 0%s" % (ncomps, tail), cls + "-header"))
            cases.append(Case("M %d trailer 0%s" % (ncomps, tail), cls + "-trailer"))
        elif hdr is not None and any(it[0] == "g" for it in hdr):
            cases.append(Case("G %d header 0%s" % (ncomps, tail), cls + "-header"))
        for m in s["msgs"]:
            try:
                body = xs.expand(m["items"])
            except Exception:
                body = None
            if only_groups and (body is None or not any(it[0] == "g" for it in body)):
                continue
            toks = []
            pl = probes_for(xs, hdr, body, rng, nrand, nneg) if (hdr is not None and body is not None) else []
            for _, ph, pb in pl:
                pn_text(ph, toks)
                pn_text(pb, toks)
            line = "%s %d %s %d %s" % (mk, ncomps, m["msgtype"], len(pl), " ".join(toks))
            cases.append(Case(line.rstrip() + tail, cls + ("-groups" if body and any(it[0] == "g" for it in body) else "-flat")))
    return cases


# ------------------------------------------------------------------------------ building one schema
_lock = threading.Lock()
_built = {}


def f8c_asan():
    objs = B.compile_many([os.path.join(B.REPO, "compiler", n) for n in B.COMPILER_SRCS], "asan",
                          extra=["-I" + os.path.join(B.REPO, "compiler"), "-fno-sanitize=nonnull-attribute"])
    # nonnull-attribute: presorted_set's copy constructor calls memcpy(dst, nullptr, 0) for every empty
    # FieldTraits (traits.hpp:267) -- standing, harmless, and it would mask everything else
    return B.link(objs + B.runtime_objs("asan"), "f8c-asan", "asan")


def san_env():
    env = dict(os.environ)
    env["ASAN_OPTIONS"] = "detect_leaks=0:abort_on_error=0:halt_on_error=1:allocator_may_return_null=1:detect_stack_use_after_return=0"
    env["UBSAN_OPTIONS"] = "print_stacktrace=1:halt_on_error=1"
    return env


def build_schema(src, t, hname="h_c13"):
    """-> ('exe', path) | ('fail', result token).  Cached in the process and on disk."""
    key = B.sha(src, t, hname)
    with _lock:
        if key in _built:
            return _built[key]
    if src.startswith("repo:"):
        xml_path = os.path.join(B.REPO, src[5:])
        xml_bytes = B.read(xml_path)
    elif src == "genx":
        ft, fa = split_fixt(parse_term(t))
        # transport fields first, application fields last: f8c merges the two field lists in ONE set
        # ordered by per-document element sequence numbers, equal numbers would drop a field
        fixt_bytes = write_xml(ft, fields_first=True).encode("latin-1", "replace")
        xml_bytes = write_xml(fa, with_header=False).encode("latin-1", "replace")
    else:
        xml_bytes = write_xml(parse_term(t)).encode("latin-1", "replace")
    fixt_bytes = fixt_bytes if src == "genx" else b""
    exe = f8c_asan()
    gkey = B.sha(os.path.basename(exe), xml_bytes, fixt_bytes, PREFIX, NS)
    d = os.path.join(B.CACHE, "gen", "c13-%s" % gkey)
    done = os.path.join(d, ".done")
    with B.Lock("gen-" + os.path.basename(d)):
        if not os.path.exists(done):
            shutil.rmtree(d, ignore_errors=True)
            os.makedirs(d)
            xp = os.path.join(d, "schema.xml")
            with open(xp, "wb") as f:
                f.write(xml_bytes)
            if fixt_bytes:
                with open(os.path.join(d, "fixt.xml"), "wb") as f:
                    f.write(fixt_bytes)
            p = subprocess.run([exe, "-Vp", PREFIX, "-n", NS] + (["-x", "fixt.xml"] if fixt_bytes else []) + ["schema.xml"],
                               cwd=d, stdout=subprocess.PIPE,
                               stderr=subprocess.STDOUT, timeout=600, env=san_env())
            log = p.stdout.decode(errors="replace")
            open(os.path.join(d, "f8c.log"), "w").write(log)
            open(done, "w").write(str(p.returncode))
    rc = int(open(done).read() or "1")
    log = open(os.path.join(d, "f8c.log")).read()
    cpps = sorted(os.path.join(d, PREFIX + x) for x in ("_types.cpp", "_traits.cpp", "_classes.cpp"))
    if rc != 0 or not all(os.path.exists(c) for c in cpps):
        tok = "F8C-FAIL"
        if "Sanitizer" in log or "runtime error" in log:
            tok = "F8C-CRASH " + " ".join(log.split("\n")[0:1])[:120]
        res = ("fail", tok)
    else:
        failmark = os.path.join(d, "compile-token-" + B.headers_hash())
        if os.path.exists(failmark):          # a failed compilation is remembered (with its token) per header state
            res = ("fail", open(failmark).read().strip() or "COMPILE-FAIL")
        else:
            try:
                objs = B.compile_many(cpps, "asan", extra=["-I" + d, "-O0", "-g0", "-fmax-errors=2"], extra_hash=d)
                hsrc = os.path.join(B.VERIF, "harness", hname + ".cpp")
                hh = B.sha(B.read(os.path.join(B.VERIF, "harness", "hcommon.hpp")), B.read(os.path.join(B.VERIF, "harness", "h_c13.cpp")))
                hobj = B.compile_obj(hsrc, "asan", extra=["-I" + os.path.join(B.VERIF, "harness")], extra_hash=hh)
                res = ("exe", B.link([hobj] + objs + B.runtime_objs("asan"), hname, "asan"))
            except B.BuildError as e:
                open(os.path.join(d, "compile.log"), "w").write(str(e))
                tok = compile_fail_token(str(e))
                open(failmark, "w").write(tok)
                res = ("fail", tok)
    with _lock:
        _built[key] = res
    return res


def compile_fail_token(log):
    """COMPILE-FAIL for the listed finding (type names pattern / Tenor that field.hpp does not define),
    otherwise COMPILE-FAIL plus the first error of the generated code (the identifier names the
    failing definition)."""
    import re
    errs = [l for l in log.split("\n") if "error:" in l]
    if not errs:
        return "COMPILE-FAIL (no error line)"
    first = errs[0]
    if re.search(r"[‘'`](pattern|Tenor)[’']", first):
        return "COMPILE-FAIL"
    msg = first.split("error:", 1)[1].strip()
    where = os.path.basename(first.split(":", 1)[0])
    msg = re.sub(r"[^A-Za-z0-9_:<>,.()\[\] -]", "'", msg)
    return ("COMPILE-FAIL %s: %s" % (where, msg))[:300]


def split_case(line):
    parts = line.split(SEP)
    if len(parts) != 3:
        return None
    return parts


def run_impl(built, cases, tier):
    """Build one harness per schema (in parallel) and run that schema's cases through it."""
    groups = {}
    for k, c in enumerate(cases):
        parts = split_case(c.line)
        if parts is None or parts[0].startswith("Q"):
            continue
        groups.setdefault((parts[1], parts[2]), []).append((k, parts[0]))
    results = [""] * len(cases)

    def work(item):
        (src, t), lst = item
        try:
            kind, val = build_schema(src, t, built.get("harness", "h_c13"))
        except Exception as e:   # f8c hanging, tool failure
            kind, val = "fail", "F8C-FAIL " + str(e)[:100].replace("\n", " ").replace("\t", " ")
        if kind == "fail":
            return [(k, val) for k, _ in lst]
        lines = [("M" + h[1:]) if h.startswith("G") else h for _, h in lst]
        outs = run_lines([val], lines, per_case_timeout=60, timeout_per_batch=900)
        return [(k, o) for (k, _), o in zip(lst, outs)]

    with ThreadPoolExecutor(max_workers=6) as ex:
        for part in ex.map(work, sorted(groups.items(), key=lambda kv: -len(kv[0][1]))):
            for k, o in part:
                results[k] = o
    return results


_driver_lock = threading.Lock()
_qcache = {}


def query(pid, what, line):
    """Evaluate one of the model's decidable premises on the schema of a case line."""
    parts = split_case(line)
    if parts is None:
        return False
    key = (what, parts[2])
    with _driver_lock:
        if key in _qcache:
            return _qcache[key]
    drv = B.ocaml_driver(pid)
    p = subprocess.run([drv], input=("Q %s%s%s%s%s\t\n" % (what, SEP, parts[1], SEP, parts[2])).encode(),
                       stdout=subprocess.PIPE, timeout=600)
    ans = p.stdout.decode().split("\t")[0] == "1"
    with _driver_lock:
        _qcache[key] = ans
    return ans


def case_mtype(line):
    toks = line.split(SEP)[0].split(" ")
    return toks[2] if len(toks) > 2 and toks[0] in ("M", "G") else None


# ------------------------------------------------------------------------------ schema generators
STD_FIELDS = [(8, "BeginString", "STRING"), (9, "BodyLength", "LENGTH"), (10, "CheckSum", "STRING"),
              (34, "MsgSeqNum", "SEQNUM"), (35, "MsgType", "STRING"), (43, "PossDupFlag", "BOOLEAN"),
              (49, "SenderCompID", "STRING"), (50, "SenderSubID", "STRING"), (52, "SendingTime", "UTCTIMESTAMP"),
              (56, "TargetCompID", "STRING"), (112, "TestReqID", "STRING")]
STD_HEADER = [("f", "BeginString", True), ("f", "BodyLength", True), ("f", "MsgType", True),
              ("f", "SenderCompID", True), ("f", "TargetCompID", True), ("f", "MsgSeqNum", True),
              ("f", "SenderSubID", False), ("f", "PossDupFlag", False), ("f", "SendingTime", True)]
ALL_TYPES = ["INT", "LENGTH", "TAGNUM", "SEQNUM", "NUMINGROUP", "DAYOFMONTH", "FLOAT", "QTY", "PRICE",
             "PRICEOFFSET", "AMT", "PERCENTAGE", "CHAR", "BOOLEAN", "STRING", "MULTIPLEVALUECHAR",
             "MULTIPLESTRINGVALUE", "COUNTRY", "CURRENCY", "EXCHANGE", "MONTHYEAR", "UTCTIMESTAMP",
             "UTCTIMEONLY", "UTCDATEONLY", "LOCALMKTDATE", "TZTIMEONLY", "TZTIMESTAMP", "XMLDATA", "DATA",
             "LANGUAGE", "RESERVED100PLUS", "RESERVED1000PLUS", "RESERVED4000PLUS"]
ALIASES = {"QTY": "QUANTITY", "MULTIPLEVALUECHAR": "MULTIPLECHARVALUE", "MULTIPLESTRINGVALUE": "MULTIPLEVALUESTRING",
           "UTCTIMEONLY": "UTCTIME", "UTCDATEONLY": "UTCDATE"}
PLAIN_TYPES = ["INT", "STRING", "CHAR", "QTY", "PRICE", "BOOLEAN", "SEQNUM", "AMT", "CURRENCY", "UTCTIMESTAMP",
               "LOCALMKTDATE", "EXCHANGE", "FLOAT", "PERCENTAGE", "MONTHYEAR", "TAGNUM", "DAYOFMONTH"]


class SB:
    """Schema builder: allocates field numbers / names, keeps the MsgType realm in step."""

    def __init__(self, rng, major="4", minor="4", rev="0"):
        self.rng = rng
        self.s = {"type": "FIX", "major": major, "minor": minor, "rev": rev, "fields": [], "comps": [],
                  "header": list(STD_HEADER), "trailer": [("f", "CheckSum", True)], "msgs": []}
        self.used = set()
        for num, name, ty in STD_FIELDS:
            self.s["fields"].append({"num": num, "name": name, "type": ty, "vals": []})
            self.used.add(num)
        self.seq = 0

    def fnum(self, lo=1, hi=20000, pair=False):
        while True:
            n = self.rng.randrange(lo, hi)
            if n in self.used or (pair and (n + 1) in self.used) or n in (8, 9, 10, 35):
                continue
            self.used.add(n)
            if pair:
                self.used.add(n + 1)
            return n

    def field(self, ty, name=None, num=None, vals=None, **kw):
        if num is None:
            num = self.fnum(**kw)
        else:
            self.used.add(num)
        self.seq += 1
        name = name or ("%s%d" % (ty.capitalize()[:6], self.seq))
        self.s["fields"].append({"num": num, "name": name, "type": ty, "vals": vals or []})
        return name

    def enum_vals(self, ty, n):
        rng = self.rng
        fam = TYPE_FAMILY.get(ty)
        out = []
        seen = set()
        while len(out) < n:
            if fam == "int":
                v = str(rng.choice([rng.randrange(0, 10), rng.randrange(0, 200), rng.randrange(0, 100000)]))
                keyv = int(v)
            elif fam == "float":
                v = rng.choice(["0.5", "1.5", "2.0", "10.0", "0.25", "100.0", "7.75", "3.0", "12.5", "0.125", "42.0", "1.0"])   # texts fix8 prints back unchanged
                keyv = float(v)
            elif fam == "char":
                v = rng.choice("ABCDEFGHJKLMNPQRSTUVWXYZ0123456789abcdefgh")
                keyv = v
            elif fam == "bool":
                v = "Y" if not out else "N"
                keyv = v
            else:
                v = "".join(rng.choice("ABCDEFGHIJKLMNOPQRSTUVWXYZ0123456789") for _ in range(rng.randrange(1, 5)))
                keyv = v
            if keyv in seen:
                if fam == "bool":
                    break
                continue
            seen.add(keyv)
            desc = rng.choice(["", "Desc_%s" % v, "value %d with spaces" % len(out), "UPPER_%d" % len(out)])
            if desc == "" and fam == "int" and v.startswith("-"):
                desc = "minus_%s" % v[1:]
            out.append((v, desc, False))
        rng.shuffle(out)
        return out

    def message(self, name, msgtype, items, admin=False):
        self.s["msgs"].append({"name": name, "msgtype": msgtype, "msgcat": "admin" if admin else "app", "items": items})

    def finish(self):
        mt = next(f for f in self.s["fields"] if f["num"] == 35)
        mt["vals"] = [(m["msgtype"], m["name"].upper(), False) for m in self.s["msgs"]]
        order = list(self.s["fields"])
        self.rng.shuffle(order)
        self.s["fields"] = order
        return respell(self.s, self.rng)


def respell(s, rng):
    """Vary the SPELLING of the attribute values f8c reads case-insensitively or leniently: msgcat
    (`% "admin"`), component `required` (get_value<bool>), and the texts that all mean "not required" for
    fields and groups (anything but "Y")."""
    def items(its):
        out = []
        for it in its:
            v = it[2]
            if isinstance(v, bool):
                if it[0] == "c":
                    v = rng.choice(["Y", "y", "yes", "YES", "true", "True", "1"] if v else ["N", "n", "no", "false", "0", "FALSE"])
                else:
                    v = "Y" if v else rng.choice(["N", "N", "n", "No", "y", "false"])
            out.append((it[0], it[1], v, items(it[3])) if it[0] == "g" else (it[0], it[1], v))
        return out
    s["header"], s["trailer"] = items(s["header"]), items(s["trailer"])
    s["comps"] = [(n, items(its)) for n, its in s["comps"]]
    for m in s["msgs"]:
        m["items"] = items(m["items"])
        m["msgcat"] = rng.choice(["admin", "Admin", "ADMIN", "aDmIn"] if is_admin(m) else ["app", "APP", "App", "application"])
    return s


def gen_alltypes(rng):
    """Every supported field type, enumerations of every family, nesting to depth 4, a group
    reused by several messages, components (plain, nested, holding a group)."""
    b = SB(rng, "4", rng.choice(["2", "3", "4"]), rng.choice(["0", "1"]))
    b.message("Heartbeat", "0", [("f", "TestReqID", False)], admin=True)
    items = []
    for ty in ALL_TYPES:
        if ty in ("LENGTH", "DATA", "XMLDATA", "NUMINGROUP"):
            continue
        t = ALIASES[ty] if ty in ALIASES and rng.random() < 0.5 else ty
        t = t.lower() if rng.random() < 0.15 else t
        items.append(("f", b.field(t, "T%s" % ty.capitalize()), rng.random() < 0.3))
    n = b.fnum(pair=True)
    items.append(("f", b.field("LENGTH", "RawLen", n), False))
    items.append(("f", b.field("DATA", "RawData", n + 1), False))
    n = b.fnum(pair=True)
    items.append(("f", b.field("LENGTH", "XmlLen", n), True))
    items.append(("f", b.field("XMLDATA", "XmlBody", n + 1), True))
    b.message("AllTypes", "AT", items)
    # enumerations
    eitems = []
    # a <value> list on every family RealmObject::create accepts: int-like, char-like, float-like, string-like
    for ty in ("INT", "CHAR", "STRING", "BOOLEAN", "MULTIPLEVALUESTRING", "SEQNUM", "CURRENCY", "EXCHANGE", "DAYOFMONTH",
               "FLOAT", "QTY", "PRICE", "PRICEOFFSET", "AMT", "PERCENTAGE", "TAGNUM", "NUMINGROUP", "COUNTRY",
               "MULTIPLEVALUECHAR", "LANGUAGE"):
        eitems.append(("f", b.field(ty, "E%s" % ty.capitalize(), vals=b.enum_vals(ty, rng.randrange(2, 9))), rng.random() < 0.5))
    eitems.append(("f", b.field("INT", "ERange", vals=[("10", "lo", True), ("99", "hi", True)]), False))
    eitems.append(("f", b.field("INT", "ENeg", vals=[("5", "five", False), ("-3", "minus", False), ("0", "", False)]), False))
    b.message("Enums", "EN", eitems)
    # groups nested to depth 4
    def grp(depth, maxd):
        cnt = b.field("NUMINGROUP", None)
        sub = [("f", b.field(rng.choice(PLAIN_TYPES)), True)]
        for _ in range(rng.randrange(1, 4)):
            sub.append(("f", b.field(rng.choice(PLAIN_TYPES)), rng.random() < 0.4))
        if depth < maxd:
            sub.insert(rng.randrange(1, len(sub) + 1), grp(depth + 1, maxd))
            if rng.random() < 0.5:
                sub.append(grp(depth + 1, min(maxd, depth + 1)))
        return ("g", cnt, rng.random() < 0.5, sub)
    deep = grp(1, 4)
    b.message("Deep", "DP", [("f", b.field("STRING"), True), deep, ("f", b.field("INT"), False)])
    # one group definition reused, unchanged, by several messages
    shared = grp(1, 2)
    for k in range(3):
        its = [("f", b.field("STRING"), k == 0)]
        its.insert(rng.randrange(0, 2), shared)
        b.message("Reuse%d" % k, "R%d" % k, its)
    # one count field with a definition used ONCE and a definition REUSED (different member sets, hence
    # different hashes and different version numbers V<n>), in both hash orders
    for tag, once_smaller in (("Vlo", True), ("Vhi", False)):
        cnt = b.field("NUMINGROUP", "No%s" % tag)
        d1 = [b.field("STRING"), b.field("INT")]
        d2 = [b.field("STRING"), b.field("QTY"), b.field("CHAR")]
        num = {f["name"]: f["num"] for f in b.s["fields"]}
        h1, h2 = flat_hash([num[x] for x in d1]), flat_hash([num[x] for x in d2])
        lo, hi = (d1, d2) if h1 < h2 else (d2, d1)
        once, reused = (lo, hi) if once_smaller else (hi, lo)
        g_once = ("g", cnt, False, [("f", x, k == 0) for k, x in enumerate(once)])
        g_re = ("g", cnt, True, [("f", x, k == 0) for k, x in enumerate(reused)])
        b.message("%sOnce" % tag, "%s1" % tag[1:].upper(), [("f", b.field("STRING"), True), g_once])
        b.message("%sReA" % tag, "%s2" % tag[1:].upper(), [g_re, ("f", b.field("STRING"), False)])
        b.message("%sReB" % tag, "%s3" % tag[1:].upper(), [("f", b.field("INT"), False), g_re])
    # components
    inner = [("f", b.field("STRING", "InnerA"), True), ("f", b.field("INT", "InnerB"), False)]
    withgrp = [("f", b.field("STRING", "CgA"), True), grp(1, 2)]
    outer = [("f", b.field("PRICE", "OuterP"), True), ("c", "Inner", True), ("f", b.field("QTY", "OuterQ"), False)]
    b.s["comps"] = [("Outer", outer), ("Inner", inner), ("WithGroup", withgrp)]
    b.message("CompA", "CA", [("f", b.field("STRING"), True), ("c", "Outer", True), ("c", "WithGroup", False)])
    b.message("CompB", "CB", [("c", "Inner", False), ("f", b.field("STRING"), False), ("c", "WithGroup", True)])
    gfield = b.field("NUMINGROUP", "NoCompGrp")
    b.message("CompInGroup", "CG", [("g", gfield, True, [("f", b.field("STRING"), True), ("c", "Inner", rng.random() < 0.5)])])
    return b.finish()


def gen_random(rng, size=1.0):
    b = SB(rng, "4", rng.choice(["2", "4"]))
    npool = int(rng.randrange(25, 60) * size)
    pool = []
    for _ in range(npool):
        ty = rng.choice(PLAIN_TYPES + ["STRING", "INT"])
        vals = b.enum_vals(ty, rng.randrange(2, 7)) if (TYPE_FAMILY.get(ty) in ("int", "char", "bool", "float") or ty in ("STRING", "CURRENCY", "EXCHANGE")) and rng.random() < 0.3 else []
        pool.append(b.field(ty, vals=vals))
    rng.shuffle(pool)
    free = list(pool)

    def take(k):
        out = []
        for _ in range(min(k, len(free))):
            out.append(free.pop())
        return out

    def mkgroup(depth):
        cnt = b.field("NUMINGROUP")
        names = take(rng.randrange(1, 5)) or [b.field("STRING")]
        sub = [("f", nm, (k == 0) or rng.random() < 0.3) for k, nm in enumerate(names)]
        if depth < 3 and rng.random() < 0.45:
            sub.insert(rng.randrange(1, len(sub) + 1), mkgroup(depth + 1))
        return ("g", cnt, rng.random() < 0.4, sub)

    groups = [mkgroup(1) for _ in range(rng.randrange(1, 5))]
    comps = []
    for k in range(rng.randrange(0, 4)):
        names = take(rng.randrange(1, 4)) or [b.field("STRING")]
        its = [("f", nm, rng.random() < 0.5) for nm in names]
        if comps and rng.random() < 0.5:
            its.insert(rng.randrange(0, len(its) + 1), ("c", rng.choice(comps)[0], True))
        if rng.random() < 0.4:
            its.append(mkgroup(2))
        comps.append(("Comp%d" % k, its))
    b.s["comps"] = list(comps)
    rng.shuffle(b.s["comps"])
    b.message("Heartbeat", "0", [("f", "TestReqID", False)], admin=True)
    nm = rng.randrange(3, 8)
    toplevel = [c for c in comps]
    for k in range(nm):
        its = [("f", x, rng.random() < 0.4) for x in take(rng.randrange(1, 6))]
        if not its:
            its = [("f", b.field("STRING"), True)]
        usedc = set()
        for g in rng.sample(groups, rng.randrange(0, min(3, len(groups)) + 1)):
            its.insert(rng.randrange(0, len(its) + 1), g)
        if toplevel and rng.random() < 0.6:
            # components whose (transitive) contents are disjoint: use at most one top-level chain
            c = rng.choice(toplevel)
            its.insert(rng.randrange(0, len(its) + 1), ("c", c[0], True))
        mt = rng.choice(["", "U"]) + "ABCDEFGHJKLMNPQRSTVWXYZ"[k] + rng.choice(["", "1", "x"])
        b.message("Msg%d" % k, mt, its, admin=(rng.random() < 0.2))
    s = b.finish()
    # a message tree must not use one field number twice: drop offending messages
    xs = XS(s)

    def nums(items, acc):
        for it in items:
            acc.append(it[1]["num"])
            if it[0] == "g":
                nums(it[3], acc)
        return acc
    keep = []
    for m in s["msgs"]:
        ns = nums(xs.expand(m["items"]), [])
        if len(ns) == len(set(ns)):
            keep.append(m)
    s["msgs"] = keep
    mt = next(f for f in s["fields"] if f["num"] == 35)
    mt["vals"] = [(m["msgtype"], m["name"].upper(), False) for m in s["msgs"]]
    return s


def gen_fixt(rng):
    """A FIXT-mode pair in its merged view (src 'genx'): transport = header with ~HopGrp, trailer, admin
    messages (Logon uses ~MsgTypeGrp); the application REDEFINES a component called HopGrp (NoHops with
    other members) and uses it in a message, and as a control defines NoMsgTypes differently under
    another component name."""
    b = SB(rng, "1", "1")
    b.s["type"] = "FIXT"
    hop = [b.field("STRING", "HopCompID", num=628), b.field("UTCTIMESTAMP", "HopSendingTime", num=629),
           b.field("SEQNUM", "HopRefID", num=630)]
    nohops = b.field("NUMINGROUP", "NoHops", num=627)
    mtg = [b.field("STRING", "RefMsgType", num=372), b.field("CHAR", "MsgDirection", num=385)]
    nomt = b.field("NUMINGROUP", "NoMsgTypes", num=384)
    b.s["header"] = list(STD_HEADER) + [("c", TMARK + "HopGrp", False)]
    tcomps = [(TMARK + "HopGrp", [("g", nohops, False, [("f", hop[0], False), ("f", hop[1], False), ("f", hop[2], False)])]),
              (TMARK + "MsgTypeGrp", [("g", nomt, False, [("f", mtg[0], False), ("f", mtg[1], False)])])]
    b.message("Heartbeat", "0", [("f", "TestReqID", False)], admin=True)
    b.message("Logon", "A", [("f", b.field("INT", "EncryptMethod", num=98), True), ("f", b.field("INT", "HeartBtInt", num=108), True),
                             ("c", TMARK + "MsgTypeGrp", False)], admin=True)
    extra = [b.field("STRING", "HopVenue"), b.field("INT", "HopLatency")]
    variant = rng.randrange(3)
    if variant == 0:      # an added member
        amem = [("f", hop[0], True), ("f", hop[1], False), ("f", hop[2], False), ("f", extra[0], False)]
    elif variant == 1:    # another member
        amem = [("f", hop[0], True), ("f", extra[1], False), ("f", hop[2], False)]
    else:                 # other members in front
        amem = [("f", extra[0], True), ("f", hop[0], False), ("f", extra[1], False)]
    acomps = [("HopGrp", [("f", b.field("STRING", "RouteID"), False), ("g", nohops, False, amem)]),
              ("RouteGrp", [("g", nomt, True, [("f", mtg[0], True), ("f", b.field("STRING", "RouteApp"), False)])])]
    b.s["comps"] = tcomps + acomps
    pad = [b.field(rng.choice(PLAIN_TYPES)) for _ in range(12)]
    b.message("RouteReport", "UR", [("f", pad[0], True), ("c", "HopGrp", True), ("f", pad[1], False)])
    b.message("TypeReport", "UT", [("c", "RouteGrp", True), ("f", pad[2], True)] + [("f", x, False) for x in pad[3:8]])
    b.message("PlainReport", "UP", [("f", x, k == 0) for k, x in enumerate(pad[8:])])
    return b.finish()


# ------------------------------------------------------------------------------ C14 scenarios
def rot_l(r):
    return (r ^ (r >> 2) ^ ((r << 5) & 0xffffffff) ^ ((r << 13) & 0xffffffff)) & 0xffffffff


def rothash_py(r, v):
    return (rot_l(r) ^ v ^ 0x80001801) & 0xffffffff


def flat_hash(nums):
    """group_hash of a definition without nested groups (generator side: only used to choose field
    numbers; every verdict comes from the Coq model)."""
    r = 0
    for n in sorted(nums):
        r = rothash_py(r, n)
    return r


def solve_high16(rng, used):
    """Two 2-member definitions {a,b}, {c,d} (a<b, c<d) whose 32-bit hashes differ, but only in the
    HIGH 16 bits: h1 xor h2 = L(a xor c) xor b xor d, so d = b xor low16(L(a xor c)) with a xor c >= 8."""
    while True:
        a = rng.randrange(1, 30000)
        c = a ^ rng.randrange(8, 4096)
        b = rng.randrange(max(a, c) + 1, 65000)
        d = b ^ (rot_l(a ^ c) & 0xffff)
        quad = {a, b, c, d}
        if c < 1 or not (c < d < 65536) or len(quad) != 4 or quad & used or quad & {8, 9, 10, 35}:
            continue
        x = flat_hash([a, b]) ^ flat_hash([c, d])
        if x & 0xffff == 0 and x >> 16:
            return a, b, c, d


def solve_collision(rng):
    """{a,b} and {c,d}, a<b, c<d, all different, with rothash(rothash(0,a),b) == rothash(rothash(0,c),d):
    d = L(a xor c) xor b (derived from c14_rothash_linear)."""
    while True:
        a = rng.randrange(1, 5000)
        c = a ^ rng.randrange(1, 8)
        b = rng.randrange(a + 1, 60000)
        d = rot_l(a ^ c) ^ b
        if c < 1 or not (c < d < 65536) or len({a, b, c, d}) != 4 or {8, 9, 10, 35} & {a, b, c, d}:
            continue
        return a, b, c, d


def gen_c14(rng, fixed_pair=True):
    """One schema holding every reuse scenario under its own count field.  Scenario messages come
    in (first, second) pairs: the second one's definition differs from the first one's."""
    b = SB(rng, "4", "2")
    b.message("Heartbeat", "0", [("f", "TestReqID", False)], admin=True)
    k = [0]

    def pair(tag, g1, g2, extra1=None, extra2=None):
        k[0] += 1
        pre = b.field("STRING")
        post = b.field("INT")
        b.message("%sFirst" % tag, "a%d" % k[0], [("f", pre, False), g1, ("f", post, False)] + (extra1 or []))
        b.message("%sSecond" % tag, "b%d" % k[0], [g2, ("f", pre, True)] + (extra2 or []))

    # solved hash collision, the pair from DESIGN (F18) and a freshly solved one
    for nm, quad in (("Coll", (1, 24676, 2, 7) if fixed_pair else solve_collision(rng)), ("CollR", solve_collision(rng))):
        a, bb, c, d = quad
        while {a, bb, c, d} & b.used:
            a, bb, c, d = solve_collision(rng)
        fa, fb = b.field("STRING", num=a), b.field("STRING", num=bb)
        fc, fd = b.field("STRING", num=c), b.field("INT", num=d)
        cnt = b.field("NUMINGROUP")
        pair(nm, ("g", cnt, False, [("f", fa, True), ("f", fb, False)]),
             ("g", cnt, True, [("f", fc, True), ("f", fd, True)]))
    # same members, other order
    cnt = b.field("NUMINGROUP")
    m = [b.field("STRING"), b.field("INT"), b.field("CHAR")]
    pair("Order", ("g", cnt, False, [("f", m[0], True), ("f", m[1], False), ("f", m[2], False)]),
         ("g", cnt, False, [("f", m[2], True), ("f", m[0], False), ("f", m[1], False)]))
    # same members and order, other required flags (both directions)
    cnt = b.field("NUMINGROUP")
    m = [b.field("STRING"), b.field("INT"), b.field("QTY")]
    pair("Flags", ("g", cnt, False, [("f", m[0], True), ("f", m[1], True), ("f", m[2], False)]),
         ("g", cnt, False, [("f", m[0], True), ("f", m[1], False), ("f", m[2], True)]))
    # nested definitions differ (order of the nested group's members), outer members equal
    cnt, ncnt = b.field("NUMINGROUP"), b.field("NUMINGROUP")
    m = [b.field("STRING"), b.field("INT")]
    nmem = [b.field("STRING"), b.field("PRICE")]
    pair("Nested", ("g", cnt, True, [("f", m[0], True), ("g", ncnt, False, [("f", nmem[0], True), ("f", nmem[1], False)]), ("f", m[1], False)]),
         ("g", cnt, True, [("f", m[0], True), ("g", ncnt, False, [("f", nmem[1], True), ("f", nmem[0], True)]), ("f", m[1], False)]))
    # definitions that differ ONLY inside a nested group (depth 2) or a nested-nested group (depth 3):
    # the structural hash must recurse into them.  Another / an added nested member changes the hash
    # (no sharing, each message keeps its own nested classes); another required flag inside the nested
    # group does not (finding F18, like the order variant above)
    def nest_pair(tag, depth, variant):
        cnts = [b.field("NUMINGROUP") for _ in range(depth)]
        outer = [[b.field("STRING"), b.field("INT")] for _ in range(depth - 1)]
        if variant == "high16":
            # nested definitions whose hashes differ only in the high 16 bits (solved from the linear form)
            qa, qb, qc, qd = solve_high16(rng, b.used)
            inner = [b.field("STRING", num=qa), b.field("INT", num=qb), b.field("STRING", num=qc), b.field("INT", num=qd)]
        else:
            inner = [b.field("STRING"), b.field("PRICE"), b.field("INT")]

        def build(which):
            if variant == "high16":
                leaf = [("f", inner[2 * which], True), ("f", inner[2 * which + 1], False)]
            elif variant == "member":
                leaf = [("f", inner[0], True), ("f", inner[1] if which == 0 else inner[2], False)]
            elif variant == "added":
                leaf = [("f", inner[0], True), ("f", inner[1], False)] + ([("f", inner[2], False)] if which else [])
            else:  # flag
                leaf = [("f", inner[0], True), ("f", inner[1], which == 1)]
            g = ("g", cnts[-1], False, leaf)
            for lvl in range(depth - 2, -1, -1):
                g = ("g", cnts[lvl], lvl == 0, [("f", outer[lvl][0], True), g, ("f", outer[lvl][1], False)])
            return g
        pair(tag, build(0), build(1))
    nest_pair("NestMember", 2, "member")
    nest_pair("NestAdded", 2, "added")
    nest_pair("NestFlag", 2, "flag")
    nest_pair("DeepMember", 3, "member")
    nest_pair("DeepAdded", 3, "added")
    nest_pair("NestHigh", 2, "high16")
    nest_pair("DeepHigh", 3, "high16")
    # ONE message using a count field at two places with two different definitions (message level +
    # nested at depth 1 / depth 2, two sibling groups), and the control where both are the same
    def twice(tag, shape, same=False):
        k[0] += 1
        cf, cl, cm, cs = (b.field("NUMINGROUP") for _ in range(4))
        f = [b.field("STRING"), b.field("INT"), b.field("QTY"), b.field("CHAR")]
        l = [b.field("STRING"), b.field("INT"), b.field("STRING"), b.field("STRING")]
        da = ("g", cf, False, [("f", f[0], True), ("f", f[1], False)])
        db = da if same else ("g", cf, True, [("f", f[0], True), ("f", f[2], False), ("f", f[3], True)])
        if shape == 1:
            its = [("f", l[3], False), da, ("g", cl, False, [("f", l[0], True), db, ("f", l[1], False)])]
        elif shape == 2:
            its = [da, ("g", cl, True, [("f", l[0], True), ("g", cs, False, [("f", l[2], True), db])]), ("f", l[3], False)]
        else:
            its = [("g", cl, False, [("f", l[0], True), da]), ("f", l[3], True), ("g", cm, False, [("f", l[2], True), db])]
        b.message("%sTwice" % tag, "t%d" % k[0], its)
    twice("Level1", 1)
    twice("Level2", 2)
    twice("Sibling", 3)
    twice("SameDef", 1, same=True)
    # controls: identical definitions (sharing is legitimate), and different members (no sharing)
    cnt = b.field("NUMINGROUP")
    m = [b.field("STRING"), b.field("INT")]
    g = ("g", cnt, False, [("f", m[0], True), ("f", m[1], False)])
    pair("Same", g, g)
    cnt = b.field("NUMINGROUP")
    m = [b.field("STRING"), b.field("INT"), b.field("STRING"), b.field("INT")]
    pair("Diff", ("g", cnt, False, [("f", m[0], True), ("f", m[1], False)]),
         ("g", cnt, False, [("f", m[2], True), ("f", m[3], True), ("f", m[0], False)]))
    return b.finish()
