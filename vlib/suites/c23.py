"""C23 — logon acceptance and CompID identity are enforced consistently."""
import threading

from vlib import build as B
from vlib import core
from vlib.core import Case
from vlib.suites import _sess as S

ID = "C23"
LEVEL = "proof"
TECHNIQUE = ("Coq proof (symbolic execution of Session::process on an inbound Logon through the state/exception monad of the "
             "shared hand-written session model, for all CompID strings, flags, client lists, persisters and decoders; exact "
             "characterisation of the modelled SessionID operators) about hand-written Gallina models (coq/Sess, coq/C23/SessionID.v); "
             "models tied to the code by differential execution: the real FIX8::Session over an in-memory socket, and the real "
             "SessionID::operator== / operator!= / same_*_comp_id, against the extracted models")
LEVEL_TEXT = ("Theorems: c23_acceptor_refuses / c23_acceptor_accepts / c23_acceptor_only (an acceptor completes a logon iff, under "
              "enforcement, TargetCompID equals its own CompID and, with a client list, the sender is listed -- given the expected "
              "sequence number; it answers with a Logon echoing HeartBtInt, adopts the interval and the identity, and resets both "
              "numbers to 1 on ResetSeqNumFlag=Y), c23_eq_char, c23_neq (a != b = not (a == b), for all identities) / c23_neq_char, "
              "c23_neq_orig_refuted (the operator before ab2c959 was the conjunction of the component inequalities), c23_initiator "
              "(under enforcement a response with TargetCompID or SenderCompID wrong -- either one -- is a mismatch), "
              "c23_initiator_only / c23_initiator_accepts (it completes exactly for a mirrored response with the expected number).")
LEVEL_NOTE = ("Trusted: Coq kernel, extraction, the hand transcriptions coq/Sess/*.v and coq/C23/SessionID.v (checked by the "
              "correspondence run), the harnesses. authenticate() = true, no SessionConfig, no client IP restriction, no login "
              "schedule. The theorems are about the models; the defect F28 was repaired in /repo (ab2c959) and is listed as fixed.")
DESIGN_REF = "DESIGN.md section 4, C23"
PROPS_FILE = "Props/Properties_C23.v"
COQ_TARGETS = ["Props/Properties_C23.vo", "Extract/Extract_C23.vo"]
TRUSTED_BASE = ["Coq 8.16.1 kernel (coqc), vm_compute only for closed witnesses",
                "Extraction with ExtrOcamlBasic, no Extract Constant; OCaml 4.13.1",
                "hand-written models coq/Sess/*.v (Session::handle_logon, compid_check, enforce, process) and coq/C23/SessionID.v "
                "(SessionID comparison members), tied by differential execution",
                "ocaml/prelude.ml + ocaml/c23_driver.ml, harness/h_sess.cpp + sess_harness.hpp + vsock.hpp + vclock.cpp, "
                "harness/h_c23.cpp, vlib",
                "g++ 12 -fsanitize=address,undefined"]
ASSUMPTIONS = ["authenticate() returns true; no SessionConfig (_sf), no login schedule, clients without IP restriction",
               "threaded process model; the Logon is well-formed (the decoder accepts it)",
               "operator== / operator!= are applied to two distinct objects (the this == &that shortcut is tested separately)"]
RULE = ("SessionID members on ALL pairs of identities over the CompID alphabet {A, AB, B, a} (exhaustive, 256) and over "
        "{A, A->B, B->C, C, ->, empty, FIX.4.2} (exhaustive, 2401: the characters of the printable id, identities that print "
        "identically), random re-splits of one text at different '->', random longer strings; logon histories with such "
        "identities (own CompID containing '->', '-', '>', ':' or BeginString-like text, responses that are a different split of "
        "the same printable id); CompIDs, TargetCompIDs and client names that differ only in letter case; logon histories: acceptor with own CompID x Logon SenderCompID x TargetCompID over {A, AB, B} x enforce_compids x "
        "client list (absent / containing / not containing the sender) x ResetSeqNumFlag (absent / Y), plus ResetSeqNumFlag=N, "
        "reset_sequence_numbers, send/recv_seqnum arguments, other HeartBtInt values, out-of-sequence logons, traffic before the logon, "
        "file persister with restart; initiator with identity x response CompIDs over the alphabet x enforce_compids, plus reset_sequence_numbers / "
        "recv_seqnum / out-of-sequence; half of the cases continue with a Heartbeat on the established session. "
        "non-trivial = identities that differ, or a Logon that was processed; distinct = distinct case lines")

NSHARDS = 6
IDS = ["A", "AB", "B"]
SID_IDS = ["A", "AB", "B", "a"]
# CompIDs made of the characters the printable session id "<Begin>:<sender>-><target>" itself uses
SID_SPECIAL = ["A", "A->B", "B->C", "C", "->", "", "FIX.4.2"]
# (sender, target) pairs that print identically: different splits of the same text
AMBIGUOUS = [(("A->B", "C"), ("A", "B->C")),
             (("X->", "Y"), ("X", "->Y")),
             (("P", "Q->R->S"), ("P->Q->R", "S")),
             (("P->Q", "R->S"), ("P", "Q->R->S")),
             (("FIX.4.2", "A->B"), ("FIX.4.2->A", "B")),
             (("A-", ">B"), ("A", "->B")),
             (("M", "N:->O"), ("M->N:", "O"))]
T0 = S.T0


def build(tier):
    b = S.build_sess()
    b["sid"] = [B.harness("h_c23", runtime=None)]
    return b


def run_impl(built, cases, tier):
    """SID lines go to h_c23, histories to h_sess (sharded: ~20 ms per session instance)."""
    lines = [c.line for c in cases]
    res = [None] * len(lines)
    sid_idx = [i for i, l in enumerate(lines) if l.startswith("SID ")]
    his_idx = [i for i, l in enumerate(lines) if not l.startswith("SID ")]
    n = min(NSHARDS, max(1, len(his_idx) // 50))

    def work_sid():
        out = core.run_lines(built["sid"], [lines[i] for i in sid_idx], env=built.get("env"))
        for i, r in zip(sid_idx, out):
            res[i] = r

    def work(k):
        idx = his_idx[k::n]
        out = core.run_lines(built["impl"], [lines[i] for i in idx], env=built.get("env"),
                             per_case_timeout=built.get("per_case_timeout", 30), timeout_per_batch=1500)
        for i, r in zip(idx, out):
            res[i] = r

    core.run_dir()
    ths = [threading.Thread(target=work, args=(k,)) for k in range(n)]
    if sid_idx:
        ths.append(threading.Thread(target=work_sid))
    for t in ths:
        t.start()
    for t in ths:
        t.join()
    return res


# ------------------------------------------------------------------------------------ cases
def sid_case(s1, t1, s2, t2, cls):
    return Case("SID %s %s %s %s" % (S.hx(s1), S.hx(t1), S.hx(s2), S.hx(t2)), cls)


def logon_msg(seq, sender, target, hb=30, reset=None, now=T0, extra=()):
    body = [(98, 0), (108, hb)]
    if reset is not None:
        body.append((141, reset))
    return S.fixmsg("A", seq, sender, target, body + list(extra), now=now)


def acceptor_case(own, snd, tgt, ec, clients, reset, hb=30, seq=None, rsn=0, ss=0, rs=0, persist="none", follow=False, hbcfg=30,
                  pre=0):
    p = ["START", "A", persist, "sid=%s:%s" % (own, "PEER"), "asa=0", "ec=%d" % ec, "hb=%d" % hbcfg]
    if rsn:
        p.append("rsn=1")
    if ss:
        p.append("ss=%d" % ss)
    if rs:
        p.append("rs=%d" % rs)
    if clients:
        p.append("clients=" + ",".join(clients))
    exp = 1 if reset == "Y" else (rs or 1 + pre)
    n = exp if seq is None else seq
    ops = [" ".join(p)]
    for k in range(pre):        # traffic before the logon: the numbers move away from 1
        if k % 2 == 0:
            ops.append("IN " + S.fixmsg("1", k + 1, snd, tgt, [(112, "PRE%d" % k)]).hex())
        else:
            ops.append("IN " + S.fixmsg("0", k + 1, snd, tgt).hex())
    ops.append("IN " + logon_msg(n, snd, tgt, hb, reset).hex())
    if follow:
        ops.append("CLOCK %d" % (T0 + 10**9))
        ops.append("IN " + S.fixmsg("0", n + 1, snd, tgt, now=T0 + 10**9).hex())
    return "|".join(ops)


def initiator_case(own_s, own_t, snd, tgt, ec, rsn=0, rs=0, seq=None, hb=30, follow=False, persist="none"):
    p = ["START", "I", persist, "sid=%s:%s" % (own_s, own_t), "asa=0", "ec=%d" % ec, "hb=30"]
    if rsn:
        p.append("rsn=1")
    if rs:
        p.append("rs=%d" % rs)
    exp = 1 if rsn else (rs or 1)
    n = exp if seq is None else seq
    ops = [" ".join(p), "IN " + logon_msg(n, snd, tgt, hb).hex()]
    if follow:
        ops.append("CLOCK %d" % (T0 + 10**9))
        ops.append("IN " + S.fixmsg("0", n + 1, snd, tgt, now=T0 + 10**9).hex())
    return "|".join(ops)


def client_lists(snd):
    others = [x for x in IDS if x != snd]
    return [None, [snd, others[0]], others]


def gen_cases(rng, tier):
    cs = []
    thorough = tier == "thorough"

    def add(line, cls):
        cs.append(Case(line, cls))

    # (1) identities: all pairs over the alphabet
    for s1 in SID_IDS:
        for t1 in SID_IDS:
            for s2 in SID_IDS:
                for t2 in SID_IDS:
                    cs.append(sid_case(s1, t1, s2, t2, "sid-exhaustive"))
    for _ in range(300 if thorough else 60):
        w = [S.word(rng, 1, 12) for _ in range(4)]
        k = rng.randrange(5)
        if k == 0:
            w[2], w[3] = w[0], w[1]
        elif k == 1:
            w[2] = w[0]
        elif k == 2:
            w[3] = w[1]
        elif k == 3:
            w[2], w[3] = w[1], w[0]
        cs.append(sid_case(w[0], w[1], w[2], w[3], "sid-random"))
    # identities over the id syntax's own characters: all pairs, plus random re-splits of one text
    for s1 in SID_SPECIAL:
        for t1 in SID_SPECIAL:
            for s2 in SID_SPECIAL:
                for t2 in SID_SPECIAL:
                    cs.append(sid_case(s1, t1, s2, t2, "sid-special"))
    for (a, b) in AMBIGUOUS:
        cs.append(sid_case(a[0], a[1], b[0], b[1], "sid-ambiguous"))
        cs.append(sid_case(b[0], b[1], a[0], a[1], "sid-ambiguous"))
    for _ in range(400 if thorough else 120):
        parts = [rng.choice(["A", "B", "C", "", ":", "-", ">", "FIX.4.2", "x"]) for _ in range(rng.randint(2, 5))]
        text = "->".join(parts)
        cuts = [i for i in range(len(text) - 1) if text[i:i + 2] == "->"]
        i, j = rng.choice(cuts), rng.choice(cuts)
        cs.append(sid_case(text[:i], text[i + 2:], text[:j], text[j + 2:], "sid-ambiguous"))
    cs.append(sid_case("", "", "", "", "sid-random"))
    cs.append(sid_case("", "A", "", "B", "sid-random"))

    # (2) acceptor: all combinations
    for own in IDS:
        for snd in IDS:
            for tgt in IDS:
                for ec in (0, 1):
                    for cl in client_lists(snd):
                        for reset in (None, "Y"):
                            add(acceptor_case(own, snd, tgt, ec, cl, reset, follow=rng.random() < 0.5,
                                              hb=rng.choice([30, 30, 5, 1, 60, 45])), "acceptor-all")
    # variations: ResetSeqNumFlag=N, reset_sequence_numbers, seqnum arguments, out of sequence, other intervals
    for _ in range(400 if thorough else 110):
        own, snd = rng.choice(IDS), rng.choice(IDS)
        tgt = own if rng.random() < 0.7 else rng.choice(IDS)
        ec = rng.randrange(2)
        cl = rng.choice(client_lists(snd))
        reset = rng.choice([None, "Y", "N", "Y"])
        ss, rs = rng.choice([(0, 0), (7, 4), (0, 5), (3, 0)])
        exp = 1 if reset == "Y" else (rs or 1)
        seq = rng.choice([None, None, None, exp + rng.randint(1, 3), max(1, exp - 1)])
        hb = rng.choice([30, 0, 1, 7, 100, 3600, "030"])
        add(acceptor_case(own, snd, tgt, ec, cl, reset, hb=hb, seq=seq, rsn=rng.randrange(2), ss=ss, rs=rs,
                          follow=rng.random() < 0.5, hbcfg=rng.choice([30, 10])), "acceptor-variation")
    # traffic before the logon: only then does ResetSeqNumFlag=Y change anything for a fresh acceptor
    for _ in range(120 if thorough else 36):
        own, snd = rng.choice(IDS), rng.choice(IDS)
        reset = rng.choice([None, "Y", "Y"])
        pre = rng.randint(1, 3)
        add(acceptor_case(own, snd, own if rng.random() < 0.8 else rng.choice(IDS), rng.randrange(2), rng.choice(client_lists(snd)),
                          reset, pre=pre, rs=rng.choice([0, 0, 0, 5]), follow=rng.random() < 0.5), "acceptor-pre-traffic")
    # file persister: the second session recovers its numbers from the control record
    for _ in range(60 if thorough else 16):
        own, snd = rng.choice(IDS), rng.choice(IDS)
        reset2 = rng.choice([None, "Y"])
        ops = ["START A file sid=%s:PEER asa=0 ec=1 hb=30" % own,
               "IN " + logon_msg(1, snd, own).hex(),
               "IN " + S.fixmsg("0", 2, snd, own).hex(),
               "RESTART",
               "IN " + logon_msg(1 if reset2 == "Y" else rng.choice([3, 3, 1, 4]), snd, rng.choice([own, own, rng.choice(IDS)]),
                                 reset=reset2).hex()]
        add("|".join(ops), "acceptor-file-restart")

    # identities that print identically / use the id syntax's characters: the comparison is on the pair
    for (a, b) in AMBIGUOUS:
        for own, other in ((a, b), (b, a)):
            for ec in (1, 1, 0):
                # the response mirrors `other` (same printable id as own, both CompIDs wrong), own, or one of each
                add(initiator_case(own[0], own[1], other[1], other[0], ec, follow=rng.random() < 0.5), "initiator-ambiguous")
            add(initiator_case(own[0], own[1], own[1], own[0], 1, follow=True), "initiator-ambiguous")
            add(initiator_case(own[0], own[1], other[1], own[0], 1), "initiator-ambiguous")
            add(initiator_case(own[0], own[1], own[1], other[0], 1), "initiator-ambiguous")
            if ":" not in own[0]:
                # acceptor whose own CompID / client names use those characters
                add(acceptor_case(own[0], own[1], own[0], 1, rng.choice([None, [own[1]], [other[1]]]), rng.choice([None, "Y"]),
                                  follow=True), "acceptor-ambiguous")
                add(acceptor_case(own[0], other[1], other[0], 1, rng.choice([None, [own[1]], [other[1]]]), None), "acceptor-ambiguous")
    for own in ("FIX.4.2", "->", "-", ">", "A:B"[:1] + "-"):
        add(acceptor_case(own, "FIX.4.2", own, 1, None, None, follow=True), "acceptor-ambiguous")
        add(initiator_case(own, "FIX.4.2:X", "FIX.4.2:X", own, 1, follow=True), "initiator-ambiguous")
        add(initiator_case(own, "FIX.4.2:X", "X", "FIX.4.2:" + own, 1), "initiator-ambiguous")

    # CompIDs that differ only in letter case are different CompIDs (fix8 has a case-insensitive string match, operator%)
    CASES = ["SRV", "Srv", "srv"]
    for own in CASES:
        for tgt in CASES:
            for ec in (0, 1):
                for cl in (None, ["CLI"], ["cli", "Cli"]):
                    add(acceptor_case(own, "CLI", tgt, ec, cl, rng.choice([None, "Y"]), follow=rng.random() < 0.5), "case-variants")
    for snd in CASES:
        for tgt in ["CLI", "Cli", "cli"]:
            for ec in (0, 1):
                add(initiator_case("Cli", "Srv", snd, tgt, ec, follow=rng.random() < 0.5), "case-variants")

    # (3) initiator: all combinations
    for own_s in IDS:
        for own_t in IDS:
            for snd in IDS:
                for tgt in IDS:
                    for ec in (0, 1):
                        add(initiator_case(own_s, own_t, snd, tgt, ec, follow=rng.random() < 0.5), "initiator-all")
    for _ in range(200 if thorough else 50):
        own_s, own_t = rng.choice(IDS), rng.choice(IDS)
        k = rng.randrange(4)
        snd, tgt = own_t, own_s
        if k == 1:
            snd = rng.choice(IDS)
        elif k == 2:
            tgt = rng.choice(IDS)
        elif k == 3:
            snd, tgt = rng.choice(IDS), rng.choice(IDS)
        rsn = rng.randrange(2)
        rs = rng.choice([0, 0, 6])
        exp = 1 if rsn else (rs or 1)
        seq = rng.choice([None, None, None, exp + rng.randint(1, 3), max(1, exp - 1)])
        add(initiator_case(own_s, own_t, snd, tgt, rng.randrange(2), rsn=rsn, rs=rs, seq=seq,
                           hb=rng.choice([30, 5, 60]), follow=rng.random() < 0.5,
                           persist=rng.choice(["none", "none", "mem", "file"])), "initiator-variation")
    return cs


def EXHAUSTIVE(tier):
    return False


# ------------------------------------------------------------------------------------ reading cases
def fields(raw):
    return dict(p.split(b"=", 1) for p in raw.split(b"\x01") if b"=" in p)


def first_logon(line):
    """(role, own sender, own target, ec, fields of the first inbound message) of a history."""
    ops = line.split("|")
    toks = ops[0].split()
    if toks[0] != "START":
        return None
    role = toks[1]
    snd, tgt, ec = ("CLI", "SRV", 1) if role == "I" else ("SRV", "CLI", 1)
    for t in toks[3:]:
        if t.startswith("sid="):
            snd, _, tgt = t[4:].partition(":")
        elif t.startswith("ec="):
            ec = int(t[3:])
    for o in ops[1:]:
        if o.startswith("IN "):
            f = fields(bytes.fromhex(o.split()[1].split(",")[0]))
            return role, snd.encode(), tgt.encode(), ec, f
        if o.startswith(("RESTART", "START")):
            break
    return None


def nontrivial(case, r):
    if case.line.startswith("SID "):
        w = case.line.split()
        return w[1] != w[3] or w[2] != w[4]
    return " | " in r and "RET " in r.split(" | ", 1)[1]


def c_one_compid_differs(case, r, m):
    """F28 (fixed in ab2c959; the entry suppresses nothing any more): the two identities differ in exactly one
    CompID (a SID line, or the Logon response an initiator with enforce_compids gets)."""
    if case.line.startswith("SID "):
        w = case.line.split()
        return len(w) == 5 and ((w[1] != w[3]) != (w[2] != w[4]))
    fl = first_logon(case.line)
    if not fl:
        return False
    role, snd, tgt, ec, f = fl
    if role != "I" or not ec or f.get(b"35") != b"A":
        return False
    return (f.get(b"56", b"") != snd) != (f.get(b"49", b"") != tgt)


CLASSIFIERS = {"one-compid-differs": c_one_compid_differs}


def extra_search(rng, seeds, tier):
    out = gen_cases(rng, "quick")
    rng.shuffle(out)
    return out[:1500]


def shrink(case):
    ops = case.line.split("|")
    if case.line.startswith("SID ") or len(ops) <= 2:
        return []
    return [Case("|".join(ops[:k]), "shrink") for k in range(len(ops) - 1, 1, -1)]
