"""C05 — permissive decoding passes unknown fields through unchanged."""
from vlib import build as B
from vlib import codecgen as G
from vlib.core import Case
from vlib.suites import _c05c06 as H

ID = "C05"
LEVEL = "proof"
TECHNIQUE = ("Coq proof about the hand-written Gallina model of MessageBase::decode / Message::decode / Message::factory "
             "(coq/Codec/Decode.v): simulation between the permissive and the strict run of the decode loop "
             "(coq/C05/PermProofs.v), refutations by computed witnesses; the property is an independent executable "
             "predicate on observations (coq/C05/Spec_C05.v); the model is tied to the real decoder/encoder by differential "
             "execution on schema-conforming messages with unknown tokens inserted at every position")
LEVEL_TEXT = ("see coq/Props/Properties_C05.v: c05_values_partial is proved for all byte strings and schemas about the model's "
              "factory; the model is tied to Message::factory / Message::encode by identical object dumps and bytes on generated "
              "traffic, and the oracle c05_ok is evaluated on the real code's outputs")
LEVEL_NOTE = ("Trusted: Coq kernel, extraction (ExtrOcamlBasic), the hand transcription in coq/Codec (checked by the "
              "correspondence run), the metadata dump of harness/meta_dump.hpp, the OCaml driver's parsers, vlib generators.")
DESIGN_REF = "DESIGN.md section 4, Codec group, C05; findings F13"
PROPS_FILE = "Props/Properties_C05.v"
COQ_TARGETS = ["Props/Properties_C05.vo", "Extract/Extract_C05.vo"]
TRUSTED_BASE = ["Coq 8.16.1 kernel (coqc), vm_compute only", "Extraction with ExtrOcamlBasic, no Extract Constant; OCaml 4.13.1",
                "hand-written model coq/Codec/*.v of runtime/message.cpp + include/fix8/message.hpp, tied by differential execution",
                "harness/h_codec.cpp + harness/meta_dump.hpp (metadata taken from the compiled generated classes)",
                "ocaml/prelude.ml + ocaml/c05_driver.ml (metadata / msgspec / dump parsers), vlib/codecgen.py + vlib/suites/_c05c06.py (generators)"]
ASSUMPTIONS = ["the clean message is schema-conforming: generated from the dumped metadata, every Length field together with its data "
               "field, values canonical for their type and free of SOH/NUL (it must decode in strict mode, which the oracle checks)",
               "an 'unknown' tag is a tag that none of header, trailer, message body and its nested groups knows; tags >= 65536 whose "
               "low 16 bits are a known tag are a separate class (the decoder reads tags modulo 65536)",
               "the theorem c05_values_partial compares permissive and strict decoding of the SAME byte string; that strict decoding "
               "of the dirty string equals strict decoding of the clean one when the tokens sit at the end is observed on every case "
               "by the oracle (which compares with the clean message), not proved",
               "model results 'Fuel' (recursion fuel exhausted) are model artefacts: never observed"]
RULE = ("messages generated from the dumped metadata (every message type; mandatory fields plus a random optional subset; groups "
        "nested to the schema's depth); unknown tokens (tags outside the schema, tags known elsewhere in the schema, tags >= 65536, "
        "values with '=', high bytes, empty) inserted at EVERY token position of a message (one at a time) and at random position "
        "sets; BodyLength/CheckSum recomputed.  V cases: factory(dirty, permissive) and factory(clean, strict) dumps compared by "
        "c05_values_ok + c05_retained_ok; R cases: re-encoding of the permissively decoded object checked by c05_reenc_ok.  "
        "non-trivial = a V/R case whose permissive decode returned an object; distinct = distinct case lines")


def schemas(tier):
    return ("utest", "fix44") if tier == "thorough" else ("utest",)


_state = {}


def build(tier):
    built = G.build_codec(schemas(tier))
    _state["built"] = built
    return built


# ------------------------------------------------------------------------------ run
def expand(rest):
    w = rest.split(" ")
    if w[0] == "V":
        return ["DEC p " + w[3], "DEC s " + w[2]]
    if w[0] == "R":
        return ["REENC p " + w[2]]
    return [rest]


def join(rest, rs):
    w = rest.split(" ")
    rs = [H.crash_to_model(r) for r in rs]
    if w[0] == "V":
        return "%s || %s || HYP=%s" % (rs[0], rs[1], claim_of(w[1]))
    return rs[0]


def claim_of(region):
    """Region e (all tokens after the last known token) is where c05_values_partial's hypothesis
    c05_hyp must hold: the model evaluates it on the dirty bytes and the two are compared.
    (Elsewhere c05_hyp may or may not hold -- it speaks about one byte string, e.g. both decoders
    lose the rest of a group -- so nothing is claimed.)"""
    return "1" if region == "e" else "x"


def run_impl(built, cases, tier):
    return H.run_multi(built, cases, expand, join)


# ------------------------------------------------------------------------------ generation
def pre(schema, default):
    return "" if schema == default else "@%s " % schema


def after_length(meta, toks, i):
    """The Length-typed (not BodyLength) top-level token directly before insertion index i, if any:
    MessageBase::decode reads the token after it with extract_element_fixed_width.  (Before /repo
    ce1e2cc that function did not NUL-terminate tag[] and a longer tag than the Length field's was
    followed by stale or uninitialised stack bytes; such tokens were kept out.  Now half of the
    tokens at these positions have an arbitrary tag, half a tag of the Length tag's width.)"""
    if i > 0 and toks[i - 1].depth == 0:
        f = toks[i - 1].fnum
        if f != 9 and meta.fields.get(f, (0,))[0] == G.FT_LENGTH:
            return f
    return None


def token_at(rng, meta, known, toks, i, kind=None):
    """An unknown token suitable for insertion index i (None if there is none)."""
    lf = after_length(meta, toks, i)
    if lf is None or rng.random() < 0.5:
        return unknown_token(rng, meta, known, kind)[1]
    nd = len(str(lf))
    lo, hi = 10 ** (nd - 1), 10 ** nd - 1
    cand = [t for t in range(lo, hi + 1) if t not in known and t not in (8, 9, 10, 35)]
    if not cand:
        return None
    tag = rng.choice(cand)
    return b"%d=" % tag + G.gen_string(rng, 0, 8)


def unknown_token(rng, meta, known, kind=None):
    """(tag, raw token).  kinds: 'out' tag in no table of the schema, 'else' tag of the schema that
    this message does not know, 'big' tag >= 65536 whose low 16 bits are no tag of the schema,
    'alias' tag >= 65536 whose low 16 bits are a tag this message knows."""
    kind = kind or rng.choice(("out", "out", "out", "else", "else", "big"))
    allf = set(meta.fields)
    if kind == "else":
        cand = sorted(allf - known - {8, 9, 10, 35})
        tag = rng.choice(cand) if cand else 29999
    elif kind == "big":
        while True:
            tag = rng.choice((65536 + rng.randrange(1, 65536), 65536 * rng.randint(2, 30000) + rng.randrange(1, 65536)))
            if tag % 65536 not in allf and tag % 65536 != 0:
                break
    elif kind == "alias":
        low = rng.choice(sorted(f for f in known - {8, 9, 10, 35} if meta.fields[f][0] == G.FT_STRING))
        tag = 65536 * rng.choice((1, 1, 2, 7)) + low
        return tag, b"%d=" % tag + G.gen_string(rng, 1, 8, eq=False)
    else:
        while True:
            tag = rng.choice((rng.randint(1, 9999), rng.randint(10000, 65535)))
            if tag not in allf:
                break
    r = rng.random()
    if r < 0.08:
        val = b""
    elif r < 0.2:
        val = bytes(rng.choice((0x80, 0xff, 0xc3, 0x7f, 0x02, 0x3d)) for _ in range(rng.randint(1, 6)))
    else:
        val = G.gen_string(rng, 1, 10)
    return tag, b"%d=" % tag + val


def region(toks, idxs, aliased):
    """toks: known tokens; idxs: insertion indices (token k is inserted BEFORE known token idxs[k];
    len(toks) = after the last known token).  'e' all at the end, 'h' one before a known header
    token, 'b' one before a known body or trailer token (and none before a header token)."""
    if aliased:
        return "a"
    nh = sum(1 for t in toks if t.part == "H")
    if all(i == len(toks) for i in idxs):
        return "e"
    if any(i < nh for i in idxs):
        return "h"
    return "b"


def mk_cases(px, meta, mt, toks, ins, cls, aliased=False, kinds="VR"):
    """ins: list of (index, raw token) sorted by index."""
    raws = [t.raw for t in toks]
    clean = H.frame(meta.begin, mt, raws)
    out = []
    k = 0
    for i, r in enumerate(raws + [None]):
        while k < len(ins) and ins[k][0] == i:
            out.append(ins[k][1])
            k += 1
        if r is not None:
            out.append(r)
    dirty = H.frame(meta.begin, mt, out)
    reg = region(toks, [i for i, _ in ins], aliased)
    tk = ",".join(t.hex() for _, t in ins) or "-"
    cs = []
    if "V" in kinds:
        cs.append(Case("%sV %s %s %s %s" % (px, reg, clean.hex(), dirty.hex(), tk), cls + "-values-" + reg))
    if "R" in kinds:
        cs.append(Case("%sR %s %s %s" % (px, clean.hex(), dirty.hex(), tk), cls + "-reenc"))
    return cs


def gen_cases(rng, tier):
    built = _state.get("built") or build(tier)
    thorough = tier == "thorough"
    cs = []
    default = schemas(tier)[0]
    for schema in schemas(tier):
        meta = built["metas"][schema]
        px = pre(schema, default)
        types = sorted(meta.msgs)
        gen = G.MsgGen(meta, rng, p_opt=0.25, max_elems=2)
        small = G.MsgGen(meta, rng, p_opt=0.1, max_elems=2)
        trl = G.MsgGen(meta, rng, p_opt=0.9, max_elems=1)      # trailer fields present: 93/89

        def message(g, mt=None, want_trailer=False):
            for _ in range(40):
                m = g.message(mt, max_wire=1500)
                if H.count_trap(meta, m[2]):
                    continue
                if not want_trailer or m[3]:
                    return m
            return m

        # 1. no unknown token at all (the re-encode defect needs none), every message type
        for mt in types[:(len(types) if thorough else 12)]:
            m = message(small, mt)
            cs += mk_cases(px, meta, m[0], H.wire_tokens(meta, *m), [], "none")
        # 2. one token at EVERY position of a message
        n_every = (70 if thorough else 40) if schema == default else 15
        for k in range(n_every):
            m = message(small if k % 3 else gen, None, want_trailer=(k % 2 == 0))
            if k % 2 == 0 and not m[3]:
                m = message(trl)
            toks = H.wire_tokens(meta, *m)
            known = H.known_tags(meta, m[0])
            for i in range(len(toks) + 1):
                u = token_at(rng, meta, known, toks, i)
                if u is None:
                    continue
                cs += mk_cases(px, meta, m[0], toks, [(i, u)], "every", kinds="V" if (i % 4 and i != len(toks)) else "VR")
        # 3. several tokens at random positions; all at the end; all after the last body token
        n_multi = (500 if thorough else 280) if schema == default else 80
        for k in range(n_multi):
            m = message(gen, None, want_trailer=(k % 3 == 0))
            toks = H.wire_tokens(meta, *m)
            known = H.known_tags(meta, m[0])
            n = len(toks)
            cnt = rng.randint(1, 4)
            mode = k % 4
            if mode == 0:
                idxs = [n] * cnt
            elif mode == 1:
                nb = sum(1 for t in toks if t.part != "T")
                idxs = sorted(rng.randint(nb, n) for _ in range(cnt))
            else:
                idxs = sorted(rng.randint(0, n) for _ in range(cnt))
            ins = []
            for i in idxs:
                u = token_at(rng, meta, known, toks, i) if not (ins and ins[-1][0] == i) else unknown_token(rng, meta, known)[1]
                if u is not None:
                    ins.append((i, u))
            if not ins:
                continue
            cs += mk_cases(px, meta, m[0], toks, ins, "multi", kinds="VR" if k % 2 == 0 else "V")
        # 4. tags >= 65536 whose low 16 bits are a known tag
        for k in range((40 if thorough else 16) if schema == default else 6):
            m = message(small)
            toks = H.wire_tokens(meta, *m)
            known = H.known_tags(meta, m[0])
            i = rng.choice((len(toks), rng.randint(0, len(toks))))
            if after_length(meta, toks, i) is not None:
                i = len(toks)
            if after_length(meta, toks, i) is not None:
                continue
            _, u = unknown_token(rng, meta, known, "alias")
            cs += mk_cases(px, meta, m[0], toks, [(i, u)], "alias", aliased=True, kinds="V")
    return cs


# ------------------------------------------------------------------------------ verdict support
def _rest(case):
    built = _state["built"]
    default = next(iter(built["exes"]))
    return G.schema_of(case.line, default)[1].split(" ")


def nontrivial(case, r):
    return r.startswith("OK ")


def c_reencode(case, r, m):
    """Re-encoding an object decoded in permissive mode: the header decoder (ignore = 0) has put
    every token after the header, CheckSum included, into its _unknown, and the body decoder
    everything after the body."""
    return _rest(case)[0] == "R"


def c_before_header_field(case, r, m):
    w = _rest(case)
    return w[0] == "V" and w[1] == "h"


def c_before_known_field(case, r, m):
    w = _rest(case)
    return w[0] == "V" and w[1] == "b"


def c_alias(case, r, m):
    w = _rest(case)
    return w[0] == "V" and w[1] == "a"


CLASSIFIERS = {"reencode-after-permissive": c_reencode, "unknown-before-header-field": c_before_header_field,
               "unknown-before-known-field": c_before_known_field, "tag-alias-mod-65536": c_alias}


def extra_search(rng, seeds, tier):
    return gen_cases(rng, tier)[:2500]


def extra_evidence(ctx):
    reg = {}
    for c, r in zip(ctx["cases"], ctx["impl"]):
        w = c.line.split(" ")
        if w[0].startswith("@"):
            w = w[1:]
        if w[0] == "V":
            reg[w[1]] = reg.get(w[1], 0) + 1
    return {"value_cases_by_region": reg}
