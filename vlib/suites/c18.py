"""C18 — resend requests are answered with a complete, faithful replay."""
import itertools
import threading

from vlib import build as B
from vlib import core
from vlib.core import Case
from vlib.suites import _sess as S

ID = "C18"
LEVEL = "proof"
TECHNIQUE = ("Coq proofs (induction over the live iteration of the message store) about the shared session model "
             "coq/Sess (handle_resend_request / retrans_callback scenarios #1..#8, send_process) + oracle c18_ok applied to "
             "the traces of the REAL Session/Connection/Persister code (in-memory socket, virtual clock); model traces tied "
             "byte for byte")
LEVEL_TEXT = ("For every schema, decoder, store, range and session state other than resend_request_received, with "
              "always_seqnum_assign off, the modelled answer to a ResendRequest is proved equal to an explicit replay plan "
              "(c18_replay_plan, c18_replay_plan_any_state, c18_replay_plan_ahead; induction over the live store iteration); from "
              "it: the resent messages are exactly the stored ones in the range, ascending, each the stored message + "
              "PossDupFlag=Y + OrigSendingTime = stored SendingTime (c18_resent_partial); every gap fill inside the replay carries "
              "MsgSeqNum = first number of its gap and NewSeqNo = the next stored number (c18_gapfill_exact; F22 repaired by "
              "930506b, the old callback refuted in c18_gapfill_seq_orig_refuted); a bounded request still ends with a gap fill "
              "up to next_send that skips stored messages beyond End (c18_overreach_refuted); without a persister the single gap "
              "fill is as specified (c18_nopersister); next_send afterwards = the NewSeqNo of the last gap fill (c18_continue); "
              "invalid ranges get one Reject (c18_reject_invalid); for all stores and ranges with nothing stored beyond End the "
              "emitted BYTES satisfy the oracle answer_ok (c18_answer_ok_partial); hypotheses satisfiable (c18_nonvacuous*).")
LEVEL_NOTE = ("Trusted: Coq kernel, extraction, the hand transcription coq/Sess of session.cpp/persist.cpp (checked by the "
              "correspondence run on every case: the model's trace must equal the real trace byte for byte), the harness "
              "(vsock/vclock), the stand-in decoder simple_decode on well-formed stored messages.")
DESIGN_REF = "DESIGN.md section 4, C18; findings F22 (fixed by 930506b), F23"
PROPS_FILE = "Props/Properties_C18.v"
COQ_TARGETS = ["Props/Properties_C18.vo", "Extract/Extract_C18.vo"]
TRUSTED_BASE = ["Coq 8.16.1 kernel (coqc), vm_compute only",
                "Extraction with ExtrOcamlBasic, no Extract Constant; OCaml 4.13.1",
                "hand-written session model coq/Sess/*.v (Session.handle_resend_request, retrans_record/loop/final, send_process, "
                "Persist) tied to runtime/session.cpp, persist.cpp, filepersist.cpp by differential execution of whole histories",
                "ocaml/prelude.ml + ocaml/c18_driver.ml, harness/h_c18.cpp + sess_harness.hpp + vsock.hpp + vclock.cpp, vlib"]
ASSUMPTIONS = ["always_seqnum_assign = false (with the option on fix8 renumbers what it resends and stores it again; such "
               "histories are tied model = implementation but not judged by c18_ok)",
               "the stored messages are what send_process stored (single sends and batches: since the repair d862447 the "
               "last message of a batch is stored with its own bytes, so batches are part of the histories)",
               "sequence numbers stay far below 2^32"]
RULE = ("histories: logon, k <= 8 sends (single messages and batches) mixing application and admin messages (so that the store has holes; file, memory and "
        "no persister; initiator and acceptor; sometimes a restart on the file persister), then a ResendRequest [B,E], a new "
        "message, sometimes a second request and another message; long runs of unstored numbers (62..66, 127..129, 255..257; by starting at send number ss, and by 63/64/65 "
        "heartbeats) in front of a stored message with Begin at the start of the run; a class of multi-request histories (a bounded request "
        "ending below the highest stored number, 1..3 further new messages, then a wider later request; file/mem); 3 of 7 requests arrive in a state other than continuous: with "
        "their own MsgSeqNum ahead of the expected one (our ResendRequest goes first), while a TestRequest of ours is pending "
        "(after a TICK), or while our ResendRequest is pending.  thorough: ALL subsets of stored numbers x ALL ranges "
        "(B, E in 0..k+3) for k <= 5, random beyond; quick: all of k <= 2, a sample of k = 3..5 and random ones up to k = 8, always "
        "including E = 0, E beyond the last, B beyond the last, B = 0, B > E.  non-trivial = the history contains a judged "
        "ResendRequest whose range holds at least one stored message or one gap; distinct = distinct case lines")


def build(tier):
    """h_c18 = the shared session harness with a snapshot that does not move the file persister's descriptor
    (see harness/h_c18.cpp); same protocol, trace format and metadata dump as h_sess."""
    import os
    import subprocess
    exe = B.harness("h_c18", runtime=None, schema="utest", extra_srcs=["vclock.cpp"])
    meta = exe + ".meta"
    if not os.path.exists(meta):
        env = dict(os.environ, ASAN_OPTIONS="detect_leaks=0")
        out = subprocess.run([exe, "--meta"], stdout=subprocess.PIPE, stderr=subprocess.PIPE, env=env, timeout=120)
        if out.returncode != 0 or not out.stdout:
            raise B.BuildError("h_c18 --meta failed: " + out.stderr.decode(errors="replace")[-2000:])
        tmp = meta + ".tmp%d" % os.getpid()
        open(tmp, "wb").write(out.stdout)
        os.rename(tmp, meta)
    return {"impl": [exe], "driver_args": [meta], "per_case_timeout": 30}


def EXHAUSTIVE(tier):
    return tier == "thorough"


NSHARDS = 6


def run_impl(built, cases, tier):
    """The harness costs ~20 ms per session instance: shard the cases over a few processes."""
    lines = [c.line for c in cases]
    n = min(NSHARDS, max(1, len(lines) // 50))
    res = [None] * len(lines)

    def work(k):
        idx = list(range(k, len(lines), n))
        out = core.run_lines(built["impl"], [lines[i] for i in idx], env=built.get("env"),
                             per_case_timeout=built.get("per_case_timeout", 30), timeout_per_batch=1500)
        for i, r in zip(idx, out):
            res[i] = r

    core.run_dir()
    ths = [threading.Thread(target=work, args=(k,)) for k in range(n)]
    for t in ths:
        t.start()
    for t in ths:
        t.join()
    return res


# ------------------------------------------------------------------------------------ histories
def history(rng, role, persist, pattern, reqs, asa=0, restart_at=None, step_ns=None, ss=None):
    """pattern: string over a (application message), h (heartbeat), t (test request), r (reject),
    B (a batch of 2..3 messages, application and heartbeat mixed: 2..3 numbers, some of them stored);
    reqs: list of (B, E) -- each followed by a new application message."""
    h = S.Hist(rng, role, persist, asa=asa, ss=ss)
    h.logon_in()
    for i, c in enumerate(pattern):
        if restart_at is not None and i == restart_at:
            h.restart()
            h.logon_in()
        h.clock(step_ns if step_ns is not None else rng.choice([10**6, 10**9, 3 * 10**9, 61 * 10**9]))
        if c == "a":
            t = rng.choice(["D", "D", "F", "8"])
            h.send(S.spec(t, S.app_fields(rng, t, h.now)))
        elif c == "h":
            h.send(S.spec("0"))
        elif c == "B":
            sps = []
            for _ in range(rng.randint(2, 3)):
                t = rng.choice(["D", "D", "F", "0"])
                sps.append(S.spec(t, S.app_fields(rng, t, h.now)) if t != "0" else S.spec("0"))
            h.batch(sps)
        elif c == "t":
            h.send(S.spec("1", [(112, S.word(rng))]))
        else:
            h.send(S.spec("3", [(45, rng.randint(1, 9))]))
    for rq in reqs:
        b, e = rq[0], rq[1]
        mode = rq[2] if len(rq) > 2 else "plain"
        h.clock(rng.choice([10**6, 10**9, 5 * 10**9]))
        if mode == "ahead":         # the request's own number is above the expected one: our ResendRequest goes first
            h.inb("2", [(7, b), (16, e)], seq=h.next_in + rng.randint(1, 3))
            h.next_in += 1          # process() increments next_recv unconditionally
        elif mode == "testreq":     # a TestRequest of ours is pending (state test_request_sent)
            h.tick(int(h.hb * 1.2 + 2) * 10**9 + rng.randrange(1000) * 10**6)
            h.inb("2", [(7, b), (16, e)])
        elif mode == "sent":        # our ResendRequest is pending (state resend_request_sent), the request is in sequence
            h.inb("0", [], seq=h.next_in + rng.randint(1, 3))
            h.next_in += 1
            h.inb("2", [(7, b), (16, e)])
        else:
            h.inb("2", [(7, b), (16, e)])
        for _ in range(rq[3] if len(rq) > 3 else 1):        # new application messages after the answer
            h.clock(rng.choice([10**6, 10**9]))
            t = rng.choice(["D", "D", "F", "8"])
            h.send(S.spec(t, S.app_fields(rng, t, h.now)))
    return h.line()


MODES = ["plain", "plain", "plain", "plain", "ahead", "testreq", "sent"]


def patterns(k):
    return ["".join(p) for p in itertools.product("ah", repeat=k)]


def edge_ranges(rng, last):
    """Ranges aimed at the case splits: E = 0, E beyond the last, B beyond the last, B = 0, B > E."""
    n = last + 1
    return [(1, 0), (last, 0), (n, 0), (n + 2, 0), (1, last), (1, n), (1, n + 5), (n, n), (n + 1, n + 3),
            (0, 0), (0, 3), (3, 2), (n + 1, n), (2, 1), (1, 1), (last, last),
            (rng.randint(1, n), 0), (rng.randint(1, n), rng.randint(1, n + 2))]


def gen_cases(rng, tier):
    cs = []
    thorough = tier == "thorough"
    kmax = 5 if thorough else 2
    persists = ["file", "mem", "none"]

    def space(k):
        last = 1 + k
        for pat in patterns(k):
            for b in range(0, last + 3):
                for e in range(0, last + 3):
                    for per in persists:
                        yield (k, pat, b, e, per)

    # 1. all stores x all ranges for small k (thorough: k <= 5; quick: k <= 2 and a sample of k = 3..5)
    pts = [p for k in range(0, kmax + 1) for p in space(k)
           if not (k >= 4 and p[4] == "none" and "h" in p[1] and "a" in p[1])]   # no persister: the pattern is irrelevant
    if not thorough:
        big = [p for k in (3, 4, 5) for p in space(k) if not (p[4] == "none" and "h" in p[1] and "a" in p[1])]
        pts += rng.sample(big, 380)
    for (k, pat, b, e, per) in pts:
        role = "I" if (b + e + k) % 3 else "A"
        # a third of the histories deliver the request in a state other than continuous / with its number ahead
        mode = MODES[(b * 7 + e * 3 + k + len(pat.replace("h", ""))) % len(MODES)] if thorough else rng.choice(MODES)
        cs.append(Case(history(rng, role, per, pat, [(b, e, mode)]),
                       "%s-k%d-%s-%s" % ("exhaustive" if k <= kmax else "sample", k, per, mode)))
    # 2. random, larger k, second request
    n_rand = 1500 if thorough else 300
    for _ in range(n_rand):
        k = rng.randint(2, 8)
        pat = "".join(rng.choice("aaahhtrBB") for _ in range(k))
        per = rng.choice(["file", "file", "mem", "mem", "none"])
        role = rng.choice("IA")
        last = 1 + k + 2 * pat.count("B")
        reqs = [rng.choice(edge_ranges(rng, last)) + (rng.choice(MODES),)]
        if rng.random() < 0.5:
            reqs.append((rng.randint(0, last + 4), rng.choice([0, 0, rng.randint(0, last + 6)]), rng.choice(MODES)))
        restart_at = rng.randrange(1, k) if (per == "file" and rng.random() < 0.2 and k > 2) else None
        cs.append(Case(history(rng, role, per, pat, reqs, restart_at=restart_at), "random-%s" % per))
    # 2b. a bounded request that stops below the highest stored number, further new messages, then a later request
    #     that covers older numbers above the first End (a replay reads the store while new records are appended:
    #     what is resent must still be what was ORIGINALLY transmitted under each number)
    for _ in range(900 if thorough else 220):
        k = rng.randint(4, 8)
        pat = "".join(rng.choice("aaaaahB") for _ in range(k))
        per = rng.choice(["file", "file", "file", "mem"])
        last = 1 + k + 2 * pat.count("B")
        e1 = rng.randint(2, last - 1)
        b1 = rng.randint(1, e1)
        n_new = rng.randint(1, 3)
        b2 = rng.randint(1, e1 + 1)
        e2 = rng.choice([0, 0, last + n_new + 2, rng.randint(e1 + 1, last + n_new + 1)])
        reqs = [(b1, e1, "plain", n_new), (b2, e2, rng.choice(["plain", "plain", "testreq"]), 1)]
        if rng.random() < 0.3:
            reqs.append((1, 0, "plain", 1))
        cs.append(Case(history(rng, rng.choice("IA"), per, pat, reqs), "later-wider-%s" % per))
    # 2c. LONG runs of numbers without a stored message in front of a stored one (the persisters look for the first
    #     record at or after Begin: find_nearest_highest_seqnum): run lengths around 64, 128, 256 and a few others,
    #     Begin exactly at the start of the run.  (i) cheap: the session starts at send number ss, so the Logon
    #     carries ss and the first application message ss+1; (ii) a real run of K heartbeats behind stored messages.
    runs = [1, 31, 62, 63, 64, 65, 66, 127, 128, 129, 255, 256, 257]
    for per in ("file", "mem"):
        for d in runs:
            for pat in (["a", "aha", "ah"] if (thorough or d in (63, 64, 65)) else ["a", "aha"]):
                ss = 300 + rng.randrange(50)
                first = ss + 1                          # the first stored number
                b = first - d
                e = rng.choice([0, 0, first, first + 5])
                cs.append(Case(history(rng, rng.choice("IA"), per, pat, [(b, e)], ss=ss, step_ns=10**6),
                               "long-run-ss-%s" % per))
    for per in ("file", "mem"):
        for k in (63, 64, 65):
            for lead in ("a", ""):
                # lead, K heartbeats, one application message (+ another): Begin = first heartbeat of the run
                pat = lead + "h" * k + rng.choice(["a", "aa"])
                b = 2 + len(lead)
                cs.append(Case(history(rng, "I", per, pat, [(b, rng.choice([0, b + k]))], step_ns=10**6),
                               "long-run-hb-%s" % per))
    # 3. always_seqnum_assign on: tied only (ranges up to the latest: no feedback through the re-stored messages)
    for _ in range(150 if thorough else 30):
        k = rng.randint(1, 6)
        pat = "".join(rng.choice("aah") for _ in range(k))
        per = rng.choice(["file", "mem", "none"])
        last = 1 + k
        b = rng.randint(1, last + 1)
        e = rng.choice([0, rng.randint(b, last + 4)])
        cs.append(Case(history(rng, rng.choice("IA"), per, pat, [(b, e)], asa=1), "asa-%s" % per))
    # 4. malformed / out-of-protocol requests: tied, mostly not judged
    for _ in range(120 if thorough else 30):
        k = rng.randint(1, 5)
        pat = "".join(rng.choice("aah") for _ in range(k))
        per = rng.choice(["file", "mem", "none"])
        h = S.Hist(rng, rng.choice("IA"), per, asa=0)
        h.logon_in()
        for c in pat:
            h.clock(10**9)
            h.send(S.spec("D", S.app_fields(rng, "D", h.now)) if c == "a" else S.spec("0"))
        j = rng.randrange(5)
        if j == 0:      # the request itself arrives with a number too high: ResendRequest goes out instead
            h.inb("2", [(7, 1), (16, 0)], seq=h.next_in + 2)
        elif j == 1:    # EndSeqNo missing (mandatory): Reject from the decoder
            h.inb("2", [(7, 1)])
        elif j == 2:    # wrong CompIDs
            h.ops.append("IN " + S.fixmsg("2", h.next_in, "XXX", h.me, [(7, 1), (16, 0)], now=h.now).hex())
        elif j == 3:    # two requests in one chunk
            a = S.fixmsg("2", h.next_in, h.peer, h.me, [(7, 1), (16, 2)], now=h.now)
            b = S.fixmsg("2", h.next_in + 1, h.peer, h.me, [(7, 2), (16, 0)], now=h.now)
            h.ops.append("IN " + (a + b).hex())
            h.next_in += 2
        else:           # request before the logon completed / after logout
            h.inb("5", [])
            h.inb("2", [(7, 1), (16, 0)])
        h.send(S.spec("D", S.app_fields(rng, "D", h.now)))
        cs.append(Case(h.line(), "malformed"))
    return cs


# ------------------------------------------------------------------------------------ classification
def _parse(case_line, impl):
    """(persist, asa, judged requests) with, for each ResendRequest fed in state continuous:
    (store before, next_send before, B, E)."""
    ops = case_line.split("|")
    steps = impl.split(" | ")
    if len(ops) != len(steps):
        return None
    start = ops[0].split()
    per = start[2] if len(start) > 2 else "mem"
    asa = "asa=1" in start
    store, nsend, nrecv, state = {}, 0, 0, 0
    reqs = []
    states = []
    for op, st in zip(ops, steps):
        w = op.split()
        if w and w[0] == "IN" and "," not in w[1] and state in (1, 6, 7, 8, 9, 10, 11, 12) and "RET " in st:
            try:
                raw = bytes.fromhex(w[1]).decode("latin-1")
            except ValueError:
                raw = ""
            f = [x.split("=", 1) for x in raw.split(S.SOH) if "=" in x]
            d = dict(f)
            if d.get("35") == "2" and raw.count("8=FIX") == 1 and "7" in d and "16" in d:
                try:
                    seq = int(d.get("34", "0"))
                    if seq == nrecv or (seq > nrecv and state == 1):
                        # ahead: our own ResendRequest takes next_send first
                        reqs.append((dict(store) if per != "none" else {}, nsend + (1 if seq > nrecv else 0),
                                     int(d["7"]), int(d["16"])))
                        states.append("ahead" if seq > nrecv else str(state))
                except ValueError:
                    pass
        for it in st.split(";"):
            x = it.split(" ")
            if x[0] == "STATE":
                state = int(x[1])
            elif x[0] == "SEQ":
                nsend, nrecv = int(x[1]), int(x[2])
            elif x[0] == "STORE":
                for a, v in zip(x[1::2], x[2::2]):
                    if v == "GONE":
                        store.pop(int(a), None)
                    else:
                        store[int(a)] = v
    return per, asa, reqs, states


def _valid(b, e):
    return not ((e < b and e != 0) or b == 0)


def gap_before_stored(c, impl, model):
    """The pattern of F22 (fixed by /repo 930506b; the entry is status "fixed" and suppresses nothing): the iterated
    range [B, finish] contains a number without a stored message that is followed by a stored one (scenarios #2/#3)."""
    p = _parse(c.line, impl)
    if not p or p[1]:
        return False
    for store, n, b, e in p[2]:
        if not _valid(b, e) or not store:
            continue
        finish = e if e else max(store)
        ks = [k for k in store if b <= k <= finish]
        if ks and any(x not in store for x in range(b, max(ks))):
            return True
    return False


def stored_beyond_end(c, impl, model):
    """Negation of hypothesis `nothing_stored_beyond` of c18_answer_partial: End <> 0 and a stored message
    has a number in (End, next_send): the final gap fill announces next_send and skips it."""
    p = _parse(c.line, impl)
    if not p or p[1]:
        return False
    for store, n, b, e in p[2]:
        if _valid(b, e) and e != 0 and any(e < k < n for k in store):
            return True
    return False


# "f22_pattern" belongs to the FIXED entry C18-gapfill-msgseqnum (a fixed entry suppresses nothing); the old key
# "gap_before_stored" is deliberately gone so that a stale "known" copy of that entry cannot mask a regression
CLASSIFIERS = {"f22_pattern": gap_before_stored, "stored_beyond_end": stored_beyond_end}


def nontrivial(case, impl_out):
    p = _parse(case.line, impl_out)
    if not p or p[1]:
        return False
    for store, n, b, e in p[2]:
        if _valid(b, e) and b < n:
            return True
    return False


def extra_evidence(ctx):
    """How many judged requests arrived in which state (1 continuous, 9 test_request_sent, 12 resend_request_sent,
    ahead = own number above the expected one)."""
    tally = {}
    for c, r in zip(ctx["cases"], ctx["impl"]):
        p = _parse(c.line, r)
        if p and not p[1]:
            for st in p[3]:
                tally[st] = tally.get(st, 0) + 1
    return {"judged_requests_by_state": tally}


def shrink(case):
    """Drop one operation other than START / the logon / the first ResendRequest.  Histories with several
    requests are kept whole (a later answer may depend on everything before it)."""
    ops = case.line.split("|")
    if sum(1 for o in ops if o.startswith("IN ") and "33353d32" in o) > 1:
        return []
    out = []
    for i in range(2, len(ops)):
        if ops[i].startswith("IN ") and "33353d32" in ops[i]:
            continue
        out.append(Case("|".join(ops[:i] + ops[i + 1:]), case.cls, case.origin))
    return out


def extra_search(rng, seeds, tier):
    cs = []
    for _ in range(600):
        k = rng.randint(1, 6)
        pat = "".join(rng.choice("aah") for _ in range(k))
        last = 1 + k
        cs.append(Case(history(rng, rng.choice("IA"), rng.choice(["file", "mem", "none"]), pat,
                               [rng.choice(edge_ranges(rng, last)) + (rng.choice(MODES),)]), "extra"))
    return cs
