"""C01 — message encode/decode round trip preserves every field."""
from vlib import build as B
from vlib import codecgen as G
from vlib.core import Case

ID = "C01"
LEVEL = "proof"
TECHNIQUE = ("Coq proof about the hand-written Gallina model of Message::encode / Message::factory / MessageBase::decode / "
             "decode_group (coq/Codec); property stated as the executable predicate c01_ok on the built content, the decoded "
             "dump and both encodings; model tied to the real codec by differential execution (build through the generic API, "
             "encode, factory, dump, re-encode) on messages generated from the metadata dumped from the compiled schema")
LEVEL_TEXT = ("see coq/Props/Properties_C01.v; the model is tied to the real code by identical bytes, identical decoded dumps "
              "and identical re-encodings on every generated message; c01_ok is evaluated on the real code's outputs")
LEVEL_NOTE = ("Trusted: Coq kernel, extraction, the hand transcription in coq/Codec (checked by the correspondence run), "
              "harness/h_codec.cpp + meta_dump.hpp, the OCaml driver's parsers (msgspec, dump), vlib generators; for the few "
              "non-canonical float texts of the known-finding class the model uses the real conversion's result reported by "
              "the harness (RENDER op) instead of a model of modp_dtoa (that model is C08's).")
DESIGN_REF = "DESIGN.md section 4, Codec group, C01"
PROPS_FILE = "Props/Properties_C01.v"
COQ_TARGETS = ["Props/Properties_C01.vo", "Extract/Extract_C01.vo"]
TRUSTED_BASE = ["Coq 8.16.1 kernel (coqc), vm_compute only", "Extraction with ExtrOcamlBasic, no Extract Constant; OCaml 4.13.1",
                "hand-written model coq/Codec/*.v of runtime/message.cpp + include/fix8/message.hpp, tied by differential execution",
                "harness/h_codec.cpp + harness/meta_dump.hpp (metadata taken from the compiled generated classes)",
                "ocaml/prelude.ml + ocaml/c01_driver.ml (metadata / msgspec / dump parsers), vlib/codecgen.py (generators)",
                "real fast_atof/modp_dtoa results (harness RENDER) for the float texts of the known-finding class"]
ASSUMPTIONS = ["value texts are canonical for their type (ints in [-2^31, 2^31) without '+'/leading zeros, floats W.F with at most two "
               "decimals and |value| < 2^31, timestamps with milliseconds, ...): the theorem's vals_canonical; violated on purpose only "
               "in the known-finding classes",
               "values contain neither SOH nor NUL (data with SOH belongs to C06); messages below the 8 KB encode buffer (C03)"]
RULE = ("messages generated from the dumped metadata: every message type, mandatory fields plus a random optional subset, values per "
        "field type (negative floats, '=' inside strings, boundary dates/times), groups with 0..3 elements nested to the schema's depth, "
        "empty groups, random insertion order; string values of 1023/1024/1025/2046/2047 bytes inside group elements at depth 1 and 2 (first/middle/last element, first/last string member); BodyLength exactly on and next to the digit-count boundaries 99/100/101, 999/1000/1001 (padded string field, messages with and without groups); each is built through the generic API, encoded, decoded by Message::factory, dumped, "
        "re-encoded on both sides. negative ints and INT_MIN/INT_MAX (fixed finding F01: must round-trip); known-finding classes: floats whose real rendering changes the value (|v| > 2^31 - 1: %e rendering), elements without their first field. non-trivial = all three stages OK with >= 8 tokens; distinct = distinct lines")


def schemas(tier):
    return ("utest", "fix44") if tier == "thorough" else ("utest",)


_state = {}


def build(tier):
    built = G.build_codec(schemas(tier))
    _state["built"] = built
    return built


def run_impl(built, cases, tier):
    """HYP cases have no implementation side (they evaluate the theorem's hypotheses on the
    generated object): constant "1"."""
    default = next(iter(built["exes"]))
    real = [c for c in cases if not G.schema_of(c.line, default)[1].startswith("HYP ")]
    out = iter(G.run_impl_multi(built, real, tier))
    return ["1" if G.schema_of(c.line, default)[1].startswith("HYP ") else next(out) for c in cases]


def pre(schema, default):
    return "" if schema == default else "@%s " % schema


def all_fields(fs):
    for f in fs:
        yield f
        for e in (f.elems or []):
            yield from all_fields(e)


def is_int(meta, fnum):
    ty = meta.fields.get(fnum, (0, ""))[0]
    return G.FT_INT <= ty <= G.FT_END_INT


def is_float(meta, fnum):
    ty = meta.fields.get(fnum, (0, ""))[0]
    return G.FT_FLOAT <= ty <= G.FT_END_FLOAT


# floats above thres_max = 2^31 - 1 are printed with sprintf("%e") (7 significant digits); the tie-branch
# carry (0.995 -> 0.1) was repaired in /repo a6c4c45; 2-decimal values up to 2^31 - 1 print exactly
BAD_FLOATS = [b"2147483647.5", b"2147483648.0", b"3000000000.5", b"-2147483649.25", b"4294967296.0", b"12345678901.5", b"-2147483647.75"]


def gen_cases(rng, tier):
    built = _state.get("built") or build(tier)
    thorough = tier == "thorough"
    cs = []
    default = schemas(tier)[0]
    for schema in schemas(tier):
        meta = built["metas"][schema]
        px = pre(schema, default)
        gen = G.MsgGen(meta, rng)
        types = sorted(meta.msgs)
        gtypes = [mt for mt in types if meta.groups.get(mt)]
        for mt in types * (3 if thorough else 1):
            cs.append(Case(px + "RT s " + G.ser_msg(*gen.message(mt)), "rt-type"))
        for _ in range(2000 if thorough else 400):
            cs.append(Case(px + "RT s " + G.ser_msg(*gen.message()), "rt-random"))
        rich = G.MsgGen(meta, rng, p_opt=0.7)
        for _ in range(400 if thorough else 100):
            cs.append(Case(px + "RT s " + G.ser_msg(*rich.message(max_wire=5000)), "rt-rich"))
        # group-heavy: types with groups, more elements
        deep = G.MsgGen(meta, rng, p_opt=0.5)
        for _ in range(600 if thorough else 150):
            cs.append(Case(px + "RT s " + G.ser_msg(*deep.message(rng.choice(gtypes), max_wire=5500)), "rt-groups"))
        # BodyLength digit-count ladder of Message::encode: pad a string field so that the body length
        # (bytes between the 9= field and 10=) is exactly on each boundary and next to it; with and
        # without repeating groups (9999/10000 do not fit into the 8 KB encode buffer)
        def boundary_cases(mt, with_groups):
            cand = [t for t in meta.traits.get(mt, []) if t.ftype == G.FT_STRING and not t.group and (t.flags & 4)]
            if not cand:
                return 0
            t = cand[0]
            g2 = G.MsgGen(meta, rng, p_opt=0.3 if with_groups else 0.0, max_elems=2 if with_groups else 0)
            for _ in range(8):
                mt2, hdr, body, trl = g2.message(mt, max_wire=700)
                if not with_groups or any(f.elems for f in body):
                    break
            else:
                return 0
            body = [f for f in body if f.fnum != t.fnum]
            base = len("35=%s\x01" % mt) + G.wire_estimate(hdr) + G.wire_estimate(body) + G.wire_estimate(trl) + len(str(t.fnum)) + 2
            n = 0
            for target in (99, 100, 101, 999, 1000, 1001):
                need = target - base
                if 1 <= need <= 2000:
                    b2 = body + [G.Fld(t.fnum, b"x" * need)]
                    rng.shuffle(b2)
                    cs.append(Case(px + "RT s " + G.ser_msg(mt, hdr, b2, trl), "bodylength-%d%s" % (target, "-groups" if with_groups else "")))
                    n += 1
            return n
        nb = 0
        for mt in (types if thorough else types[:10]):
            nb += boundary_cases(mt, False)
        ng = 0
        for mt in gtypes:
            ng += boundary_cases(mt, True)
            if not thorough and ng >= 40:
                break
        # large messages of bytes >= 0x80 (see C02): the CheckSum written by encode and the one verified by
        # factory come from the same routine, so this class mainly ties the model on big high-byte content
        for cls, mt, hdr, body, trl in G.highbyte_messages(meta, rng, sizes=(1600, 4000, 7900), kinds=("rand", "cjk", "ascii"), max_types=3):
            cs.append(Case(px + "RT s " + G.ser_msg(mt, hdr, body, trl), cls))
        # string values around the decoder's buffer boundaries (legal: < FIX8_MAX_FLD_LENGTH = 2048) INSIDE
        # repeating-group elements at depth 1 and 2: first / middle / last element, in the first and in the last
        # string member of the element (before / after its other members)
        def min_elem(sub, extra):
            first = meta.first_field(sub)
            el = []
            if first is not None and first not in {x.fnum for x in extra}:
                el.append(G.Fld(first, G.gen_value(rng, meta.trait(sub, first).ftype, first)))
            for t in meta.traits.get(sub, []):
                if t.mandatory and t.fnum != first and t.fnum not in {x.fnum for x in extra}:
                    el.append(G.Fld(t.fnum, b"0" if t.group else G.gen_value(rng, t.ftype, t.fnum)))
            el += extra
            rng.shuffle(el)
            return el

        def sub_strings(sub):
            ss = sorted([t for t in meta.traits.get(sub, []) if t.ftype == G.FT_STRING and not t.group], key=lambda t: t.pos)
            return ([ss[0]] + ([ss[-1]] if len(ss) > 1 else [])) if ss else []
        lbase = G.MsgGen(meta, rng, p_opt=0.05, max_elems=0, no_pairs=True)
        sites = []
        for mt in types:
            for gf, sub in sorted(meta.groups.get(mt, {}).items()):
                if not G.FT_INT <= meta.fields.get(gf, (0, ""))[0] <= G.FT_END_INT:
                    continue
                for t in sub_strings(sub):
                    sites.append((mt, [(gf, sub)], t))
                for gf2, sub2 in sorted(meta.groups.get(sub, {}).items()):
                    if not G.FT_INT <= meta.fields.get(gf2, (0, ""))[0] <= G.FT_END_INT:
                        continue
                    for t in sub_strings(sub2):
                        sites.append((mt, [(gf, sub), (gf2, sub2)], t))
        d1 = [x for x in sites if len(x[1]) == 1]
        d2 = [x for x in sites if len(x[1]) == 2]
        rng.shuffle(d1)
        rng.shuffle(d2)
        for mt, path, t in d1[:12 if thorough else 4] + d2[:12 if thorough else 4]:
            for L in (1023, 1024, 1025, 2046, 2047):
                for where in (0, 1, 2):
                    mt2, hdr, body, trl = lbase.message(mt, max_wire=1500)
                    gf, sub = path[-1]
                    inner = [min_elem(sub, [G.Fld(t.fnum, G.gen_string(rng, L, L, eq=False))] if k == where else []) for k in range(3)]
                    grp = G.Fld(gf, b"3", inner)
                    if len(path) == 2:
                        gf0, sub0 = path[0]
                        outer = [min_elem(sub0, [grp] if k == 1 else []) for k in range(2)]
                        grp = G.Fld(gf0, b"2", outer)
                    body = [f for f in body if f.fnum != grp.fnum] + [grp]
                    rng.shuffle(body)
                    cs.append(Case(px + "RT s " + G.ser_msg(mt, hdr, body, []), "long-value-in-group-d%d" % len(path)))
        # flat messages (no group elements, no Length/data pair, no trailer field): the domain of theorem
        # c01_roundtrip_partial -- run them (RT) and check that its hypotheses hold for them (HYP)
        def positioned(owner):
            return all(t.flags & 4 for t in meta.traits.get(owner, [])) and all(positioned(x) for x in meta.groups.get(owner, {}).values())
        good = [mt for mt in types if positioned(mt)]
        flat = G.MsgGen(meta, rng, p_opt=0.4, max_elems=0, no_pairs=True)
        for mt in good * (2 if thorough else 1) + [rng.choice(good) for _ in range(400 if thorough else 120)]:
            mt2, hdr, body, trl = flat.message(mt)
            spec = G.ser_msg(mt2, hdr, body, [])
            cs.append(Case(px + "RT s " + spec, "rt-flat"))
            cs.append(Case(px + "HYP " + spec, "hypotheses"))
        # messages with repeating groups in the body (any depth), flat header, no Length field at message level,
        # no trailer field: the domain of theorem c01_roundtrip_groups_partial -- RT plus its hypotheses (HYP)
        grp = G.MsgGen(meta, rng, p_opt=0.35, max_elems=3, no_pairs=True)
        ggood = [mt for mt in good if meta.groups.get(mt)]
        for mt in ggood * (2 if thorough else 1) + [rng.choice(ggood) for _ in range(300 if thorough else 80)]:
            mt2, hdr, body, trl = grp.message(mt, max_wire=5000)
            hdr = flat.part("header", p_opt=0.2)
            spec = G.ser_msg(mt2, hdr, body, [])
            cs.append(Case(px + "RT s " + spec, "rt-groups-domain"))
            cs.append(Case(px + "HYP " + spec, "hypotheses-groups"))
        # negative ints and the int extremes (F01, fixed in /repo a8219b1: fast_atoi handles the sign;
        # before the fix "-5" decoded as -25 and, under UBSan, trapped on the negative shift)
        k = 0
        for _ in range(2000):
            mt, hdr, body, trl = gen.message()
            cand = [f for f in all_fields(body) if is_int(meta, f.fnum) and f.elems is None
                    and meta.fields[f.fnum][0] not in (G.FT_LENGTH, G.FT_NUMINGROUP)]
            if not cand:
                continue
            f = rng.choice(cand)
            f.val = rng.choice((b"-5", b"-1", b"-2147483648", b"2147483647", b"-2147483647", b"-" + (f.val.lstrip(b"-0") or b"7")))
            cs.append(Case(px + "RT s " + G.ser_msg(mt, hdr, body, trl), "negative-int"))
            k += 1
            if k >= (80 if thorough else 30):
                break
        # known-finding class: floats whose real rendering changes the value (all float classes share
        # fast_atof / modp_dtoa at precision 2: the real conversions are asked once per schema)
        anyf = next((f for f, (ty, _) in sorted(meta.fields.items()) if G.FT_FLOAT <= ty <= G.FT_END_FLOAT), None)
        real1 = G.render_real(built, schema, [(anyf, t) for t in BAD_FLOATS]) if anyf else []
        real2 = G.render_real(built, schema, [(anyf, r if r is not None else b"0") for r in real1]) if anyf else []
        k = 0
        for _ in range(2000):
            mt, hdr, body, trl = gen.message()
            cand = [f for f in all_fields(body) if is_float(meta, f.fnum)]
            if not cand or not anyf:
                continue
            f = rng.choice(cand)
            j = rng.randrange(len(BAD_FLOATS))
            if real1[j] is None:
                continue
            f.val = BAD_FLOATS[j]
            ty = meta.fields[f.fnum][0]
            table = "%d:%s=%s" % (ty, f.val.hex(), real1[j].hex() or "-")
            # the wire carries the rendered text: the decoder's re-rendering of THAT text is needed too
            if real2[j] is not None and real2[j] != real1[j]:
                table += ",%d:%s=%s" % (ty, real1[j].hex() or "-", real2[j].hex() or "-")
            cs.append(Case(px + "RT s " + G.ser_msg(mt, hdr, body, trl) + " " + table, "float-value-changed"))
            k += 1
            if k >= (40 if thorough else 12):
                break
        # known-finding class: element without its first field (decoder throws)
        nod = G.MsgGen(meta, rng, p_opt=0.3, p_nodelim=0.5)
        k = 0
        for _ in range(4000):
            mt, hdr, body, trl = nod.message()
            if G.lacks_delimiter(meta, mt, body):
                cs.append(Case(px + "RT s " + G.ser_msg(mt, hdr, body, trl), "no-delimiter"))
                k += 1
                if k >= (40 if thorough else 12):
                    break
    return cs


def _parts(case):
    built = _state["built"]
    default = next(iter(built["exes"]))
    schema, rest = G.schema_of(case.line, default)
    w = rest.split(" ")
    if w[0] == "HYP":
        return built["metas"][schema], w[1], ""
    return built["metas"][schema], w[2], (w[3] if len(w) > 3 else "")


def nontrivial(case, r):
    if r == "1":
        return True
    st = r.split(" | ")
    if len(st) != 3 or not all(s.startswith("OK ") for s in st):
        return False
    return bytes.fromhex(st[0][3:]).count(b"\x01") >= 8


def c_negative_int(case, r, m):
    meta, spec, table = _parts(case)
    mt, hdr, body, trl = G.parse_msg(spec)
    return any(is_int(meta, f.fnum) and f.val.startswith(b"-") for part in (hdr, body, trl) for f in all_fields(part))


def c_float_value(case, r, m):
    """some float text whose REAL rendering (reported by the harness, carried in the case's table)
    denotes another value than the text"""
    meta, spec, table = _parts(case)
    if not table:
        return False
    for e in table.split(","):
        ty, _, rest = e.partition(":")
        t, _, rr = rest.partition("=")
        if not (G.FT_FLOAT <= int(ty) <= G.FT_END_FLOAT):
            continue
        try:
            a = float(bytes.fromhex(t).decode())
            b = float(bytes.fromhex(rr).decode()) if rr != "-" else None
        except ValueError:
            continue
        if b is None or abs(a - b) > 0.005 + 1e-9:
            return True
    return False


def c_no_delimiter(case, r, m):
    meta, spec, table = _parts(case)
    mt, hdr, body, trl = G.parse_msg(spec)
    return G.lacks_delimiter(meta, mt, body) or G.lacks_delimiter(meta, "header", hdr) or G.lacks_delimiter(meta, "trailer", trl)


CLASSIFIERS = {"negative-int": c_negative_int, "float-value-changed": c_float_value, "no-delimiter": c_no_delimiter}


def extra_search(rng, seeds, tier):
    return gen_cases(rng, tier)[:3000]


def shrink(case):
    try:
        meta, spec, table = _parts(case)
        i = case.line.index(spec)
        prefix, suffix = case.line[:i], case.line[i + len(spec):]
        mt, hdr, body, trl = G.parse_msg(spec)
    except Exception:
        return []
    out = []

    def variants(fs, owner):
        for i, f in enumerate(fs):
            t = meta.trait(owner, f.fnum)
            if t is not None and not t.mandatory:
                yield fs[:i] + fs[i + 1:]
            if f.elems:
                for j in range(len(f.elems)):
                    els = f.elems[:j] + f.elems[j + 1:]
                    yield fs[:i] + [G.Fld(f.fnum, str(len(els)).encode(), els)] + fs[i + 1:]
    for v in variants(hdr, "header"):
        out.append(Case(prefix + G.ser_msg(mt, v, body, trl) + suffix, "shrink"))
    for v in variants(body, mt):
        out.append(Case(prefix + G.ser_msg(mt, hdr, v, trl) + suffix, "shrink"))
    for v in variants(trl, "trailer"):
        out.append(Case(prefix + G.ser_msg(mt, hdr, body, v) + suffix, "shrink"))
    return out[:60]
