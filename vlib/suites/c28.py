"""C28 — loggers write every accepted line exactly once, in order."""
from vlib import build as B
from vlib.core import Case

ID = "C28"
LEVEL = "proof"
TECHNIQUE = ("Coq proof over all schedules of an interleaving model (producers / logger thread / stop(), queue abstracted as an "
             "atomic FIFO licensed by C30) of Logger::send/enqueue/stop and the consumer loop; refutation witnesses for the "
             "clauses the code violates; model tied to the code by running the real FileLogger with 1-8 producer threads and "
             "replaying the observed linearisation in the extracted model")
LEVEL_TEXT = ("Theorems for all schedules, producer counts and programs (code after repairs c53d854, 4b85524, aa7ec53): c28_order, "
              "c28_levels, c28_at_most_once, c28_numbering_plain / c28_numbering_direction (one number series without the direction flag whatever the vals, two with it), c28_return_exact/c28_return_ok, c28_all_written (when stop() has returned every line "
              "accepted before its request_stop has been written, exactly once), c28_all_written_done, c28_oracle_sound / "
              "c28_oracle_ok (the extracted oracle holds on the model); refuted: empty line taken for the stop marker; witnesses "
              "against earlier code: c28_lost_lines_orig_refuted, c28_return_orig_refuted, c28_stop_window_intermediate_refuted.")
LEVEL_NOTE = ("Partial: the logic is proved on the model; not proved are the atomicity/linearizability of the FastFlow queue "
              "(property C30), absence of data races, and the OS file semantics. The OS chooses the real schedule: the check "
              "replays the observed one in the model and requires the model to reproduce the file and return values exactly.")
DESIGN_REF = "DESIGN.md section 4, C28; finding F33"
PROPS_FILE = "Props/Properties_C28.v"
COQ_TARGETS = ["Props/Properties_C28.vo", "Extract/Extract_C28.vo"]
TRUSTED_BASE = ["Coq 8.16.1 kernel (coqc), vm_compute only for closed witnesses",
                "Extraction with ExtrOcamlBasic, no Extract Constant; OCaml 4.13.1",
                "hand-written model coq/C28/LoggerQ.v of runtime/logger.cpp:60-140 and include/fix8/logger.hpp:296-312 (FIX8_MPMC_FF branch), tied by differential execution; coq/C28/LoggerQOrig.v / LoggerQMid.v = the code before the repairs / between 4b85524 and aa7ec53, used only for witness theorems",
                "the queue abstraction (atomic FIFO) rests on property C30 (coq/C30), which is cited, not re-proved",
                "ocaml/prelude.ml + ocaml/c28_driver.ml (parsing, schedule inputs taken from the observed file), harness/h_c28.cpp "
                "(incl. the extraction of sequence / direction / text from XML lines and from text lines with further fields: the "
                "model formats only these three; timestamps, thread codes, level names and location strings are not modelled), vlib"]
ASSUMPTIONS = ["std::ofstream buffering is modelled as: a line inserted into the stream reaches the file when the stream is flushed, by the "
               "without the sequence flag the code does not advance its counters; the model keeps a line's ordinal in its series as a ghost "
               "number, which is neither printed nor compared (the driver numbers the lines of such a file by counting)",
               "endl that follows every line (unbuffered path, no nolf/buffer flag) or on destruction; the theorems about written lines "
               "speak about flushed content, the harness reads the file before the logger is destroyed",
               "ff::uMPMC_Ptr_Queue behaves as an atomic FIFO (C30); try_push never fails (no allocation failure)",
               "sequentially consistent interleaving of the modelled atomic actions; _stopping, _sequence and the stream are "
               "only touched as modelled (set_levels/set_flags are not called concurrently)",
               "all producers have finished before stop() is called (the property speaks of lines submitted before the stop)"]
RULE = ("FileLogger in the basic layout (sequence [direction] text) for most cases, plus a few dozen cases each for XmlFileLogger, "
        "PipeLogger (|cat > file) and FileLogger with further fields (mstart, sstart, thread, timestamp, minitimestamp, level, location; "
        "send() with and without a file/line string; also WITHOUT the sequence flag, down to no prefix field at all and location alone): there the harness extracts sequence, direction and text from every written line "
        "(a line from which they cannot be extracted fails the oracle); a class of texts that end in or contain line ends (\\n, \\r\\n, "
        "only \\n; as the last line before stop() and mid-run). The file is read when stop() has returned and BEFORE the logger is "
        "destroyed, and counted again after the destruction: nothing may appear only then. 1..8 producer threads x 0..200 submit calls with levels Debug..Fatal against level masks 0..31 (none, all, single, random), "
        "three quarters of the cases with an explicit val argument per call drawn from {0, 1, other} (all equal, alternating, "
        "per producer, random) on a logger with or without the direction flag (sequence numbering: one series / two series), "
        "texts carrying producer and call number; stop() (a) by the producer finishing last, (b) 0..2000 us after the producers "
        "were joined, (c) after the file was seen complete; a few programs contain an empty text (the stop marker) at an enabled or "
        "disabled level. The OS decides the interleaving of the producers: the observed linearisation is replayed in the "
        "model, which in every mode writes everything it can reach before stop() returns (exact file, sequence numbers and "
        "return values must agree). "
        "non-trivial = at least two calls at an enabled level; distinct = distinct case lines")

RT = ["logger.cpp", "f8utils.cpp", "gzstream.cpp", "modp_numtoa.c"]


def build(tier):
    return {"impl": [B.harness("h_c28", runtime=RT)], "per_case_timeout": 60}


def rand_mask(rng):
    m = rng.randrange(10)
    if m < 4:
        return 31
    if m == 4:
        return 1 << rng.randrange(5)
    if m == 5:
        return 0
    if m == 6:
        return 28          # Logger::Errors
    return rng.randrange(32)


def rand_len(rng, big):
    m = rng.randrange(10)
    if m == 0:
        return 0
    if m < 4:
        return rng.randrange(1, 6)
    if m < 8:
        return rng.randrange(1, 41)
    return rng.randrange(40, 201) if big else rng.randrange(20, 81)


def rand_prog(rng, n, mask, empties=0.0):
    lv = rng.randrange(4)
    out = []
    for _ in range(n):
        if lv == 0:
            l = rng.randrange(5)
        elif lv == 1:
            l = rng.choice([1, 1, 1, 3])
        elif lv == 2:
            en = [b for b in range(5) if mask >> b & 1] or [1]
            l = rng.choice(en)
        else:
            l = rng.choice([0, 4])
        if empties and rng.random() < empties:
            out.append("abcde"[l])
        else:
            out.append(str(l))
    return "".join(out) or "-"


def rand_vals(rng, progs):
    """the val argument of every call ('0' -> 0, '1' -> 1, '2' -> another non-zero value)"""
    m = rng.randrange(6)
    out = []
    for p in progs:
        n = 0 if p == "-" else len(p)
        if m == 0:
            v = "0" * n
        elif m == 1:
            v = "1" * n
        elif m == 2:
            v = "".join("01"[k % 2] for k in range(n))
        elif m == 3:
            v = rng.choice("012") * n          # one val per producer
        else:
            v = "".join(rng.choice("012") for _ in range(n))
        out.append(v or "-")
    return out


LAYOUT_FLAGS = "msttTMlL".replace("tt", "t")


def rand_layout(rng):
    if rng.random() < 0.35:
        # without the sequence flag: no prefix field at all ("Q" with direction 0), location alone, any subset of the others
        return "Q" + rng.choice(["", "", "L", "L", "t", "l", "lL", "T", "M", "ms", "".join(f for f in "mstTMlL" if rng.random() < 0.4)])
    m = rng.randrange(6)
    if m == 0:
        return "-"
    if m == 1:
        return "L"
    if m == 2:
        return rng.choice(["tL", "lL", "TL", "ML", "msL"])
    if m == 3:
        return "mstTMlL"
    return "".join(f for f in "mstTMlL" if rng.random() < 0.5) or "-"


def mk_kind(rng, kind, mode, mask, delay, progs, cls):
    """a case for another logger kind / line layout: X = XmlFileLogger, P = PipeLogger, F = FileLogger with more fields"""
    locm = rng.randrange(4)
    locs = []
    for p in progs:
        n = 0 if p == "-" else len(p)
        if locm == 0:
            v = "0" * n
        elif locm == 1:
            v = "1" * n
        else:
            v = "".join(rng.choice("01") for _ in range(n))
        locs.append(v or "-")
    layout = "-" if kind == "P" and rng.random() < 0.5 else rand_layout(rng)
    return Case("%s %d %d %s %d %s %s %s %s" % (mode, mask, delay, ",".join(progs), rng.randrange(2),
                                                ",".join(rand_vals(rng, progs)), kind, layout, ",".join(locs)), cls)


def mk(mode, mask, delay, progs, cls, rng=None):
    line = "%s %d %d %s" % (mode, mask, delay, ",".join(progs))
    if rng is not None and rng.random() < 0.75:
        # logger with / without the direction flag, calls with val in {0, 1, other}
        line += " %d %s" % (rng.randrange(2), ",".join(rand_vals(rng, progs)))
    return Case(line, cls)


def gen_one(rng, cls, big=True):
    mask = rand_mask(rng)
    if cls == "single-c":
        return mk("c", mask, 0, [rand_prog(rng, rand_len(rng, big), mask)], cls, rng)
    if cls == "multi-c":
        n = rng.randrange(2, 9)
        return mk("c", mask, 0, [rand_prog(rng, rand_len(rng, big), mask) for _ in range(n)], cls, rng)
    if cls == "stop-a":
        n = rng.randrange(1, 9)
        return mk("a", mask, 0, [rand_prog(rng, rand_len(rng, big), mask) for _ in range(n)], cls, rng)
    if cls == "stop-b":
        n = rng.randrange(1, 9)
        return mk("b", mask, rng.choice([0, 50, 150, 250, 400, 1000, 2000, rng.randrange(2001)]),
                  [rand_prog(rng, rand_len(rng, big), mask) for _ in range(n)], cls)
    if cls == "levels":
        n = rng.randrange(1, 4)
        mask = rng.choice([0, 31, 1, 2, 4, 8, 16, 28, 3, 30])
        return mk(rng.choice("cab"), mask, 100, ["".join(str(rng.randrange(5)) for _ in range(rng.randrange(5, 30))) for _ in range(n)], cls, rng)
    if cls in ("xml", "layout", "pipe"):
        kind = {"xml": "X", "layout": "F", "pipe": "P"}[cls]
        n = rng.randrange(1, 5)
        if rng.random() < 0.5:
            mask = 31
        progs = [rand_prog(rng, rng.randrange(1, 25), mask) for _ in range(n)]
        return mk_kind(rng, kind, rng.choice("cab"), mask, rng.choice([0, 100, 500]), progs, cls)
    if cls == "newline":
        # texts that bring their own line ends: trailing "\n", embedded "\n", "\r\n", only "\n"; as the LAST line before stop()
        # (the endl after the text is also the flush) and mid-run; basic layout of FileLogger
        n = rng.choice([1, 1, 2, 3])
        mask = 31 if rng.random() < 0.7 else mask
        progs = [rand_prog(rng, rng.randrange(1, 12), mask) for _ in range(n)]
        forms = "nerN" if n == 1 else "ner"        # a text that is only "\n" does not tell its producer
        txts = []
        for p in progs:
            ln = 0 if p == "-" else len(p)
            t = ["0"] * ln
            m = rng.randrange(4)
            for k in range(ln):
                if m == 0 and k == ln - 1:
                    t[k] = rng.choice(forms)                 # only the last call
                elif m == 1 and rng.random() < 0.3:
                    t[k] = rng.choice(forms)                 # some, anywhere
                elif m == 2:
                    t[k] = rng.choice(forms)                 # all
                elif m == 3 and (k == ln - 1 or rng.random() < 0.2):
                    t[k] = rng.choice(forms)
            txts.append("".join(t) or "-")
        return Case("%s %d %d %s %d %s F - %s %s" % (rng.choice("caab"), mask, rng.choice([0, 100, 1000]), ",".join(progs),
                                                     rng.randrange(2), ",".join(rand_vals(rng, progs)),
                                                     ",".join("0" * (0 if p == "-" else len(p)) or "-" for p in progs),
                                                     ",".join(txts)), cls)
    if cls == "empty":
        n = rng.randrange(1, 4)
        progs = [rand_prog(rng, rng.randrange(2, 12), mask, 0.15) for _ in range(n)]
        if not any(ch in "abcde" for p in progs for ch in p):
            progs[0] = progs[0].replace("-", "") + "b1"
        return mk(rng.choice("ab"), mask, 100, progs, cls, rng)
    raise ValueError(cls)


CLASSES = ["single-c", "multi-c", "stop-a", "stop-b", "xml", "multi-c", "layout", "levels", "newline", "empty", "xml", "pipe", "stop-b", "newline"]


def gen_cases(rng, tier):
    thorough = tier == "thorough"
    cs = [Case("c 18 0 101,14", "fixed"), Case("c 31 0 -", "fixed"), Case("a 0 0 123,-", "fixed"),
          Case("c 31 0 1111,222 1 0120,101", "fixed"), Case("c 31 0 1111,222 0 0120,101", "fixed"),
          Case("c 2 0 1111 0 0101", "fixed"), Case("a 31 0 11 1 -", "fixed"),
          Case("c 31 0 1111,222 1 0120,101 X tL 0101,111", "xml"), Case("c 31 0 11 0 00 X L 00", "xml"),
          Case("c 31 0 112 1 010 F mstTMlL 010", "layout"), Case("c 31 0 111,22 1 010,11 P - -", "pipe"),
          Case("c 31 0 111,22 0 000,00 F Q 000,00", "layout"), Case("c 31 0 111 0 000 F QL 010", "layout"),
          Case("c 31 0 111,2 1 010,1 F Q 000,0", "layout"), Case("c 31 0 11 1 01 X QtL 01", "xml"), Case("c 31 0 111 0 010 P QlL 101", "pipe"),
          Case("c 31 0 1111 0 0000 F - 0000 0ner", "newline"), Case("a 31 0 11 1 01 F - 00 Nn", "newline"),
          Case("c 31 0 1 0 0 F - 0 n", "newline"), Case("b 31 500 111,22 0 000,00 F - 000,00 00n,en", "newline"),
          Case("c 2 0 1b1", "empty-c"), Case("c 31 0 0a,111", "empty-c"), Case("c 1 0 1b1,22", "fixed")]
    n = 2500 if thorough else 260
    for i in range(n):
        cs.append(gen_one(rng, CLASSES[i % len(CLASSES)], big=thorough or i % 4 == 0))
    # 8 threads x 200 lines once
    cs.append(mk("c", 31, 0, [rand_prog(rng, 200, 31) for _ in range(8)], "multi-c", rng))
    cs.append(mk("a", 31, 0, [rand_prog(rng, 200, 31) for _ in range(8)], "stop-a", rng))
    return cs


def parse(case):
    mode, mask, delay, progs = case.line.split()[:4]
    return mode, int(mask), int(delay), [("" if p == "-" else p) for p in progs.split(",")]


def lev(ch):
    return "abcde".index(ch) if ch in "abcde" else int(ch)


def nfile(r):
    for w in r.split():
        if w.startswith("file="):
            return 0 if w == "file=-" else w.count(",") + 1
    return -1


def nontrivial(case, r):
    # by the case, not by the (schedule dependent) result: at least two calls at an enabled level
    mode, mask, delay, progs = parse(case)
    return sum(1 for p in progs for ch in p if mask >> lev(ch) & 1) >= 2


def c_ret(case, r, m):
    mode, mask, delay, progs = parse(case)
    return any(mask >> lev(ch) & 1 for p in progs for ch in p)


def c_lost(case, r, m):
    """(finding repaired by 4b85524+aa7ec53; kept for the record) stop() was called without waiting for the queue (modes a, b)
    and the file is short of accepted lines"""
    mode, mask, delay, progs = parse(case)
    want = sum(1 for p in progs for ch in p if mask >> lev(ch) & 1)
    return mode in ("a", "b") and 0 <= nfile(r) < want


def c_empty(case, r, m):
    mode, mask, delay, progs = parse(case)
    return any(ch in "abcde" and mask >> lev(ch) & 1 for p in progs for ch in p)


CLASSIFIERS = {"send-enabled-level": c_ret, "stop-before-drain": c_lost, "empty-line-enabled": c_empty}


def extra_search(rng, seeds, tier):
    return [gen_one(rng, CLASSES[i % len(CLASSES)], big=False) for i in range(150)]


# no shrink(): every case with an enabled-level call fails the oracle (return value), so the framework's shrinker,
# which only looks at the oracle bit, would walk from a new failure into a known one.


def extra_evidence(ctx):
    """The harness works under /tmp/C28-<pid>/ and removes it on exit; a harness process that was killed (sanitizer abort of
    a mutant, time-out) cannot, so directories of dead processes are removed here."""
    import glob
    import os
    import shutil
    for d in glob.glob("/tmp/C28-[0-9]*"):
        pid = d.rsplit("-", 1)[1]
        if pid.isdigit() and not os.path.exists("/proc/" + pid):
            shutil.rmtree(d, ignore_errors=True)
    return {}
