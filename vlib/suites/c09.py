"""C09 — date/time field codecs are calendar-correct inverses."""
import calendar
import datetime

import os
import re
import subprocess

from vlib import build as B
from vlib import core
from vlib.core import Case

ID = "C09"
LEVEL = "proof"
TECHNIQUE = ("Coq proofs (finite calendar sweeps by vm_compute with the bound in the statement, induction on the "
             "field width for the digit codecs, exact rational error analysis of the binary64 seconds value) about "
             "a hand-written Gallina model of format0/parse_decimal/time_to_epoch/date_time_format/date_time_parse/"
             "time_parse/date_parse/GetTimeAsStringMS; model tied to the code by differential execution "
             "(extracted OCaml vs the real field classes under ASan/UBSan, gmtime_r included, on every day 1970..2099)")
LEVEL_TEXT = ("Theorems: civil_of_days (stand-in for gmtime_r) agrees with the specification calendar on all 47482 days and "
              "time_to_epoch inverts it on every valid date 1970..2099 (complete sweeps); parse_decimal inverts format0 for "
              "every width; c09_roundtrip: for EVERY nanosecond tick count 1970-01-01..2100-01-01 all six renderings are the "
              "calendar text of the instant and parse back to their component; c09_parse: the string constructors invert every "
              "well-formed text of the range; c09_y2038_orig_refuted: the int evaluation before repair 4d1009d failed from "
              "2038-01-19T03:14:08 on; c09_log_partial / c09_log_seconds_refuted: exactly when the log renderer shows second 60.")
LEVEL_NOTE = ("Trusted: Coq kernel, extraction, the hand transcription (checked by the correspondence run, which "
              "includes glibc gmtime_r against civil_of_days on all 47482 days and printf's rounding of binary64 "
              "against the exact integer model).")
DESIGN_REF = "DESIGN.md section 4, C09 (finding F16; the int overflow of time_to_epoch after 2038 was found here and repaired in 4d1009d)"
PROPS_FILE = "Props/Properties_C09.v"
COQ_TARGETS = ["Props/Properties_C09.vo", "Extract/Extract_C09.vo"]
TRUSTED_BASE = ["Coq 8.16.1 kernel (coqc), vm_compute only",
                "Extraction with ExtrOcamlBasic, no Extract Constant; OCaml 4.13.1",
                "hand-written model coq/C09/DateTime.v of include/fix8/field.hpp, include/fix8/tickval.hpp and "
                "runtime/f8utils.cpp:GetTimeAsStringMS, tied by differential execution",
                "civil_of_days stands for glibc gmtime_r: compared on every day 1970-01-01..2099-12-31 in every run",
                "binary64 division/addition (round to nearest even) and glibc printf %.*f (exact decimal expansion, "
                "ties to even) modelled in exact integer arithmetic; compared on every generated log case",
                "thread-safety (re-entrancy) of the rendering/parsing path is established by the concurrent differential run "
                "(class C) and, in the thorough tier, a ThreadSanitizer build of the same harness -- not by a theorem: the "
                "Gallina model is a pure function and cannot exhibit a data race; the theorems are about the sequential codec",
                "ocaml/prelude.ml + ocaml/c09_driver.ml (number/escape conversion), harness/h_c09.cpp, vlib",
                "g++ 12 -fsanitize=address,undefined; the signed-integer-overflow check in recover mode for "
                "the harness translation unit so that the wrapped result is observed"]
ASSUMPTIONS = ["process time zone pinned to TZ=UTC for the run: GetTimeAsStringMS(use_gm=false) and Tickval's operator<< "
               "go through localtime_r and print local time otherwise; the FIX field codecs use gmtime_r only "
               "(LocalMktDate is a plain date string, no zone arithmetic)",
               "outside the property's range (malformed texts, tick counts beyond 2262) signed overflow of the 64-bit "
               "products (undefined behaviour) wraps as on x86-64/gcc; UBSan reports it once per site and continues, the model "
               "carries a flag separately; inside the range the theorems show no such operation is executed; every other "
               "UBSan/ASan check (shifts, bounds, memory) traps",
               "std::chrono clocks have nanosecond period (Linux libstdc++), time_t and long are 64 bit",
               "strings handed to the const char* constructors are NUL terminated blocks; reads past the NUL trap under ASan",
               "default floating point environment (round to nearest), SSE2 double arithmetic without excess precision"]
RULE = ("G: get_tm (gmtime_r) of EVERY day 1970-01-01..2099-12-31 against civil_of_days, every run; "
        "T: instants (second of day x millisecond from {0,1,43199,43200,86399} x {0,1,499,500,999}): quick = one on every "
        "9th day, two on each leap day/month end/year end, all 25 on 1970-01-01, 2000-02-29, 2038-01-19, 2099-12-31...; "
        "thorough = three on EVERY day (rotating: 9 consecutive days cover all 25) and all 25 on the special days; always "
        "the seconds around 2^31, random nanosecond instants, a few outside the range; "
        "P: valid texts of every field type (17/21 and 8/12 character forms, 6/8 MonthYear) plus malformed ones (wrong "
        "length, a non-digit in EVERY position of every form, characters below '0' leading a field, bytes >= 0x80, month "
        "00/13/14/99, out-of-range day/time digits, truncated) and a few texts shorter than what the decoders read; L: precisions 0..9 on instants with nsec in "
        "{0, 4*10^k, 5*10^k, 999999999-j, decimal ties, random} and second-of-minute in {0,58,59,random}; "
        "S: CALL SEQUENCES of the log renderer inside one harness process (it is specified as stateless): instants of the "
        "same minute with other seconds (ascending, descending, same), precisions mixed (9 then 0, 0 then 0, 3 then 0), both "
        "use_gm values also interleaved, minute boundaries (:59, next :00, back), each call rendered independently by the model; "
        "C: CONCURRENT rendering: K = 2 and 4 real threads, each with its own Field objects and its own instants (own 30-year "
        "band, own times of day), 400000 print()+string-constructor round trips per thread over all six field types, started "
        "together and joined; per thread the number of renderings that differ from the single-threaded rendering of the same "
        "instant must be 0 (thorough: the same harness also under ThreadSanitizer). "
        "non-trivial = day/instant in range and not the epoch (G, T), constructor returned ticks (P), nsec != 0 and dplaces > 0 (L); "
        "distinct = distinct case lines")

NS = 10 ** 9
DAY_NS = 86400 * NS
DAYS = 47482
SODS = (0, 1, 43199, 43200, 86399)
MSS = (0, 1, 499, 500, 999)
COMBOS = [(s, m) for s in SODS for m in MSS]
EPOCH = datetime.date(1970, 1, 1)


RUNTIME = ["f8utils.cpp", "modp_numtoa.c"]
ENV = {"TZ": "UTC", "UBSAN_OPTIONS": "print_stacktrace=0:halt_on_error=0",
       # no symbolizer: a trapping case (class "overrun") costs two process starts, not several seconds
       "ASAN_OPTIONS": "detect_leaks=0:abort_on_error=0:halt_on_error=1:allocator_may_return_null=1:"
                       "detect_stack_use_after_return=0:symbolize=0"}


def build(tier):
    # halt_on_error=0: the one recover-mode check reports and continues; all other checks are compiled
    # with -fno-sanitize-recover and still abort
    exe = B.harness("h_c09", runtime=RUNTIME, extra=["-fsanitize-recover=signed-integer-overflow"])
    built = {"impl": [exe], "env": ENV, "batch_timeout": 1800, "per_case_timeout": 300}
    if tier == "thorough":
        # the same harness under ThreadSanitizer, used for the concurrent class only
        built["tsan"] = [B.harness("h_c09", variant="tsan", runtime=RUNTIME)]
    return built


def run_impl(built, cases, tier):
    impl = core.run_lines(built["impl"], [c.line for c in cases], env=built.get("env"),
                          per_case_timeout=built.get("per_case_timeout", 20),
                          timeout_per_batch=built.get("batch_timeout", 900))
    if "tsan" in built:
        env = dict(os.environ, TZ="UTC", TSAN_OPTIONS="halt_on_error=0:report_signal_unsafe=0:exitcode=66")
        for k, c in enumerate(cases):
            if c.line.startswith("C ") and impl[k].startswith("K0="):
                # fewer iterations: a data race is reported on its first occurrence, not on a lucky interleaving
                w = c.line.split()
                line = "C %d %s" % (min(int(w[1]), 20000), w[2])
                try:
                    p = subprocess.run(built["tsan"], input=(line + "\n").encode(), stdout=subprocess.PIPE,
                                       stderr=subprocess.PIPE, timeout=600, env=env)
                    err = p.stderr.decode(errors="replace")
                    m = re.search(r"ThreadSanitizer: ([a-z ]+)", err)
                    if m:
                        site = re.search(r"#\d+ (\S+) (/[^\s:]+):(\d+)", err)
                        impl[k] = "TSAN %s%s" % (m.group(1).strip(), (" in %s" % site.group(1)) if site else "")
                    elif p.returncode != 0:
                        impl[k] = "TSAN-RUN exit %d" % p.returncode
                except subprocess.TimeoutExpired:
                    impl[k] = "TSAN-RUN HANG"
    return impl


def day_of(y, m, d):
    return (datetime.date(y, m, d) - EPOCH).days


def T(ticks, cls):
    return Case("T %d" % ticks, cls)


def P(kind, text, cls):
    if isinstance(text, str):
        text = text.encode("latin-1")
    return Case("P %s %s" % (kind, text.hex() or "-"), cls)


def L(secs, nsecs, d, cls):
    return Case("L %d %d %d" % (secs, nsecs, d), cls)


def special_days():
    ds = set()
    for y in range(1970, 2100):
        for m in range(1, 13):
            last = calendar.monthrange(y, m)[1]
            if y % 10 == 0 or m in (2, 3, 12, 1):
                ds.add(day_of(y, m, last))
                ds.add(day_of(y, m, 1))
        if y % 4 == 0:
            ds.update((day_of(y, 2, 28), day_of(y, 2, 29), day_of(y, 3, 1)))
    ds.update((0, 1, day_of(2000, 2, 29), day_of(2038, 1, 18), day_of(2038, 1, 19), day_of(2038, 1, 20),
               day_of(2038, 2, 1), day_of(2099, 12, 31), day_of(2099, 12, 30)))
    return sorted(ds)


def fmt(kind, t):
    """Reference text of instant t (ns) — used only to build valid parse inputs."""
    secs, ns = divmod(t, NS)
    dt = datetime.datetime(1970, 1, 1) + datetime.timedelta(seconds=secs)
    ms = ns // 10 ** 6
    if kind == "TS":
        return dt.strftime("%Y%m%d-%H:%M:%S") + ".%03d" % ms
    if kind == "TS17":
        return dt.strftime("%Y%m%d-%H:%M:%S")
    if kind == "TO":
        return dt.strftime("%H:%M:%S") + ".%03d" % ms
    if kind == "TO8":
        return dt.strftime("%H:%M:%S")
    if kind == "M6":
        return dt.strftime("%Y%m")
    return dt.strftime("%Y%m%d")


def G(day, cls):
    return Case("G %d" % day, cls)


def gen_G(rng, tier):
    """gmtime_r against civil_of_days: every day of the range, every run (plus a margin outside it)."""
    cs = [G(d, "gmtime-every-day") for d in range(DAYS)]
    cs += [G(d, "gmtime-outside") for d in list(range(-800, 0, 37)) + list(range(DAYS, DAYS + 800, 37)) + [-25567, -100000, 100000]]
    return cs


def gen_T(rng, tier):
    cs = []
    thorough = tier == "thorough"
    rot = rng.randrange(25)
    special = special_days()
    if thorough:
        # every day with three of the 25 (second, millisecond) combinations, rotating so that any nine
        # consecutive days cover all 25; all 25 on the special days
        for d in range(DAYS):
            for j in range(3):
                s, m = COMBOS[(d * 3 + j + rot) % 25]
                cs.append(T(d * DAY_NS + s * NS + m * 10 ** 6, "every-day"))
        for d in special:
            for (s, m) in COMBOS:
                cs.append(T(d * DAY_NS + s * NS + m * 10 ** 6, "special-day"))
    else:
        for d in range(rng.randrange(9), DAYS, 9):
            s, m = COMBOS[(d * 7 + rot) % 25]
            cs.append(T(d * DAY_NS + s * NS + m * 10 ** 6, "every-9th-day"))
        for d in special:
            for j in range(2):
                s, m = COMBOS[(d * 2 + j + rot) % 25]
                cs.append(T(d * DAY_NS + s * NS + m * 10 ** 6, "special-day"))
        for d in (0, day_of(1972, 2, 29), day_of(2000, 2, 29), day_of(2036, 2, 29), day_of(2038, 1, 19),
                  day_of(2096, 2, 29), day_of(2099, 12, 31)):
            for (s, m) in COMBOS:
                cs.append(T(d * DAY_NS + s * NS + m * 10 ** 6, "special-day"))
    for s in range(2 ** 31 - 3, 2 ** 31 + 3):
        for m in (0, 1, 999):
            cs.append(T(s * NS + m * 10 ** 6, "y2038-boundary"))
    # the last days whose date part still fits (day*86400 < 2^31) and the month start after it
    for d in (24854, 24855, 24856, 24868, 24869):
        for s in (0, 11647, 11648, 86399):
            cs.append(T(d * DAY_NS + s * NS, "y2038-boundary"))
    for _ in range(20000 if thorough else 1000):
        mode = rng.randrange(4)
        if mode == 0:
            t = rng.randrange(0, DAYS * DAY_NS)                       # any nanosecond
        elif mode == 1:
            t = rng.randrange(0, 2 ** 31 * NS)                        # before 2038
        elif mode == 2:
            t = rng.randrange(0, DAYS * 86400 * 1000) * 10 ** 6       # millisecond instant
        else:
            t = rng.randrange(0, DAYS) * DAY_NS + rng.choice(SODS) * NS + rng.choice((0, 999999, 1000000, 999999999))
        cs.append(T(t, "random-instant"))
    # outside the property's range: the model must still agree with the code
    for t in (-1, -10 ** 6, -999999999, -NS, -NS - 1, -DAY_NS, -DAY_NS - 1, -365 * DAY_NS + 123456789,
              DAYS * DAY_NS, DAYS * DAY_NS + 58 * DAY_NS, DAYS * DAY_NS + 59 * DAY_NS, DAYS * DAY_NS + 60 * DAY_NS,
              (DAYS + 366) * DAY_NS, 9223372036854775807, 2 ** 32 * NS, (2 ** 32 + 5) * NS + 5):
        cs.append(T(t, "out-of-range"))
    for _ in range(40):
        cs.append(T(rng.randrange(-25000 * DAY_NS, 0), "out-of-range"))
        cs.append(T(rng.randrange(DAYS * DAY_NS, 2 ** 63), "out-of-range"))
    return cs


def gen_P(rng, tier):
    cs = []
    thorough = tier == "thorough"
    n = 6000 if thorough else 600
    for i in range(n):
        t = rng.randrange(0, DAYS * DAY_NS) if i % 3 else rng.randrange(0, 2 ** 31 * NS)
        k = rng.choice(("TS", "TS17", "TO", "TO8", "DO", "LD", "M6", "M8"))
        kind = {"TS17": "TS", "TO8": "TO", "M6": "MY", "M8": "MY"}.get(k, k)
        cs.append(P(kind, fmt(k if k in ("TS", "TS17", "TO", "TO8", "M6") else "D", t), "valid-text"))
    # leap days and month ends as texts
    for y in (1972, 2000, 2036, 2040, 2096):
        for txt in ("%04d0229" % y, "%04d0228" % y, "%04d0301" % y, "%04d1231" % y):
            cs.append(P("DO", txt, "valid-text"))
            cs.append(P("MY", txt, "valid-text"))
            cs.append(P("TS", txt + "-23:59:59.999", "valid-text"))
        cs.append(P("MY", "%04d02" % y, "valid-text"))
    # malformed: mutate valid texts (since da4ab8c no character can make the decoders trap)
    m = 3000 if thorough else 500
    for i in range(m):
        t = rng.randrange(0, DAYS * DAY_NS)
        k = rng.choice(("TS", "TS17", "TO", "TO8", "D", "M6"))
        kind = {"TS17": "TS", "TO8": "TO", "M6": "MY", "D": rng.choice(("DO", "LD", "MY"))}.get(k, k)
        b = bytearray(fmt(k, t).encode())
        has_month = k in ("TS", "TS17", "D", "M6")
        mode = rng.randrange(7)
        if mode == 0:       # one byte replaced, any position
            b[rng.randrange(len(b))] = rng.choice((0x20, 0x2f, 0x3a, 0x3b, 0x41, 0x7f, 0x80, 0xff, 0x2d, 0x2e, 0x30, 0x39, 0x01))
        elif mode == 1:     # extended (length no longer one of the accepted ones)
            b += bytes(rng.choice((0x30, 0x39, 0x5a, 0x2e)) for _ in range(rng.randrange(1, 5)))
        elif mode == 2:     # month outside 01..12 (table index clamped by the code)
            if has_month:
                b[4:6] = rng.choice((b"00", b"13", b"14", b"19", b"99", b"12", b"01", b" 1", b"-1", b"/9", b"\xff\xff", b":0"))
        elif mode == 3:     # day / hour / minute / second out of range (no check in the code)
            pos = rng.randrange(len(b) - 1)
            b[pos:pos + 2] = rng.choice((b"00", b"32", b"60", b"99", b"24"))
        elif mode == 4:     # several random bytes
            for _ in range(rng.randrange(1, 4)):
                b[rng.randrange(len(b))] = rng.randrange(1, 256)
        elif mode == 5:     # truncated but not shorter than what is read unconditionally
            keep = {"TS": 16, "TS17": 16, "TO": 7, "TO8": 7, "D": 5, "M6": 5}[k]
            b = b[:rng.randrange(keep, len(b) + 1)]
        else:               # a character below '0' leading a field (negative intermediate value)
            starts = {"TS": (0, 4, 6, 9, 12, 15, 18), "TS17": (0, 4, 6, 9, 12, 15), "TO": (0, 3, 6, 9), "TO8": (0, 3, 6),
                      "D": (0, 4, 6), "M6": (0, 4)}[k]
            b[rng.choice(starts)] = rng.choice((0x20, 0x2b, 0x2d, 0x2f, 0x01, 0x80, 0xff))
        if bytes(b) in (b"", b"now") or 0 in b:
            continue
        cs.append(P(kind, bytes(b), "malformed-text"))
    # every position of every form with a non-digit, and every out-of-table month
    if True:
        t = day_of(2024, 2, 29) * DAY_NS + 45296789 * 10 ** 6
        for k in ("TS", "TS17", "TO", "TO8", "D", "M6"):
            kind = {"TS17": "TS", "TO8": "TO", "M6": "MY", "D": "DO"}.get(k, k)
            base = fmt(k, t).encode()
            for pos in range(len(base)):
                for ch in ((0x2f, 0x3a, 0x20, 0xff) if thorough else (rng.choice((0x2f, 0x20, 0x2d, 0x01)), rng.choice((0x3a, 0x41, 0xff, 0x80)))):
                    b = bytearray(base)
                    b[pos] = ch
                    cs.append(P(kind, bytes(b), "malformed-text"))
            if k in ("TS", "TS17", "D", "M6"):
                for mm in (b"00", b"13", b"14", b"99"):
                    b = bytearray(base)
                    b[4:6] = mm
                    cs.append(P(kind, bytes(b), "malformed-month"))
    # a handful that make the parser read outside the text (each one costs a process restart)
    overruns = (("TS", "2014"), ("TO", "10:00"), ("DO", "9"), ("TS", "20140101-10:00"), ("MY", "2014"), ("LD", "99"),
                ("TS", "20140101-10"), ("TO", "10"), ("MY", "9"), ("TS", "20140101-10:00:"), ("TO", "10:00:"))
    for kind, txt in (overruns if thorough else overruns[:6]):
        cs.append(P(kind, txt, "overrun"))
    return cs


def gen_L(rng, tier):
    cs = []
    thorough = tier == "thorough"
    nsecs = {0, 1, 999999999}
    for k in range(0, 9):
        nsecs.update((4 * 10 ** k, 5 * 10 ** k, 10 ** 9 - 5 * 10 ** k, 10 ** 9 - 5 * 10 ** k - 1, 10 ** 9 - 5 * 10 ** k + 1,
                      10 ** 9 - 4 * 10 ** k, 10 ** 9 - 10 ** k))
    for j in range(0, 12):
        nsecs.add(999999999 - j)
    # decimal ties that are exact in binary (x.5, x.25, x.125 ...) and their neighbours
    for k in range(1, 10):
        for odd in (1, 3, 5, 7):
            v = odd * 10 ** 9 // 2 ** k
            if odd < 2 ** k and (odd * 10 ** 9) % 2 ** k == 0:
                nsecs.update((v, v - 1, v + 1))
    nsecs = sorted(x for x in nsecs if 0 <= x < 10 ** 9)
    bases = [0, 59, 58, 119, day_of(2000, 2, 29) * 86400 + 86399, day_of(2038, 1, 19) * 86400 + 11647,
             DAYS * 86400 - 1, day_of(2099, 12, 31) * 86400 + 59]
    for _ in range(12 if thorough else 3):
        m = rng.randrange(0, DAYS * 1440)
        bases += [m * 60 + 59, m * 60 + rng.randrange(60)]
    for b in bases:
        for n in nsecs:
            if thorough:
                ds = range(0, 10)
            elif b % 60 >= 58:
                ds = (0, 9, rng.randrange(1, 9), rng.randrange(1, 9), rng.randrange(1, 9))
            else:
                ds = (rng.randrange(0, 10),)
            for d in ds:
                cs.append(L(b, n, d, "log-boundary"))
    for _ in range(20000 if thorough else 1000):
        secs = rng.randrange(0, DAYS * 86400)
        if rng.randrange(3) == 0:
            secs = secs - secs % 60 + 59
        mode = rng.randrange(3)
        if mode == 0:
            n = rng.randrange(10 ** 9)
        elif mode == 1:
            n = 10 ** 9 - 1 - rng.randrange(10 ** rng.randrange(1, 9))
        else:
            n = rng.randrange(1000) * 10 ** 6
        cs.append(L(secs, n, rng.randrange(0, 10), "log-random"))
    return cs


def S(calls, cls):
    return Case("S " + " ".join("%d,%d,%d,%d" % c for c in calls), cls)


def gen_S(rng, tier):
    """Call sequences in ONE harness process: the renderer is specified as stateless, so renderings of instants
    of the same minute (other second, other precision, other zone flag) and across minute boundaries must not
    influence each other.  nsecs stay below 0.9 s so that the known carry-to-60 finding is not involved."""
    cs = []
    thorough = tier == "thorough"

    def ns():
        return rng.choice((0, 1, 499999999, rng.randrange(900000000)))

    minutes = [0, 1, day_of(2000, 2, 29) * 1440 + 1439, day_of(2038, 1, 19) * 1440 + 194, DAYS * 1440 - 1]
    minutes += [rng.randrange(0, DAYS * 1440 - 1) for _ in range(60 if thorough else 12)]
    for m in minutes:
        b = m * 60
        for g in (1, 0):
            s1, s2 = sorted(rng.sample(range(60), 2))
            for d1 in (9, 0, 3):
                cs.append(S([(b + s1, ns(), d1, g), (b + s2, ns(), 0, g)], "seq-ascending"))
                cs.append(S([(b + s2, ns(), d1, g), (b + s1, ns(), 0, g)], "seq-descending"))
                cs.append(S([(b + s1, ns(), d1, g), (b + s1, ns(), 0, g), (b + s2, ns(), 0, g)], "seq-same-second"))
            # minute boundary: :59, next minute :00, and back
            if m + 1 < DAYS * 1440:
                cs.append(S([(b + 59, ns(), rng.choice((0, 3, 9)), g), (b + 60, ns(), 0, g), (b + 59, ns(), 0, g),
                             (b + 61, ns(), 0, g)], "seq-minute-boundary"))
        # both zone flags interleaved, and a longer random walk inside the minute
        cs.append(S([(b + rng.randrange(60), ns(), 0, 1), (b + rng.randrange(60), ns(), 0, 0),
                     (b + rng.randrange(60), ns(), 0, 1), (b + rng.randrange(60), ns(), 0, 0)], "seq-zone-mix"))
        cs.append(S([(b + rng.randrange(60), ns(), rng.choice((0, 0, 0, 3, 6, 9)), rng.randrange(2))
                     for _ in range(6)], "seq-random"))
    return cs


def C(iters, lists, cls):
    return Case("C %d %s" % (iters, ";".join(",".join(str(t) for t in l) for l in lists)), cls)


def gen_C(rng, tier):
    """K = 2 and 4 real threads rendering and parsing back their own instants at the same time; every thread
    works in its own 30-year band with its own months, days and times of day, so that calendar fields leaking
    from one thread into another cannot coincide."""
    cs = []
    thorough = tier == "thorough"
    iters = 400000
    for rep in range(6 if thorough else 2):
        for k in (2, 4):
            lists = []
            for j in range(k):
                lo = day_of(1971 + 30 * j, 1, 1)
                band = []
                for i in range(3):
                    d = lo + rng.randrange(0, 29 * 365)
                    sod = (j * 21600 + rng.randrange(1, 21600)) % 86400
                    band.append(d * DAY_NS + sod * NS + rng.randrange(1000) * 10 ** 6 + rng.choice((0, 0, 999999)))
                lists.append(band)
            cs.append(C(iters, lists, "concurrent-%d" % k))
    return cs


def gen_cases(rng, tier):
    cs = gen_G(rng, tier) + gen_T(rng, tier) + gen_P(rng, tier) + gen_L(rng, tier) + gen_S(rng, tier) + gen_C(rng, tier)
    # trapping cases last: the harness is restarted after each, with nothing left to re-feed
    return [c for c in cs if c.cls != "overrun"] + [c for c in cs if c.cls == "overrun"]


def postprocess(case, r):
    if r.startswith("CRASH") and ("buffer-overflow" in r or "out of bounds" in r):
        return "OOB"
    return r


def nontrivial(case, r):
    w = case.line.split()
    if w[0] == "T":
        t = int(w[1])
        return 0 < t < DAYS * DAY_NS
    if w[0] == "P":
        return r.split(" ")[0].lstrip("-").isdigit()
    if w[0] == "L":
        return int(w[2]) != 0 and int(w[3]) > 0
    if w[0] == "G":
        return 0 < int(w[1]) < DAYS
    if w[0] == "S":
        return len(w) >= 3
    if w[0] == "C":
        return w[2].count(";") >= 1
    return False


def denoted_secs(kind, text):
    """Seconds since the epoch denoted by a text with a date part (None if it has none / is not numeric)."""
    try:
        s = text.decode("ascii")
        if kind == "TO" or len(s) < 6 or not s[:6].isdigit():
            return None
        y, m = int(s[:4]), int(s[4:6])
        d = int(s[6:8]) if (len(s) >= 8 and kind != "MY") or (kind == "MY" and len(s) == 8) else 1
        secs = calendar.timegm((y, m, d, 0, 0, 0))
        if kind == "TS" and len(s) >= 17:
            secs += int(s[9:11]) * 3600 + int(s[12:14]) * 60 + int(s[15:17])
        return secs
    except Exception:
        return None


def c_y2038(case, r, m):
    """negation of the hypothesis `t < 2^31 s` of c09_roundtrip_orig_partial (finding repaired in 4d1009d: the entry
    is listed as fixed and suppresses nothing; the classifier is only used again if the entry is set back to known)"""
    w = case.line.split()
    if w[0] == "T":
        return int(w[1]) // NS >= 2 ** 31
    if w[0] == "P":
        secs = denoted_secs(w[1], bytes.fromhex(w[2]) if w[2] != "-" else b"")
        return secs is not None and secs >= 2 ** 31
    return False


def c_log_carry(case, r, m):
    """negation of the hypothesis of c09_log_partial: second 59 and the fraction rounds up to a whole second"""
    w = case.line.split()
    if w[0] != "L":
        return False
    secs, n, d = int(w[1]), int(w[2]), int(w[3])
    return 1 <= d <= 8 and secs % 60 == 59 and 2 * n + 10 ** (9 - d) >= 2 * 10 ** 9


def c_short_text(case, r, m):
    """negation of the hypothesis `min_text_len k <= length s` of c09_parse_total_partial"""
    w = case.line.split()
    if w[0] != "P":
        return False
    n = len(w[2]) // 2 if w[2] != "-" else 0
    return 0 < n < {"TS": 16, "TO": 7}.get(w[1], 5)


CLASSIFIERS = {"y2038": c_y2038, "log-carry": c_log_carry, "short-text": c_short_text}


def extra_search(rng, seeds, tier):
    out = []
    for c in seeds[:30]:
        w = c.line.split()
        if w[0] == "T":
            t = int(w[1])
            for dt in (0, -DAY_NS, DAY_NS, -NS, NS, 365 * DAY_NS, -365 * DAY_NS):
                for (s, m) in COMBOS[::6]:
                    x = (t + dt) // DAY_NS * DAY_NS + s * NS + m * 10 ** 6
                    if 0 <= x < 2 ** 31 * NS:
                        out.append(T(x, "neighbour"))
        elif w[0] == "L":
            for d in range(10):
                out.append(L(int(w[1]), int(w[2]), d, "neighbour"))
        elif w[0] == "S":
            calls = [tuple(int(x) for x in it.split(",")) for it in w[1:]]
            for i in range(len(calls)):
                for j in range(len(calls)):
                    if i != j:
                        out.append(S([calls[i], calls[j]], "neighbour"))
    r2 = rng
    # every third day before 2038 with two instants, valid texts, log cases
    for d in range(r2.randrange(3), 24855, 3):
        for (s, m) in (COMBOS[r2.randrange(25)], (r2.randrange(86400), r2.randrange(1000))):
            out.append(T(d * DAY_NS + s * NS + m * 10 ** 6, "search"))
    out += [c for c in gen_P(r2, "quick") if c.cls == "valid-text"]
    out += gen_L(r2, "quick")
    return out


def shrink(case):
    """call sequences: drop one call at a time"""
    w = case.line.split()
    if w[0] != "S" or len(w) <= 3:
        return []
    return [Case("S " + " ".join(w[1:i] + w[i + 1:]), "shrink") for i in range(1, len(w))]


def EXHAUSTIVE(tier):
    return False


def extra_evidence(ctx):
    days = set()
    for c in ctx["cases"]:
        w = c.line.split()
        if w[0] == "G" and 0 <= int(w[1]) < DAYS:
            days.add(int(w[1]))
    return {"gmtime_days_compared": len(days), "gmtime_days_total": DAYS}
