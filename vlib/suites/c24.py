"""C24 — session activation follows the configured schedule."""
import itertools
from vlib import build as B
from vlib.core import Case

ID = "C24"
LEVEL = "proof"
TECHNIQUE = ("Coq proofs about a hand-written Gallina model of Schedule::test (polling loop with the flag fed back), "
             "decode_dow and Configuration::create_schedule: exact characterisation of weekday decoding for all strings, "
             "exactness of daily schedules for every instant, a partial theorem for weekly schedules over arbitrary polling "
             "sequences (induction over the list of instants) with refuting witnesses for each dropped hypothesis; model tied "
             "to the real code by differential execution under a virtual clock (clock_gettime interposed in the harness)")
LEVEL_TEXT = ("c24_dow_exact: decode_dow = spec_dow for every byte string.  c24_daily_exact/c24_daily_run: a daily schedule "
              "returns exactly 'local time of day in [start,end]' for every previous flag and instant.  c24_weekly_partial: for "
              "start_day < end_day, start+1min <= end, end+1min < 24h, gaps in [0,1min] and an initial flag that is right at "
              "the first instant, the flag at every polled instant equals window membership.  c24_weekly_refuted_*: same day, "
              "wrapping week, start inside the window, initial flag on, short [start,end], late end each violate the property; "
              "c24_open_end_overflow: no end configured is signed overflow.  c24_config_denotes: for well-formed attributes "
              "create_schedule builds exactly the schedule the element denotes (midnight start included: "
              "c24_config_midnight_nonvacuous); c24_configured_daily: element -> create_schedule -> polling is exact for daily schedules.")
LEVEL_NOTE = ("Trusted: Coq kernel, extraction, the hand transcription (checked by the correspondence run), the OCaml glue that "
              "expands poll sequences and run-length encodes flags, the harness' clock_gettime interposition (self-tested by the "
              "C cases), UBSan trapping signed overflow.  std::stoi on utc_offset_mins/duration and the XML parser are not modelled.")
DESIGN_REF = "DESIGN.md section 4, C24; finding F29"
PROPS_FILE = "Props/Properties_C24.v"
COQ_TARGETS = ["Props/Properties_C24.vo", "Extract/Extract_C24.vo"]
TRUSTED_BASE = ["Coq 8.16.1 kernel (coqc), vm_compute for the concrete witnesses", "Extraction with ExtrOcamlBasic, no Extract Constant; OCaml 4.13.1",
                "hand-written model coq/C24/Sched.v of session.hpp:Schedule::test, tickval.hpp:in_range/get_tm, f8utils.cpp:decode_dow, "
                "configuration.cpp:create_schedule, field.hpp:time_parse; tied by differential execution",
                "ocaml/prelude.ml + ocaml/c24_driver.ml (poll instants, run-length coding, number/hex conversion), harness/h_c24.cpp "
                "(clock_gettime(CLOCK_REALTIME) replaced by a settable value), vlib",
                "g++ 12 -fsanitize=undefined traps the signed overflow of today + errorticks"]
ASSUMPTIONS = ["Tickval(true) obtains the time through clock_gettime(CLOCK_REALTIME) (libstdc++ system_clock); the harness defines that "
               "symbol, and the C cases check Tickval/get_tm against the model for the injected instants",
               "the weekday comes from gmtime_r, so the process time zone is irrelevant; TZ=UTC is pinned in the harness environment anyway",
               "'local time' is UTC plus the configured utc_offset_mins; instants are after 1970 in local time and below 2^62 ns",
               "the activity flag is observed at the polled instants only (the engine has no other notion of being active)",
               "utc_offset_mins and duration are given as canonical decimals (std::stoi's leniency is outside the model); attribute "
               "text is restricted to characters that need no XML escaping"]
RULE = ("S: Schedule::test polled under the virtual clock with the flag fed back: all 7x7 day pairs (equal and wrapping included) x a "
        "grid of start/end times (on and off the minute grid, minimal 1-minute range, end 23:58:59, too short, too late) x utc "
        "offsets (0, +60, -300, +330, +765, -720) over 7 days + 2 h (quick; one pair 3 weeks) / 3 weeks (thorough) at 1-minute steps from a random minute of a week, "
        "initial flag right or wrong; daily schedules with both initial flags; 1 s / 1 ns steps across every window boundary; "
        "irregular gap patterns <= 60 s; malformed: gaps over a minute, days out of range, no end.  D: decode_dow on ALL strings of "
        "length <= 3 over [A-Za-z0-9], long names, random bytes incl. NUL and >= 0x80.  X: create_schedule on generated <schedule> "
        "elements (attributes present/absent/empty, times half from a boundary pool 00:00:00 00:00:01 23:59:59 12:00:00 .., names from a "
        "pool, end before/at/after start, duration).  W: the configured path (XML -> Configuration::process -> create_session_schedule "
        "and create_login_schedule -> polling) on midnight starts, pool times in every order, weekday names, absent/garbled "
        "attributes.  C: clock self test. "
        "non-trivial = S case whose flags contain both values, X case yielding a schedule, every D batch; distinct = distinct lines")

DAY = 86400 * 10**9
MIN = 60 * 10**9
SEC = 10**9
WEEK = 7 * DAY
SUNDAY = 1599955200 * SEC        # 2020-09-13 00:00:00 UTC, a Sunday


def hms(h, m, s=0):
    return ((h * 60 + m) * 60 + s) * SEC


def build(tier):
    return {"impl": [B.harness("h_c24", runtime=None)], "env": {"TZ": "UTC"},
            "batch_timeout": 1800, "per_case_timeout": 60}


# ------------------------------------------------------------------ python copy of the spec (classifiers only)
def active(sd, ed, st, en, x):
    tod = x % DAY
    dow = (x // DAY + 4) % 7
    if sd < 0:
        return st <= tod and (en is None or tod <= en)
    o = sd * DAY + st
    c0 = ed * DAY + (en if en is not None else DAY - 1)
    c = c0 if o <= c0 else c0 + WEEK
    w = dow * DAY + tod
    return (o <= w <= c) or (o <= w + WEEK <= c)


DOWMAP = {"su": 0, "sunday": 0, "Sun": 0, "0": 0, "m": 1, "mo": 1, "Monday": 1, "MON": 1, "1": 1, "tu": 2, "Tuesday": 2, "2": 2,
          "w": 3, "we": 3, "Wed": 3, "3": 3, "th": 4, "Thursday": 4, "THU": 4, "4": 4, "f": 5, "fr": 5, "Friday": 5, "5": 5,
          "sa": 6, "Saturday": 6, "SAT": 6, "6": 6}


def unhx(h):
    return None if h == "~" else ("" if h == "-" else bytes.fromhex(h).decode("latin-1"))


def hms_text(t):
    if t is None or len(t) != 8 or t[2] != ":" or t[5] != ":" or not (t[0:2] + t[3:5] + t[6:8]).isdigit():
        return None
    return hms(int(t[0:2]), int(t[3:5]), int(t[6:8]))


def parse_w(f):
    """the schedule a W line denotes, in the shape parse_s gives (None if it denotes none)"""
    st, en, utc, dur, sd, ed = [unhx(x) for x in f[1:7]]
    stv, env = hms_text(st), hms_text(en)
    if stv is None or (en is not None and env is None):
        return None
    d = int(dur) if dur else 0
    if en is None:
        env = stv + d * MIN if d else None
    elif env <= stv:
        return None
    sdv = DOWMAP.get(sd, -1) if sd is not None else -1
    edv = DOWMAP.get(ed, -1) if ed is not None else sdv
    return {"st": stv, "en": env, "utc": int(utc) if utc else 0, "sd": sdv, "ed": edv, "prev0": f[7] != "0",
            "t0": int(f[8]), "n": int(f[9]), "gaps": [int(g) for g in f[10].split(",")]}


def parse_s(line):
    f = line.split()
    if f[0] == "W":
        return parse_w(f)
    if f[0] != "S":
        return None
    return {"st": int(f[1]), "en": None if f[2] == "E" else int(f[2]), "utc": int(f[3]), "sd": int(f[4]),
            "ed": int(f[5]), "prev0": f[6] != "0", "t0": int(f[7]), "n": int(f[8]),
            "gaps": [int(g) for g in f[9].split(",")]}


def s_line(st, en, utc, sd, ed, prev0, t0, n, gaps):
    return "S %d %s %d %d %d %d %d %d %s" % (st, "E" if en is None else str(en), utc, sd, ed, 1 if prev0 else 0,
                                             t0, n, ",".join(str(g) for g in gaps))


def weekly(p):
    return p is not None and 0 <= p["sd"] <= 6 and 0 <= p["ed"] <= 6


def c_same_day(case, r, m):
    p = parse_s(case.line)
    return weekly(p) and p["sd"] == p["ed"]


def c_wrapping(case, r, m):
    p = parse_s(case.line)
    return weekly(p) and p["sd"] > p["ed"]


def start_flag_right(p):
    return p["prev0"] == active(p["sd"], p["ed"], p["st"], p["en"], p["t0"] + p["utc"] * MIN)


def c_start_inside(case, r, m):
    p = parse_s(case.line)
    return weekly(p) and p["sd"] < p["ed"] and not p["prev0"] and not start_flag_right(p)


def c_initial_active(case, r, m):
    p = parse_s(case.line)
    return weekly(p) and p["sd"] < p["ed"] and p["prev0"] and not start_flag_right(p)


def c_short_window(case, r, m):
    p = parse_s(case.line)
    return weekly(p) and p["sd"] < p["ed"] and p["en"] is not None and p["st"] + MIN > p["en"]


def c_late_end(case, r, m):
    p = parse_s(case.line)
    return weekly(p) and p["sd"] < p["ed"] and p["en"] is not None and p["en"] + MIN >= DAY


def c_open_end(case, r, m):
    p = parse_s(case.line)
    return p is not None and p["en"] is None and r == "UB-OVERFLOW"


CLASSIFIERS = {"same-day": c_same_day, "wrapping": c_wrapping, "start-inside": c_start_inside,
               "initial-active": c_initial_active, "short-window": c_short_window, "late-end": c_late_end,
               "open-end": c_open_end}


def postprocess(case, r):
    if r.startswith("CRASH") and "signed integer overflow" in r:
        return "UB-OVERFLOW"
    return r


def nontrivial(case, r):
    k = case.line[0]
    if k in "SW":
        return "0*" in r and "1*" in r
    if k == "X":
        return len(r.split()) == 7
    return k == "D"


# ------------------------------------------------------------------ generators
TIMES_GOOD = [(hms(9, 0), hms(17, 0)), (hms(0, 0), hms(23, 58, 59)), (hms(0, 0), hms(0, 1)),
              (hms(23, 0), hms(23, 30)), (hms(8, 30, 15), hms(16, 45, 30)), (hms(0, 0, 1), hms(12, 0, 0) + 999999999)]
TIMES_BAD = [(hms(12, 0), hms(12, 0, 30)), (hms(9, 0), hms(23, 59, 30)), (hms(9, 0), hms(23, 59))]
UTCS = [0, 60, -300, 330, 765, -720]
ALNUM = "abcdefghijklmnopqrstuvwxyzABCDEFGHIJKLMNOPQRSTUVWXYZ0123456789"
NAMES = ["monday", "Monday", "MONDAY", "mon", "Mon", "tuesday", "Tues", "tu", "TU", "wednesday", "Wed", "w", "thursday",
         "Thurs", "th", "TH", "friday", "Fri", "f", "saturday", "Sat", "sa", "sunday", "Sun", "su", "sunday1", "s", "t", "S", "T",
         "sx", "tx", "so", "to", "mx", "m7", "0", "1", "2", "3", "4", "5", "6", "7", "8", "9", "00", "06", "6 ", " 6", "1x", "x1",
         " mon", "mon ", "m o", "t h", "s.a", "sa.", "tHURSDAY", "sAtUrDaY", "weekend", "fortnight", "montag", "dimanche",
         "xyz", "-1", "+1", "day", "noon"]


def hx(s):
    b = s if isinstance(s, (bytes, bytearray)) else s.encode("latin-1")
    return bytes(b).hex() or "-"


def gen_decode(rng, tier):
    cs = []
    strs = [""]
    for n in (1, 2, 3):
        strs += ["".join(t) for t in itertools.product(ALNUM, repeat=n)]
    B_ = 800
    for i in range(0, len(strs), B_):
        cs.append(Case("D " + ",".join(hx(s) for s in strs[i:i + B_]), "dow-exhaustive-le3"))
    cs.append(Case("D " + ",".join(hx(s) for s in NAMES), "dow-names"))
    # names with arbitrary tails and random case
    tails = []
    for _ in range(400):
        base = rng.choice(NAMES[:26])
        s = "".join(ch.upper() if rng.random() < 0.4 else ch for ch in base) + "".join(
            rng.choice(ALNUM + " .-_") for _ in range(rng.randrange(0, 6)))
        tails.append(s)
    cs.append(Case("D " + ",".join(hx(s) for s in tails), "dow-names-tails"))
    # random bytes: NUL, high bytes, punctuation next to the letters and digits
    for _ in range(6 if tier == "thorough" else 2):
        rb = []
        for _ in range(500):
            n = rng.randrange(1, 5)
            first = rng.choice([rng.choice(b"smtwfSMTWF0123456789"), rng.randrange(256)])
            rb.append(bytes([first] + [rng.choice([rng.randrange(256), rng.choice(b"uaohreUAH\0")]) for _ in range(n - 1)]))
        cs.append(Case("D " + ",".join(hx(s) for s in rb), "dow-random-bytes"))
    # all two-byte strings whose first letter is ambiguous (s/t) with every second byte
    amb = [bytes([a, b]) for a in b"sStT" for b in range(256)]
    cs.append(Case("D " + ",".join(hx(s) for s in amb), "dow-ambiguous-all-second-bytes"))
    cs.append(Case("D " + ",".join(hx(bytes([a])) for a in range(256)), "dow-all-single-bytes"))
    return cs


def right_flag(sd, ed, st, en, utc, t0):
    return active(sd, ed, st, en, t0 + utc * MIN)


def gen_sched(rng, tier):
    cs = []
    thorough = tier == "thorough"

    def week_start():
        # a random minute of a random week-day, seconds on the grid half of the time
        t = SUNDAY + rng.randrange(0, 7) * DAY + rng.randrange(0, 1440) * MIN
        if rng.random() < 0.5:
            t += rng.randrange(0, 60) * SEC + rng.choice([0, 1, 500000000, 999999999])
        return t

    # --- all day pairs
    pairs = [(a, b) for a in range(7) for b in range(7)]
    k = 0
    for (sd, ed) in pairs:
        confs = []
        if thorough:
            for ti in range(4):
                confs.append((TIMES_GOOD[(k + ti) % len(TIMES_GOOD)], UTCS[(k + 2 * ti) % len(UTCS)]))
        else:
            confs.append((TIMES_GOOD[k % len(TIMES_GOOD)], UTCS[k % len(UTCS)]))
        for ((st, en), utc) in confs:
            t0 = week_start() if rng.random() < 0.7 else SUNDAY - utc * MIN
            good = rng.random() < 0.8
            prev0 = right_flag(sd, ed, st, en, utc, t0) == good
            long_run = thorough or (sd, ed) == (3, 3)
            n = 3 * 7 * 1440 if long_run else 7 * 1440 + 120
            cls = "weekly-" + ("same-day" if sd == ed else "wrapping" if sd > ed else "ordered") + ("" if good else "-wrong-initial-flag")
            cs.append(Case(s_line(st, en, utc, sd, ed, prev0, t0, n, [MIN]), cls))
        k += 1

    # --- ordered pairs with the grid of good/bad times: runs across the opening (from before it,
    #     flag off), across the closing (flag on) and, in the thorough tier, through the whole window
    for _ in range(1):
        for (sd, ed) in [(a, b) for a in range(7) for b in range(7) if a < b]:
            for (st, en) in TIMES_GOOD + TIMES_BAD:
                utc = rng.choice(UTCS)
                bad = (st, en) in TIMES_BAD
                cls = "weekly-ordered-short-or-late" if bad else "weekly-ordered-from-before-opening"
                o = SUNDAY + sd * DAY + st - utc * MIN          # opening instant of some week (UTC)
                c = SUNDAY + ed * DAY + en - utc * MIN          # closing instant
                t0 = o - rng.randrange(1, 120) * MIN - rng.randrange(0, 60) * SEC
                if thorough:
                    n = (ed - sd) * 1440 + 2 * 1440
                    cs.append(Case(s_line(st, en, utc, sd, ed, right_flag(sd, ed, st, en, utc, t0), t0, n, [MIN]), cls))
                else:
                    cs.append(Case(s_line(st, en, utc, sd, ed, right_flag(sd, ed, st, en, utc, t0), t0, 240, [MIN]), cls))
                    t1 = c - rng.randrange(1, 120) * MIN - rng.randrange(0, 60) * SEC
                    cs.append(Case(s_line(st, en, utc, sd, ed, right_flag(sd, ed, st, en, utc, t1), t1, 240 if not bad else 1560, [MIN]),
                                   cls.replace("from-before-opening", "across-closing")))

    # --- irregular gaps (<= 60 s) and fine steps across the boundaries of ordered windows
    for _ in range(120 if thorough else 40):
        sd = rng.randrange(0, 6)
        ed = rng.randrange(sd + 1, 7)
        st, en = rng.choice(TIMES_GOOD)
        utc = rng.choice(UTCS)
        edge = rng.choice([SUNDAY + sd * DAY + st, SUNDAY + ed * DAY + en, SUNDAY + ed * DAY + DAY, SUNDAY + sd * DAY]) - utc * MIN
        mode = rng.randrange(4)
        if mode == 0:
            gaps, t0, n = [SEC], edge - rng.randrange(1, 200) * SEC, 400
        elif mode == 1:
            gaps, t0, n = [1], edge - rng.randrange(1, 40), 80
        elif mode == 2:
            gaps = [rng.choice([MIN, MIN - 1, 1, SEC, 30 * SEC, 59 * SEC + 999999999, 0]) for _ in range(rng.randrange(2, 7))]
            t0, n = edge - rng.randrange(1, 3000) * SEC, 600
        else:
            gaps = [rng.randrange(0, MIN + 1) for _ in range(rng.randrange(1, 9))]
            t0, n = edge - rng.randrange(1, 7200) * SEC, 900
        flag = right_flag(sd, ed, st, en, utc, t0)
        cs.append(Case(s_line(st, en, utc, sd, ed, flag, t0, n, gaps), "weekly-ordered-fine-steps"))

    # --- daily
    for (st, en) in TIMES_GOOD + TIMES_BAD + [(hms(23, 0), hms(25, 0)), (hms(0, 0), hms(0, 0)), (hms(13, 0), hms(11, 0))]:
        for utc in (UTCS if thorough else [rng.choice(UTCS), rng.choice(UTCS)]):
            for prev0 in (0, 1):
                t0 = week_start()
                cs.append(Case(s_line(st, en, utc, -1, -1, prev0, t0, (2 if thorough else 1) * 1440 + 30, [MIN]), "daily-minutes"))
            edge = SUNDAY + rng.randrange(0, 7) * DAY + rng.choice([st, en]) - utc * MIN
            cs.append(Case(s_line(st, en, utc, -1, -1, rng.randrange(2), edge - 20, 60, [1]), "daily-ns-across-boundary"))
            cs.append(Case(s_line(st, en, utc, -1, -1, rng.randrange(2), edge - 100 * SEC, 200, [SEC]), "daily-seconds-across-boundary"))
            # arbitrary gaps (the daily theorem needs none)
            gaps = [rng.randrange(0, 3 * 3600 * SEC) for _ in range(5)]
            cs.append(Case(s_line(st, en, utc, -1, -1, rng.randrange(2), week_start(), 300, gaps), "daily-arbitrary-gaps"))

    # --- malformed / outside the quantifier
    for _ in range(30 if thorough else 12):
        st, en = rng.choice(TIMES_GOOD)
        kind = rng.randrange(5)
        if kind == 0:      # gaps over a minute
            cs.append(Case(s_line(st, en, rng.choice(UTCS), rng.randrange(7), rng.randrange(7), rng.randrange(2), week_start(),
                                  500, [MIN + 1 + rng.randrange(0, 3 * 3600) * SEC]), "malformed-gap-over-a-minute"))
        elif kind == 1:    # day numbers out of range
            cs.append(Case(s_line(st, en, 0, rng.choice([7, 9, 3]), rng.choice([-1, 8, -2]), rng.randrange(2), week_start(),
                                  300, [MIN]), "malformed-days"))
        elif kind == 2:    # local time before 1970
            cs.append(Case(s_line(st, en, rng.choice([0, -60]), rng.choice([-1, 1]), rng.choice([-1, 5]) , 0,
                                  -rng.randrange(1, 5 * 1440) * MIN - rng.randrange(0, SEC), 200, [MIN]), "malformed-before-1970"))
        elif kind == 3:    # end before start handed straight to the constructor
            cs.append(Case(s_line(en, st, 0, 1, 5, 0, week_start(), 300, [MIN]), "malformed-end-before-start"))
        else:              # decreasing instants
            cs.append(Case(s_line(st, en, 0, 1, 5, 0, week_start(), 200, [MIN, -MIN]), "malformed-time-goes-back"))
    # no end configured (signed overflow; each costs a process restart: keep them few)
    cs.append(Case(s_line(hms(9, 0), None, 0, -1, -1, 0, SUNDAY + hms(10, 0), 3, [MIN]), "open-end"))
    cs.append(Case(s_line(hms(9, 0), None, 60, 1, 5, 0, SUNDAY + 2 * DAY + hms(10, 0), 3, [MIN]), "open-end"))
    # ... which is harmless on 1970-01-01 (today == 0) and when the day condition short-circuits
    cs.append(Case(s_line(hms(9, 0), None, 0, -1, -1, 0, hms(8, 0), 200, [MIN]), "open-end-1970"))
    cs.append(Case(s_line(hms(9, 0), None, 0, 1, 5, 0, SUNDAY + hms(8, 0), 200, [MIN]), "open-end-not-evaluated"))
    return cs


def gen_xml(rng, tier):
    cs = []
    def tm(h, m, s):
        return "%02d:%02d:%02d" % (h, m, s)
    names = [n for n in NAMES if all(c not in n for c in "<>&\"'")]
    for _ in range(1500 if tier == "thorough" else 350):
        h, m, s = rng.randrange(24), rng.randrange(60), rng.randrange(60)
        if rng.random() < 0.5:
            h, m, s = rng.choice(TIME_POOL)
        st = tm(h, m, s)
        r = rng.random()
        if r < 0.04:
            st = None
        elif r < 0.08:
            st = rng.choice(["9:00:00", "09:00", "09:00:00.000", "", "0900000", "09:00:000"])
        elif r < 0.12:
            st = rng.choice(["09x00y00", "1::00:00", "ab:cd:ef", "99:99:99", "24:00:00", "0Z:00:00", " 9:00:00", "/9:00:00", "0/:00:00", "00:00:0 "])
        r = rng.random()
        if r < 0.3:
            en = None
        elif r < 0.4:
            en = st                                     # equal: rejected
        elif r < 0.5:
            en = tm(rng.randrange(h + 1), rng.randrange(60), rng.randrange(60))
        elif r < 0.55:
            en = rng.choice(["17:00", "", "17:00:00.5", "1700:00:0"])
        elif r < 0.75:
            en = tm(*rng.choice(TIME_POOL))
        else:
            en = tm(rng.randrange(h, 24), rng.randrange(60), rng.randrange(60))
        utc = None if rng.random() < 0.4 else str(rng.choice([0, 60, -60, 330, -300, 765, -720, 1, -1, 100000]))
        dur = None if rng.random() < 0.5 else str(rng.choice([0, 1, 30, 60, 120, 1440, 10080, 99999999, rng.randrange(1, 3000)]))
        sd = None if rng.random() < 0.35 else rng.choice(names)
        ed = None if rng.random() < 0.45 else rng.choice(names)
        f = lambda v: "~" if v is None else hx(v)
        cs.append(Case("X %s %s %s %s %s %s" % (f(st), f(en), f(utc), f(dur), f(sd), f(ed)), "xml-create-schedule"))
    return cs


TIME_POOL = [(0, 0, 0), (0, 0, 1), (23, 59, 59), (12, 0, 0), (9, 0, 0), (17, 0, 0), (6, 30, 0), (18, 0, 0), (23, 58, 59),
             (0, 1, 0), (0, 0, 59), (23, 59, 0)]


def gen_configured(rng, tier):
    """W: element -> Configuration::process -> create_session_schedule/create_login_schedule -> polling"""
    cs = []
    thorough = tier == "thorough"
    f = lambda v: "~" if v is None else hx(v)
    tm = lambda t: "%02d:%02d:%02d" % t
    names = sorted(DOWMAP)

    def line(st, en, utc, dur, sd, ed, prev0, t0, n, gaps):
        return "W %s %s %s %s %s %s %d %d %d %s" % (f(st), f(en), f(utc), f(dur), f(sd), f(ed), 1 if prev0 else 0, t0, n,
                                                   ",".join(str(g) for g in gaps))
    # the corner the pool is about, always present: midnight starts, daily and weekly
    for (st, en, sd, ed) in [("00:00:00", "23:59:59", None, None), ("00:00:00", "06:30:00", None, None),
                             ("00:00:00", "18:00:00", "mo", "fr"), ("00:00:00", "00:00:01", None, None),
                             ("00:00:01", "23:59:59", None, None), ("00:00:00", None, None, None)]:
        for utc in (None, "60", "-300"):
            dur = "90" if en is None else None
            t0 = SUNDAY + rng.randrange(0, 7) * DAY - (int(utc) if utc else 0) * MIN - 30 * MIN
            p = parse_w(line(st, en, utc, dur, sd, ed, 0, t0, 1, [MIN]).split())
            flag = right_flag(p["sd"], p["ed"], p["st"], p["en"], p["utc"], t0)
            cs.append(Case(line(st, en, utc, dur, sd, ed, flag, t0, 24 * 60 + 90, [MIN]), "configured-midnight-start"))
    # daily from the pool: every ordered/equal/reversed combination, run across a boundary
    for _ in range(400 if thorough else 110):
        a, b = rng.choice(TIME_POOL), rng.choice(TIME_POOL)
        st, en, dur = tm(a), tm(b), None
        r = rng.random()
        if r < 0.2:
            en, dur = None, str(rng.choice([1, 30, 90, 1440, 0]))
        elif r < 0.25:
            dur = "45"                                   # end_time wins over duration
        utc = rng.choice([None, "0", "60", "-300", "330", "765", "-720"])
        u = int(utc) if utc else 0
        edge = SUNDAY + rng.randrange(0, 7) * DAY + rng.choice([hms(*a), hms(*b)]) - u * MIN
        t0 = edge - rng.randrange(1, 100) * MIN - rng.choice([0, 0, 30 * SEC, 59 * SEC + 999999999])
        cs.append(Case(line(st, en, utc, dur, None, None, rng.randrange(2), t0, 200, [MIN]), "configured-daily"))
    # weekly, start day < end day, from before the opening or across the closing with the right flag
    for _ in range(200 if thorough else 60):
        sdn, edn = rng.choice(names), rng.choice(names)
        if DOWMAP[sdn] >= DOWMAP[edn]:
            if rng.random() < 0.85:
                continue
        a, b = sorted([rng.choice(TIME_POOL), rng.choice(TIME_POOL)])
        if a == b:
            continue
        utc = rng.choice([None, "60", "-300", "330"])
        u = int(utc) if utc else 0
        edn_attr = edn if rng.random() < 0.9 else None       # absent end_day: defaults to the start day
        p = parse_w(line(tm(a), tm(b), utc, None, sdn, edn_attr, 0, 0, 1, [MIN]).split())
        edge = SUNDAY + rng.choice([p["sd"] * DAY + p["st"], p["ed"] * DAY + p["en"]]) - u * MIN
        t0 = edge - rng.randrange(1, 100) * MIN
        flag = right_flag(p["sd"], p["ed"], p["st"], p["en"], p["utc"], t0)
        cs.append(Case(line(tm(a), tm(b), utc, None, sdn, edn_attr, flag, t0, 260, [MIN]), "configured-weekly"))
    # absent / garbled attributes
    for _ in range(60 if thorough else 25):
        st = rng.choice([None, "", "9:00:00", "09:00", "09:00:00.000", "00:00:0", "000000:0", "0:00:000"])
        en = rng.choice([None, "17:00:00", "00:00:00", "", "17:00"])
        cs.append(Case(line(st, en, rng.choice([None, "60"]), rng.choice([None, "30"]), rng.choice([None, "mo", "xyz"]),
                            rng.choice([None, "fr", ""]), rng.randrange(2), SUNDAY + rng.randrange(0, 7 * 1440) * MIN, 50, [MIN]),
                       "configured-absent-or-garbled"))
    return cs


def gen_clock(rng, tier):
    ts = [0, 1, -1, 999999999, 10**9, -10**9, -10**9 - 1, DAY - 1, DAY, -DAY, -DAY - 1, SUNDAY, SUNDAY - 1,
          1600000000123456789, 2**62 - 1, 4102444800 * SEC]
    ts += [rng.randrange(-10 * DAY, 2**62) for _ in range(20)]
    return [Case("C %d" % t, "clock-self-test") for t in ts]


def gen_cases(rng, tier):
    return gen_clock(rng, tier) + gen_decode(rng, tier) + gen_xml(rng, tier) + gen_configured(rng, tier) + gen_sched(rng, tier)


def EXHAUSTIVE(tier):
    return False


def extra_search(rng, seeds, tier):
    out = gen_sched(rng, "quick") + gen_xml(rng, "quick") + gen_configured(rng, "quick") + gen_decode(rng, "quick")[-6:]
    for c in seeds[:20]:
        p = parse_s(c.line)
        if not p:
            continue
        for _ in range(10):
            sd, ed = rng.randrange(0, 6), 0
            ed = rng.randrange(sd + 1, 7)
            t0 = p["t0"] + rng.randrange(-3, 4) * DAY
            out.append(Case(s_line(p["st"], p["en"], p["utc"], sd, ed, right_flag(sd, ed, p["st"], p["en"], p["utc"], t0),
                                   t0, min(p["n"], 6000), p["gaps"]), "neighbour"))
            out.append(Case(s_line(p["st"], p["en"], p["utc"], -1, -1, rng.randrange(2), t0, min(p["n"], 3000), p["gaps"]), "neighbour"))
    return out


def shrink(case):
    p = parse_s(case.line)
    out = []
    if p:
        for n in (p["n"] // 10, p["n"] // 2, p["n"] - 1):
            if 0 < n < p["n"]:
                out.append(Case(s_line(p["st"], p["en"], p["utc"], p["sd"], p["ed"], p["prev0"], p["t0"], n, p["gaps"]), "shrink"))
    elif case.line.startswith("D "):
        items = case.line[2:].split(",")
        if len(items) > 1:
            h = len(items) // 2
            out.append(Case("D " + ",".join(items[:h]), "shrink"))
            out.append(Case("D " + ",".join(items[h:]), "shrink"))
    return out
