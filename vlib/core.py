"""Generic check driver: proofs + correspondence + oracle + verdict + evidence.

A suite module (vlib/suites/cNN.py) provides:

  ID, LEVEL ('proof' | 'translation_validation'), TECHNIQUE, LEVEL_TEXT, LEVEL_NOTE, DESIGN_REF
  PROPS_FILE          e.g. 'Props/Properties_C07.v'   (contains only the property theorems)
  COQ_TARGETS         list of .vo targets to (re)build  (Props + Extract)
  TRUSTED_BASE        list of strings
  ASSUMPTIONS         list of strings
  RULE                string: how cases are generated and what counts as non-trivial
  build(tier)         -> dict with 'impl': argv list of the harness, and optionally other things
  gen_cases(rng, tier)-> list of Case
  nontrivial(case, impl_out) -> bool
  CLASSIFIERS         dict: classifier name -> fn(case, impl_out, model_out) -> bool
  optional: postprocess(case, impl_out)->impl_out (canonicalisation), extra_search(rng)->cases,
            run_impl(built, cases, tier)-> list[str]  (override the default line protocol),
            EXHAUSTIVE(tier)->bool, extra_evidence(ctx)->dict

Protocols
  harness:  stdin one case per line  "<line>"          stdout one line per case "<result>"
            (it must flush after each line; if it dies the remaining cases are re-run one by
            one, a dying case gets the result "CRASH <first sanitizer line>")
  driver:   stdin "<line>\t<impl result>"              stdout "<model result>\t<oi>\t<om>"
            oi / om in {0,1}: the extracted oracle applied to impl / model result.
"""
import importlib
import json
import os
import random
import re
import subprocess
import sys
import time

from . import build as B

VERIF = B.VERIF
KF_FILE = os.path.join(VERIF, "known_findings.json")
KF_DIR = os.path.join(VERIF, "known_findings.d")


class Case:
    __slots__ = ("line", "cls", "origin")

    def __init__(self, line, cls="gen", origin="gen"):
        assert "\n" not in line and "\t" not in line
        self.line = line
        self.cls = cls
        self.origin = origin


def load_suite(pid):
    return importlib.import_module("vlib.suites." + pid.lower())


def load_known(pid):
    ents = []
    paths = [KF_FILE] if os.path.exists(KF_FILE) else []
    if os.path.isdir(KF_DIR):
        paths += sorted(os.path.join(KF_DIR, f) for f in os.listdir(KF_DIR) if f.endswith(".json"))
    for p in paths:
        try:
            data = json.load(open(p))
        except Exception as e:  # a broken file must not silently hide findings
            raise SystemExit("cannot read %s: %s" % (p, e))
        for e in data.get("findings", []):
            if e.get("property") == pid:
                ents.append(e)
    # an entry present in both the merged file and a per-suite file counts once (the later file wins)
    uniq = {}
    for e in ents:
        uniq[e.get("id")] = e
    return list(uniq.values())


# ------------------------------------------------------------------------------- running

SAN_RE = re.compile(r"(ERROR: AddressSanitizer: [a-z\-]+|runtime error: [^\n]*|ERROR: LeakSanitizer|"
                    r"Assertion [^\n]*failed|ThreadSanitizer: [a-z ]+|terminate called[^\n]*|"
                    r"std::bad_alloc|_GLIBCXX_ASSERTIONS|__replacement_assert[^\n]*|Segmentation fault)")


def summarize_crash(stderr, rc):
    m = SAN_RE.search(stderr)
    if m:
        s = m.group(1)
        # add the innermost fix8 frame for site-keyed classification
        site = ""
        for fm in re.finditer(r"#\d+ 0x[0-9a-f]+ in (\S+).*? (" + re.escape(B.REPO) + r"/[^\s:]+):(\d+)", stderr):
            site = " at %s:%s" % (os.path.relpath(fm.group(2), B.REPO), fm.group(3))
            break
        return re.sub(r"\s+", " ", s)[:160] + site
    return "exit %d" % rc


_RUN_DIR = None


def run_dir():
    global _RUN_DIR
    if _RUN_DIR is None:
        import atexit, shutil, tempfile
        os.makedirs(os.path.join(B.CACHE, "run"), exist_ok=True)
        _RUN_DIR = tempfile.mkdtemp(prefix="r%d-" % os.getpid(), dir=os.path.join(B.CACHE, "run"))
        atexit.register(lambda: shutil.rmtree(_RUN_DIR, ignore_errors=True))
    return _RUN_DIR


def run_lines(argv, lines, timeout_per_batch=600, per_case_timeout=20, env=None, cwd=None):
    """Feed `lines` to a line-protocol process; isolate crashes and hangs.  Returns list[str]."""
    results = [None] * len(lines)
    start = 0
    environ = dict(os.environ)
    environ.setdefault("ASAN_OPTIONS", "detect_leaks=0:abort_on_error=0:halt_on_error=1:allocator_may_return_null=1:detect_stack_use_after_return=0")
    environ.setdefault("UBSAN_OPTIONS", "print_stacktrace=1:halt_on_error=1")
    if env:
        environ.update(env)
    # harnesses run in a private scratch directory (fix8's loggers create and ROTATE files in the
    # cwd / at the configured path); it is removed when the check ends
    rd = run_dir()
    environ.setdefault("VERIF_RUN_DIR", rd)
    if cwd is None:
        cwd = rd
    def once(batch, to):
        inp = ("\n".join(batch) + "\n").encode()
        try:
            p = subprocess.run(argv, input=inp, stdout=subprocess.PIPE, stderr=subprocess.PIPE,
                               timeout=to, env=environ, cwd=cwd)
            raw, rc, err, hung = p.stdout, p.returncode, p.stderr.decode(errors="replace"), False
        except subprocess.TimeoutExpired as e:
            raw, rc, err, hung = (e.stdout or b""), -1, "", True
        text = raw.decode(errors="replace")
        out = text.split("\n")
        out.pop()      # text after the last newline is not a complete result line
        return out[:len(batch)], rc, err, hung

    single = False
    while start < len(lines):
        if single:
            out, rc, err, hung = once(lines[start:start + 1], per_case_timeout)
            if out:
                results[start] = out[0]
            else:
                results[start] = "HANG" if hung else "CRASH " + summarize_crash(err, rc)
            start += 1
            single = False
        else:
            out, rc, err, hung = once(lines[start:], timeout_per_batch)
            for k, r in enumerate(out):
                results[start + k] = r
            start += len(out)
            single = True      # if cases remain, the next one killed or stalled the process
    return results


def run_driver(argv, cases, impl):
    lines = [c.line + "\t" + r for c, r in zip(cases, impl)]
    p = subprocess.run(argv, input=("\n".join(lines) + "\n").encode(), stdout=subprocess.PIPE,
                       stderr=subprocess.PIPE, timeout=3600)
    out = p.stdout.decode(errors="replace").split("\n")
    if out and out[-1] == "":
        out.pop()
    if p.returncode != 0 or len(out) != len(cases):
        raise B.BuildError("model driver failed (rc=%d, %d/%d lines): %s" %
                           (p.returncode, len(out), len(cases), p.stderr.decode(errors="replace")[-2000:]))
    res = []
    for l in out:
        parts = l.split("\t")
        if len(parts) != 3:
            raise B.BuildError("bad driver line: %r" % l[:200])
        res.append((parts[0], parts[1] == "1", parts[2] == "1"))
    return res


# ------------------------------------------------------------------------------- proofs

HYGIENE_RE = re.compile(r"\b(Admitted|admit|Axiom|Axioms|Parameter|Parameters|Conjecture|Conjectures|"
                        r"Unset Guard Checking|bypass_check|type-in-type|impredicative-set|"
                        r"Admit Obligations|Unset Positivity Checking|Unset Universe Checking|native_compute)\b")


def strip_comments(src):
    out, depth, i = [], 0, 0
    while i < len(src):
        if src.startswith("(*", i):
            depth += 1
            i += 2
        elif src.startswith("*)", i) and depth:
            depth -= 1
            i += 2
        else:
            if depth == 0:
                out.append(src[i])
            i += 1
    return "".join(out)


def hygiene():
    bad = []
    for f in B.coq_filelist():
        src = strip_comments(open(os.path.join(B.COQDIR, f)).read())
        for n, line in enumerate(src.split("\n"), 1):
            if HYGIENE_RE.search(line):
                bad.append("%s:%d: %s" % (f, n, line.strip()[:100]))
    return bad


def deps_of(vfile, seen=None):
    """Transitive F8.* dependencies of a .v file (by scanning Require sentences)."""
    seen = seen if seen is not None else set()
    if vfile in seen:
        return seen
    seen.add(vfile)
    try:
        src = strip_comments(open(os.path.join(B.COQDIR, vfile)).read())
    except OSError:
        return seen
    for m in re.finditer(r"(?:From\s+(F8[A-Za-z0-9_\.]*)\s+)?Require\s+(?:Import\s+|Export\s+)?(.*?)\.(?=\s)", src, re.S):
        prefix = m.group(1) or ""
        for name in m.group(2).split():
            full = (prefix + "." + name) if prefix else name
            if not full.startswith("F8."):
                continue
            cand = full[3:].replace(".", "/") + ".v"
            if os.path.exists(os.path.join(B.COQDIR, cand)):
                deps_of(cand, seen)
    return seen


def check_proofs(suite):
    """Build the property's Coq targets; returns dict with obligations, discharged, theorems,
    ok, log."""
    t0 = time.time()
    ok, out = B.coq_make(suite.COQ_TARGETS)
    props_src = strip_comments(open(os.path.join(B.COQDIR, suite.PROPS_FILE)).read())
    names = re.findall(r"^\s*(?:Theorem|Corollary)\s+([A-Za-z0-9_']+)", props_src, re.M)
    res = {"obligations": len(names), "names": names, "theorems": {}, "ok": ok, "log": out[-4000:] if not ok else "",
           "failed": []}
    props_vo = suite.PROPS_FILE + "o"
    props_ok = os.path.exists(os.path.join(B.COQDIR, props_vo)) and ("Error" not in out or ok)
    if ok or props_ok:
        cok, cout = B.coqc_capture(suite.PROPS_FILE)
        if cok:
            # split Print Assumptions output per theorem, in file order
            blocks = re.split(r"(?m)^(?=Closed under the global context|Axioms:|Section Variables:)", cout)
            blocks = [b.strip() for b in blocks if b.strip()]
            for n, b in zip(names, blocks):
                res["theorems"][n] = re.sub(r"\s+", " ", b)[:600]
            for n in names:
                res["theorems"].setdefault(n, "(Print Assumptions output not found)")
        else:
            res["ok"] = False
            res["log"] = cout[-4000:]
    if not res["ok"]:
        # which theorems still check?  those whose statement appears before the first error
        res["failed"] = names[:]  # conservative
    res["discharged"] = len(names) if res["ok"] else 0
    # hygiene over the files this property depends on
    deps = set()
    deps_of(suite.PROPS_FILE, deps)
    bad = []
    for f in sorted(deps):
        src = strip_comments(open(os.path.join(B.COQDIR, f)).read())
        for n, line in enumerate(src.split("\n"), 1):
            if HYGIENE_RE.search(line):
                bad.append("%s:%d: %s" % (f, n, line.strip()[:100]))
    res["hygiene"] = bad
    res["files"] = sorted(deps)
    if bad:
        res["ok"] = False
        res["discharged"] = 0
        res["log"] += "\nforbidden constructs: " + "; ".join(bad[:5])
    res["wall_s"] = round(time.time() - t0, 1)
    return res


# ------------------------------------------------------------------------------- verdict

def corpus_cases(pid):
    d = os.path.join(VERIF, "corpus", pid)
    cases = []
    if os.path.isdir(d):
        for f in sorted(os.listdir(d)):
            for line in open(os.path.join(d, f)):
                line = line.rstrip("\n")
                if line and not line.startswith("#"):
                    cases.append(Case(line, "corpus", "corpus/" + f))
    return cases


def write_replay(pid, payload):
    d = os.path.join(VERIF, "replays")
    os.makedirs(d, exist_ok=True)
    n = 0
    while os.path.exists(os.path.join(d, "%s-%d.json" % (pid, n))):
        n += 1
    p = os.path.join(d, "%s-%d.json" % (pid, n))
    json.dump(payload, open(p, "w"), indent=1)
    return p


def evaluate(suite, built, cases, tier):
    if hasattr(suite, "run_impl"):
        impl = suite.run_impl(built, cases, tier)
    else:
        impl = run_lines(built["impl"], [c.line for c in cases], env=built.get("env"),
                         per_case_timeout=built.get("per_case_timeout", 20),
                         timeout_per_batch=built.get("batch_timeout", 900))
    if hasattr(suite, "postprocess"):
        impl = [suite.postprocess(c, r) for c, r in zip(cases, impl)]
    model = run_driver(built["driver"], cases, impl)
    return impl, model


def main(argv=None):
    argv = argv if argv is not None else sys.argv[1:]
    if not argv:
        print("usage: check <ID> [--tier quick|thorough] [--replay file]")
        return 2
    pid = argv[0].upper()
    tier = os.environ.get("VERIF_TIER", "quick")
    replay = None
    i = 1
    while i < len(argv):
        if argv[i] == "--tier":
            tier = argv[i + 1]
            i += 2
        elif argv[i] == "--replay":
            replay = argv[i + 1]
            i += 2
        else:
            print("unknown argument", argv[i])
            return 2
    seed = int(os.environ.get("VERIF_SEED", "1"))
    suite = load_suite(pid)
    if replay:
        return do_replay(suite, pid, replay, tier)
    return run_check(suite, pid, tier, seed)


def do_replay(suite, pid, path, tier):
    payload = json.load(open(path))
    built = suite.build(tier)
    built["driver"] = [B.ocaml_driver(pid)] + built.get("driver_args", [])
    lines = payload.get("cases") or ([payload["case"]] if payload.get("case") else [])
    if not lines:
        print("replay file names no concrete case (no-failing-input-found):")
        print(json.dumps(payload, indent=1)[:3000])
        return 0
    cases = [Case(l, "replay", path) for l in lines]
    impl, model = evaluate(suite, built, cases, tier)
    rc = 0
    for c, r, (m, oi, om) in zip(cases, impl, model):
        print("case  :", c.line[:2000])
        print("impl  :", r[:2000])
        print("model :", m[:2000])
        print("oracle(impl)=%s oracle(model)=%s agree=%s" % (oi, om, r == m))
        if not oi:
            rc = 1
    return rc


def run_check(suite, pid, tier, seed):
    t0 = time.time()
    rng = random.Random(seed * 1000003 + (7 if tier == "thorough" else 0))
    ev = {"property_id": pid, "tier": tier, "seed": seed, "level": suite.LEVEL, "violations": 0,
          "coverage": {}, "assumptions": list(getattr(suite, "ASSUMPTIONS", []))}
    cov = ev["coverage"]
    violations = []     # (text, replay payload)
    known_lines = []

    # 1. proofs
    proofs = check_proofs(suite)
    cov["obligations"] = proofs["obligations"]
    cov["discharged"] = proofs["discharged"]
    cov["checker_cmd"] = ("coqc -q -Q . F8 (Coq 8.16.1, full .vo, no -vos) on every file of the dependency cone of %s in "
                          "coqdep order [vlib/build.py:coq_make], then coqc -Q . F8 %s to collect Print Assumptions; "
                          "from scratch: cd /verif/coq && coq_makefile -f _CoqProject -o Makefile && make %s" %
                          (" ".join(suite.COQ_TARGETS), suite.PROPS_FILE, " ".join(suite.COQ_TARGETS)))
    cov["trusted_base"] = list(suite.TRUSTED_BASE)
    cov["theorems"] = proofs["theorems"]
    cov["coq_files"] = proofs["files"]
    cov["proof_wall_s"] = proofs["wall_s"]
    if tier == "thorough" and proofs["ok"]:
        # independent re-check of the compiled theories with coqchk (lists every axiom of every
        # loaded library; the per-theorem Print Assumptions above is the authority for the property)
        mod = "F8." + suite.PROPS_FILE[:-2].replace("/", ".")
        try:
            rc_chk, out_chk = B.run(["timeout", "1500", "coqchk", "-o", "-silent", "-Q", ".", "F8", mod],
                                    cwd=B.COQDIR, timeout=1600, check=False, quiet=True)
            cov["coqchk"] = {"cmd": "coqchk -o -silent -Q . F8 " + mod, "ok": rc_chk == 0,
                             "output": re.sub(r"[ \t]+", " ", out_chk)[-1500:]}
            if rc_chk != 0 and rc_chk != 124:
                proofs["ok"] = False
                proofs["log"] += "\ncoqchk failed: " + out_chk[-1500:]
                cov["discharged"] = 0
        except Exception as e:
            cov["coqchk"] = {"error": str(e)[:300]}

    # 2. build implementation + model
    try:
        built = suite.build(tier)
        built["driver"] = [B.ocaml_driver(pid)] + built.get("driver_args", [])
    except B.BuildError as e:
        # the tree no longer builds, or the extracted model is missing (proofs broke before
        # extraction): nothing can be shown.
        msg = str(e)
        payload = {"property": pid, "suite": pid, "theorem_or_correspondence": "build",
                   "error": msg[-3000:], "proofs": proofs["log"][-3000:], "tier": tier, "seed": seed}
        rp = write_replay(pid, payload)
        cov.update({"evaluations": 0, "distinct_nontrivial": 0, "rule": suite.RULE, "samples": []})
        ev["violations"] = 1
        ev["wall_s"] = round(time.time() - t0, 1)
        write_evidence(pid, ev)
        print(msg[-3000:])
        print("VIOLATION property=%s replay=%s no-failing-input-found" % (pid, rp))
        return 1

    # 3. cases
    known = load_known(pid)
    cases = corpus_cases(pid)
    for e in known:
        for w in ([e["witness"]] if isinstance(e.get("witness"), str) else e.get("witness", [])):
            cases.append(Case(w, "known-witness", "known:" + e["id"]))
    cases += suite.gen_cases(rng, tier)
    impl, model = evaluate(suite, built, cases, tier)

    # 4. analyse
    def analyse(cases, impl, model):
        disagree, fails = [], []
        for k, (c, r, (m, oi, om)) in enumerate(zip(cases, impl, model)):
            if r != m:
                disagree.append(k)
            if not oi:
                fails.append(k)
        return disagree, fails

    disagree, fails = analyse(cases, impl, model)
    new_fail = []
    reproduced = {}
    for k in fails:
        c, r, (m, oi, om) = cases[k], impl[k], model[k]
        matched = None
        if (not om) and r == m:
            for e in known:
                if e.get("status") != "known":
                    continue
                fn = suite.CLASSIFIERS.get(e["classifier"])
                if fn and fn(c, r, m):
                    matched = e
                    break
        if matched is None and getattr(suite, "SITE_KNOWN", None):
            # findings keyed by sanitizer call site (impl-only observable)
            for e in known:
                if e.get("status") == "known" and e.get("classifier") == "site" and e.get("site") and e["site"] in r:
                    fn = suite.SITE_KNOWN
                    if fn(c, r, m, e):
                        matched = e
                        break
        if matched is None:
            new_fail.append(k)
        else:
            reproduced.setdefault(matched["id"], []).append(k)

    # 5. distribution / nontrivial
    dist = {}
    seen = set()
    nontriv = 0
    for c, r in zip(cases, impl):
        dist[c.cls] = dist.get(c.cls, 0) + 1
        if c.line in seen:
            continue
        seen.add(c.line)
        try:
            if suite.nontrivial(c, r):
                nontriv += 1
        except Exception:
            pass
    cov["evaluations"] = len(cases)
    cov["distinct_nontrivial"] = nontriv
    cov["rule"] = suite.RULE
    cov["distribution"] = dist
    sample_idx = sorted(set([0, len(cases) // 3, (2 * len(cases)) // 3, len(cases) - 1])) if cases else []
    cov["samples"] = [{"case": cases[k].line[:400], "class": cases[k].cls, "impl": impl[k][:300],
                       "model": model[k][0][:300], "oracle_impl": model[k][1]} for k in sample_idx]
    cov["correspondence"] = {"compared": len(cases), "disagreements": len(disagree)}
    cov["oracle_failures"] = {"impl": len(fails), "unlisted": len(new_fail)}
    cov["exhaustive"] = bool(getattr(suite, "EXHAUSTIVE", lambda t: False)(tier))
    if hasattr(suite, "extra_evidence"):
        try:
            cov.update(suite.extra_evidence({"cases": cases, "impl": impl, "model": model, "tier": tier}))
        except Exception as e:
            cov["extra_evidence_error"] = str(e)

    # 6. verdict
    rc = 0
    final_lines = []
    if new_fail:
        k = shrink_pick(suite, built, cases, impl, model, new_fail, tier, known)
        c, r, m = k
        payload = {"property": pid, "suite": pid, "case": c.line, "impl": r, "model": m[0],
                   "oracle": {"impl": m[1], "model": m[2]}, "class": c.cls,
                   "theorem_or_correspondence": "oracle %s_ok on the implementation's output" % pid.lower(),
                   "seed": seed, "tier": tier, "others": [cases[j].line[:500] for j in new_fail[:10]]}
        rp = write_replay(pid, payload)
        print("failing case: %s" % c.line[:500])
        print("  impl : %s" % r[:500])
        print("  model: %s" % m[0][:500])
        final_lines.append("VIOLATION property=%s replay=%s" % (pid, rp))
        ev["violations"] = len(new_fail)
        rc = 1
    elif (not proofs["ok"]) or disagree:
        # proof or correspondence broke: extended search for a concrete failing input
        found = None
        extra_total = 0
        if hasattr(suite, "extra_search"):
            seeds = list(disagree[:50])
            for rnd in range(3):
                extra = suite.extra_search(random.Random(seed * 7919 + rnd), [cases[j] for j in seeds], tier)
                if not extra:
                    break
                eimpl, emodel = evaluate(suite, built, extra, tier)
                extra_total += len(extra)
                for c, r, m in zip(extra, eimpl, emodel):
                    if not m[1] and not is_known(suite, known, c, r, m):
                        found = (c, r, m)
                        break
                if found:
                    break
        cov["extended_search_cases"] = extra_total
        what = []
        if not proofs["ok"]:
            what.append("proof obligations of %s no longer check" % suite.PROPS_FILE)
        if disagree:
            what.append("correspondence model/implementation differs on %d of %d cases" % (len(disagree), len(cases)))
        if found:
            c, r, m = found
            payload = {"property": pid, "suite": pid, "case": c.line, "impl": r, "model": m[0],
                       "oracle": {"impl": m[1], "model": m[2]},
                       "theorem_or_correspondence": "; ".join(what), "seed": seed, "tier": tier}
            rp = write_replay(pid, payload)
            print("failing case (extended search): %s" % c.line[:500])
            final_lines.append("VIOLATION property=%s replay=%s" % (pid, rp))
        else:
            first = disagree[0] if disagree else None
            payload = {"property": pid, "suite": pid, "theorem_or_correspondence": "; ".join(what),
                       "proof_log": proofs["log"][-3000:], "failed_theorems": proofs["failed"],
                       "first_disagreement": None if first is None else
                       {"case": cases[first].line, "impl": impl[first], "model": model[first][0]},
                       "disagreeing_cases": [cases[j].line[:500] for j in disagree[:10]],
                       "seed": seed, "tier": tier, "note": "no concrete input violating the oracle was found"}
            rp = write_replay(pid, payload)
            for w in what:
                print(w)
            if first is not None:
                print("first disagreement: %s\n  impl : %s\n  model: %s" % (cases[first].line[:400], impl[first][:400], model[first][0][:400]))
            if not proofs["ok"]:
                print(proofs["log"][-1500:])
            final_lines.append("VIOLATION property=%s replay=%s no-failing-input-found" % (pid, rp))
        ev["violations"] = 1
        rc = 1

    # KNOWN-FINDING lines: one per listed entry whose witness (or any generated case) reproduces
    rep_ids = []
    for e in known:
        if e.get("status") != "known":
            continue
        if e["id"] in reproduced:
            print("KNOWN-FINDING: property=%s %s [%s]" % (pid, e["what"], e["id"]))
            rep_ids.append(e["id"])
    cov["known_findings_reproduced"] = rep_ids
    ev["wall_s"] = round(time.time() - t0, 1)
    write_evidence(pid, ev)
    for l in final_lines:
        print(l)
    if rc == 0:
        print("OK property=%s tier=%s cases=%d nontrivial=%d theorems=%d/%d disagreements=0 wall=%.1fs" %
              (pid, tier, len(cases), nontriv, proofs["discharged"], proofs["obligations"], ev["wall_s"]))
    B.gc_cache()
    return rc


def is_known(suite, known, c, r, m):
    if m[2] or r != m[0]:
        return False
    for e in known:
        if e.get("status") == "known":
            fn = suite.CLASSIFIERS.get(e["classifier"])
            if fn and fn(c, r, m[0]):
                return True
    return False


def shrink_pick(suite, built, cases, impl, model, new_fail, tier, known=()):
    """Choose the smallest failing case; let the suite shrink it further if it knows how."""
    k = min(new_fail, key=lambda j: len(cases[j].line))
    best = (cases[k], impl[k], model[k])
    if hasattr(suite, "shrink"):
        try:
            for _ in range(40):
                cands = suite.shrink(best[0])
                if not cands:
                    break
                cimpl, cmodel = evaluate(suite, built, cands, tier)
                nxt = None
                for c, r, m in zip(cands, cimpl, cmodel):
                    if not m[1] and len(c.line) < len(best[0].line) and not is_known(suite, known, c, r, m):
                        nxt = (c, r, m)
                        break
                if nxt is None:
                    break
                best = nxt
        except Exception:
            pass
    return best


def write_evidence(pid, ev):
    # runs against a private copy of the repository (mutant rehearsals) do not touch the evidence
    d = os.path.join(VERIF, "evidence") if B.REPO == "/repo" else os.path.join(B.CACHE, "evidence-mutants")
    os.makedirs(d, exist_ok=True)
    tmp = os.path.join(d, ".%s.json.tmp%d" % (pid, os.getpid()))
    json.dump(ev, open(tmp, "w"), indent=1)
    os.rename(tmp, os.path.join(d, pid + ".json"))
