"""Content-hashed build cache for fix8 objects, f8c, generated schema code, harnesses,
the Coq project and the extracted OCaml drivers.

Everything is rebuilt from /repo's *current working tree*: every cache key contains the
SHA-256 of the source text (and of every header under include/fix8) it was compiled from, so
an edit under /repo yields new keys and therefore new objects; an unchanged tree is compiled
once and shared by all checks.  Nothing is kept outside /verif/.cache.
"""
import fcntl
import glob
import hashlib
import os
import re
import shutil
import subprocess
import sys
import time
from concurrent.futures import ThreadPoolExecutor

VERIF = os.path.dirname(os.path.dirname(os.path.abspath(__file__)))
REPO = os.environ.get("VERIF_REPO", "/repo")
CACHE = os.path.join(VERIF, ".cache")
COQDIR = os.path.join(VERIF, "coq")
GUARD = "FIX8_VERIF"

STD = "-std=c++11"
SAN = ["-fsanitize=address,undefined", "-fno-sanitize=alignment,vptr",
       "-fno-sanitize-recover=all", "-fno-omit-frame-pointer"]
BASEFLAGS = [STD, "-DHAVE_CONFIG_H", "-D" + GUARD, "-g", "-O1", "-w"]
LIBS = ["-lPocoFoundation", "-lPocoNet", "-lPocoUtil", "-lz", "-lpthread", "-ldl"]

RUNTIME_SRCS = ["message.cpp", "f8utils.cpp", "modp_numtoa.c", "traits.cpp", "logger.cpp",
                "gzstream.cpp", "persist.cpp", "filepersist.cpp", "configuration.cpp",
                "xml.cpp", "session.cpp", "connection.cpp"]
COMPILER_SRCS = ["f8c.cpp", "f8cutils.cpp", "f8precomp.cpp"]

VARIANTS = {
    # name -> extra flags (compile and link)
    "asan": SAN,
    "asan_assert": SAN + ["-D_GLIBCXX_ASSERTIONS"],
    "tsan": ["-fsanitize=thread", "-fno-omit-frame-pointer"],
    "plain": [],
}


def log(*a):
    print("[build]", *a, file=sys.stderr, flush=True)


def sha(*parts):
    h = hashlib.sha256()
    for p in parts:
        if isinstance(p, str):
            p = p.encode()
        h.update(p)
        h.update(b"\0")
    return h.hexdigest()[:24]


def read(path):
    with open(path, "rb") as f:
        return f.read()


_hdr_hash = None


def include_dir():
    """-I directories: the repo's include dir, plus a fallback for f8config.h (a configure
    product which is not tracked by git)."""
    inc = [os.path.join(REPO, "include")]
    if not os.path.exists(os.path.join(REPO, "include/fix8/f8config.h")):
        inc.append(os.path.join(VERIF, "harness/fallback_include"))
    return inc


def headers_hash():
    """Hash of every header a fix8 translation unit may include."""
    global _hdr_hash
    if _hdr_hash is None:
        files = []
        for root in (os.path.join(REPO, "include"), os.path.join(REPO, "runtime"),
                     os.path.join(REPO, "compiler")):
            for dp, dn, fn in os.walk(root):
                dn[:] = [d for d in dn if d not in (".libs", ".deps")]
                for f in fn:
                    if f.endswith((".hpp", ".h", ".tpp")):
                        files.append(os.path.join(dp, f))
        files.sort()
        h = hashlib.sha256()
        for f in files:
            h.update(f.encode())
            h.update(read(f))
        _hdr_hash = h.hexdigest()[:24]
    return _hdr_hash


class Lock:
    def __init__(self, name):
        os.makedirs(os.path.join(CACHE, "locks"), exist_ok=True)
        self.path = os.path.join(CACHE, "locks", name.replace("/", "_"))

    def __enter__(self):
        self.f = open(self.path, "w")
        fcntl.flock(self.f, fcntl.LOCK_EX)
        return self

    def __exit__(self, *a):
        fcntl.flock(self.f, fcntl.LOCK_UN)
        self.f.close()


def run(cmd, cwd=None, timeout=1800, env=None, check=True, quiet=False):
    t0 = time.time()
    p = subprocess.run(cmd, cwd=cwd, stdout=subprocess.PIPE, stderr=subprocess.STDOUT,
                       timeout=timeout, env=env)
    out = p.stdout.decode(errors="replace")
    if p.returncode != 0 and check:
        raise BuildError("command failed (%d): %s\n%s" % (p.returncode, " ".join(cmd), out[-6000:]))
    if not quiet and time.time() - t0 > 5:
        log("%.1fs  %s" % (time.time() - t0, " ".join(cmd)[:160]))
    return p.returncode, out


class BuildError(Exception):
    pass


def _used(path):
    """Mark a cache entry as in use (gc_cache keeps what was used recently)."""
    try:
        os.utime(path, None)
    except OSError:
        pass
    return path


def compile_obj(src, variant="asan", extra=(), extra_hash=""):
    """Compile one source file (absolute path) to a cached object; returns its path."""
    flags = BASEFLAGS + VARIANTS[variant] + list(extra) + ["-I" + d for d in include_dir()]
    is_c = src.endswith(".c")
    if is_c:
        flags = [f for f in flags if f != STD]
    key = sha(read(src), headers_hash(), " ".join(flags), src, extra_hash)
    out = os.path.join(CACHE, "obj", "%s-%s.o" % (os.path.basename(src), key))
    if os.path.exists(out):
        return _used(out)
    os.makedirs(os.path.dirname(out), exist_ok=True)
    with Lock("obj-" + os.path.basename(out)):
        if os.path.exists(out):
            return out
        tmp = out + ".tmp%d" % os.getpid()
        cc = "gcc" if is_c else "g++"
        run([cc] + flags + ["-c", src, "-o", tmp])
        os.rename(tmp, out)
    return out


def compile_many(srcs, variant="asan", extra=(), extra_hash=""):
    with ThreadPoolExecutor(max_workers=16) as ex:
        return list(ex.map(lambda s: compile_obj(s, variant, extra, extra_hash), srcs))


def runtime_objs(variant="asan", only=None, extra=()):
    names = only if only is not None else RUNTIME_SRCS
    return compile_many([os.path.join(REPO, "runtime", n) for n in names], variant, extra)


def link(objs, out_name, variant="asan", extra_link=()):
    key = sha(*[os.path.basename(o) for o in objs], variant, " ".join(extra_link))
    out = os.path.join(CACHE, "bin", "%s-%s" % (out_name, key))
    if os.path.exists(out):
        return _used(out)
    os.makedirs(os.path.dirname(out), exist_ok=True)
    with Lock("bin-" + os.path.basename(out)):
        if os.path.exists(out):
            return out
        tmp = out + ".tmp%d" % os.getpid()
        run(["g++"] + VARIANTS[variant] + list(objs) + list(extra_link) + LIBS + ["-o", tmp])
        os.rename(tmp, out)
    return out


def f8c():
    """The schema compiler built from the current compiler/*.cpp and runtime (no sanitizer:
    it is a tool here; C13/C14 build their own sanitized copy if they want one)."""
    objs = compile_many([os.path.join(REPO, "compiler", n) for n in COMPILER_SRCS], "plain",
                        extra=["-I" + os.path.join(REPO, "compiler")])
    robjs = runtime_objs("plain")
    return link(objs + robjs, "f8c", "plain")


UTEST_EXTRA_FIELDS = ("<field number='9999' name='SampleUserField'  type='STRING' "
                      "messages='NewOrderSingle:N ExecutionReport:N OrderCancelRequest:Y' />"
                      "<field number='9991' name='SampleUserField2' type='STRING' "
                      "messages='NewOrderSingle:N ExecutionReport:N OrderCancelRequest:Y' />")

SCHEMAS = {
    # name -> (xml relative to repo, f8c prefix, namespace, extra args)
    "utest": ("schema/FIX42UTEST.xml", "utest", "UTEST", ["-F", UTEST_EXTRA_FIELDS]),
    "fix44": ("schema/FIX44.xml", "fix44", "FIX44", []),
}


# "utest2c": the repository's FIX42UTEST schema (same prefix and namespace, so harnesses compile
# unchanged) plus a few APPLICATION messages with two-character MsgTypes whose first character
# is that of an administrative type (FIX 4.3+ has such types: AD, AE, ...; FIX42UTEST has
# none).  Derived from /repo's current XML on every run.
UTEST2C_MESSAGES = [("TwoCharA0", "A0"), ("TwoCharAD", "AD"), ("TwoChar0X", "0X"), ("TwoChar1Z", "1Z"),
                    ("TwoChar2B", "2B"), ("TwoChar3C", "3C"), ("TwoChar4D", "4D"), ("TwoChar5E", "5E"),
                    ("TwoCharDD", "DD"), ("TwoCharZZ", "ZZ")]


def _derive_utest2c():
    src = read(os.path.join(REPO, "schema/FIX42UTEST.xml"))
    extra = b"".join(("  <message name='%s' msgcat='app' msgtype='%s'>\n   <field name='ClOrdID' required='Y' />\n"
                      "   <field name='Text' required='N' />\n  </message>\n" % (n, t)).encode()
                     for n, t in UTEST2C_MESSAGES)
    assert src.count(b"</messages>") == 1
    out = src.replace(b"</messages>", extra + b" </messages>", 1)
    realm_head = b"<field number='35' name='MsgType' type='STRING'>\n"
    assert out.count(realm_head) == 1
    vals = b"".join(("   <value enum='%s' description='%s' />\n" % (t, n.upper())).encode() for n, t in UTEST2C_MESSAGES)
    out = out.replace(realm_head, realm_head + vals, 1)
    d = os.path.join(CACHE, "gen-src")
    os.makedirs(d, exist_ok=True)
    path = os.path.join(d, "FIX42UTEST2C-%s.xml" % sha(out)[:16])
    if not os.path.exists(path):
        tmp = path + ".%d" % os.getpid()
        open(tmp, "wb").write(out)
        os.replace(tmp, path)
    return path


DERIVED_SCHEMAS = {"utest2c": (_derive_utest2c, "utest", "UTEST", ["-F", UTEST_EXTRA_FIELDS])}


def gen_schema(name="utest", xml_path=None, prefix=None, ns=None, extra_args=None):
    """Run the fresh f8c on a schema; returns (dir, [generated .cpp], prefix, ns)."""
    if xml_path is None and name in DERIVED_SCHEMAS:
        fn, prefix, ns, extra_args = DERIVED_SCHEMAS[name]
        xml_path = fn()
    if xml_path is None:
        rel, prefix, ns, extra_args = SCHEMAS[name]
        xml_path = os.path.join(REPO, rel)
    extra_args = extra_args or []
    exe = f8c()
    key = sha(os.path.basename(exe), read(xml_path), prefix, ns, " ".join(extra_args), "v2")
    d = os.path.join(CACHE, "gen", "%s-%s" % (name, key))
    done = os.path.join(d, ".done")
    if not os.path.exists(done):
        with Lock("gen-" + os.path.basename(d)):
            if not os.path.exists(done):
                shutil.rmtree(d, ignore_errors=True)
                os.makedirs(d)
                # -s (second pass only = no component pre-compilation) is what utests/Makefile.am
                # uses for FIX42UTEST, which has no components; schemas with components (FIX44)
                # need the precompiler or their component-only groups come out empty
                has_comp = b"<component" in read(xml_path)
                rc, out = run([exe, "-Vp" if has_comp else "-sVp", prefix, "-n", ns, xml_path] + extra_args, cwd=d, timeout=600)
                if not glob.glob(os.path.join(d, "*.cpp")):	# f8c exits 0 after reporting schema errors
                    raise BuildError("f8c generated nothing for %s:\n%s" % (xml_path, out[-4000:]))
                open(done, "w").write("ok")
    cpps = sorted(glob.glob(os.path.join(d, "*.cpp")))
    _used(d)
    return d, cpps, prefix, ns


def schema_objs(name="utest", variant="asan", **kw):
    d, cpps, prefix, ns = gen_schema(name, **kw)
    objs = compile_many(cpps, variant, extra=["-I" + d, "-O0"], extra_hash=d)
    return d, objs, prefix, ns


def harness(name, variant="asan", runtime=None, schema=None, extra=(), extra_link=(),
            extra_srcs=()):
    """Build /verif/harness/<name>.cpp against the current tree.
    runtime: list of runtime source names to link (None = all, [] = none);
    schema: name of a generated schema to compile and link."""
    inc = ["-I" + os.path.join(VERIF, "harness")]
    objs = []
    sdir = None
    if schema:
        sdir, sobjs, prefix, ns = schema_objs(schema, variant)
        objs += sobjs
        inc.append("-I" + sdir)
    srcs = [os.path.join(VERIF, "harness", name + ".cpp")] + [os.path.join(VERIF, "harness", s) for s in extra_srcs]
    hh = sha(*[read(p) for p in sorted(glob.glob(os.path.join(VERIF, "harness", "*.hpp")))])
    hobjs = compile_many(srcs, variant, extra=list(extra) + inc, extra_hash=hh + (sdir or ""))
    robjs = runtime_objs(variant, only=runtime) if runtime != [] else []
    return link(hobjs + objs + robjs, name, variant, extra_link)


# ---------------------------------------------------------------------------- Coq / OCaml

def coq_filelist():
    files = []
    for dp, dn, fn in os.walk(COQDIR):
        for f in fn:
            if f.endswith(".v"):
                files.append(os.path.relpath(os.path.join(dp, f), COQDIR))
    return sorted(files)


def coq_deps():
    """Direct dependencies between the project's .v files, from coqdep."""
    files = coq_filelist()
    rc, out = run(["coqdep", "-Q", ".", "F8"] + files, cwd=COQDIR, check=False, quiet=True)
    deps = {f: [] for f in files}
    for line in out.split("\n"):
        if ".vo " not in line or ":" not in line:
            continue
        lhs, rhs = line.split(":", 1)
        tg = lhs.split()
        if not tg or not tg[0].endswith(".vo"):
            continue
        v = tg[0][:-1]
        if v not in deps:
            continue
        for d in rhs.split():
            if d.endswith(".vo") and d[:-1] in deps and d[:-1] != v:
                deps[v].append(d[:-1])
    return deps


def _mtime(p):
    try:
        return os.stat(p).st_mtime_ns
    except OSError:
        return None


def _fresh(v, deps):
    vo = _mtime(os.path.join(COQDIR, v + "o"))
    src = _mtime(os.path.join(COQDIR, v))
    if vo is None or src is None or vo <= src:
        return False
    for d in deps[v]:
        dm = _mtime(os.path.join(COQDIR, d + "o"))
        if dm is None or dm > vo:
            return False
    return True


def _compile_v(v, deps, timeout):
    """coqc (full .vo) on one file under a per-file lock; the .vo is moved into place atomically,
    and a file another process has just built is not built again."""
    with Lock("vo-" + v.replace("/", "_")):
        if _fresh(v, deps):
            return True, ""
        m = re.match(r"Extract/Extract_(\w+)\.v$", v)
        if m:
            os.makedirs(os.path.join(VERIF, "ocaml", "gen", m.group(1)), exist_ok=True)
        # the logical name of the library is derived from where the .vo is written, so the
        # scratch output directory mirrors the tree and is bound to F8 as well
        tmproot = os.path.join(CACHE, "coqtmp", "%d-%s" % (os.getpid(), v.replace("/", "_")))
        tmpd = os.path.join(tmproot, os.path.dirname(v))
        os.makedirs(tmpd, exist_ok=True)
        base = os.path.basename(v) + "o"
        t0 = time.time()
        rc, out = run(["timeout", str(timeout), "coqc", "-q", "-Q", ".", "F8", "-Q", tmproot, "F8", "-w", "-all", "-o",
                       os.path.join(tmpd, base), v], cwd=COQDIR, timeout=timeout + 30, check=False, quiet=True)
        ok = rc == 0 and os.path.exists(os.path.join(tmpd, base))
        if ok:
            if v.startswith("Props/"):
                # keep what the file printed (Print Assumptions) beside the .vo
                with open(os.path.join(tmpd, base + ".out"), "w") as f:
                    f.write(out)
                os.replace(os.path.join(tmpd, base + ".out"), os.path.join(COQDIR, v + "o.out"))
            os.replace(os.path.join(tmpd, base), os.path.join(COQDIR, v + "o"))
        else:
            try:
                os.remove(os.path.join(COQDIR, v + "o"))
            except OSError:
                pass
        shutil.rmtree(tmproot, ignore_errors=True)
        if time.time() - t0 > 20:
            log("%.0fs coqc %s" % (time.time() - t0, v))
        return ok, ("" if ok else "coqc %s failed (rc=%d):\n%s\n" % (v, rc, out[-3000:]))


def coq_make(targets, timeout=3000, keep_going=True):
    """Full .vo build of the given targets (paths relative to coq/, ending in .vo) and of
    everything they depend on, in dependency order, 16 jobs.  No global lock: every file is
    compiled under its own lock and installed atomically, so concurrent checks never see a
    half-written .vo and never wait for an unrelated long proof.  Returns (ok, log).
    (`coq_makefile -f _CoqProject -o Makefile && make` builds the same thing from scratch; the
    _CoqProject is kept current for that purpose.)"""
    files = coq_filelist()
    listing = "-Q . F8\n-arg -w -arg -all\n" + "\n".join(files) + "\n"
    proj = os.path.join(COQDIR, "_CoqProject")
    try:
        cur = open(proj).read()
    except OSError:
        cur = None
    if cur != listing:
        tmp = proj + ".tmp%d" % os.getpid()
        open(tmp, "w").write(listing)
        os.replace(tmp, proj)
    deps = coq_deps()
    want = set()

    def add(v):
        if v in want or v not in deps:
            return
        want.add(v)
        for d in deps[v]:
            add(d)
    missing = []
    for t in targets:
        v = t[:-1] if t.endswith(".vo") else t
        if v not in deps:
            missing.append(t)
        add(v)
    state = {}          # v -> True/False
    logs = []
    import threading
    cv = threading.Condition()

    def worker(v):
        with cv:
            while any(d not in state for d in deps[v]):
                cv.wait()
            bad = [d for d in deps[v] if not state[d]]
        if bad:
            ok, lg = False, "%s not built: dependency %s failed\n" % (v, bad[0])
        else:
            try:
                ok, lg = _compile_v(v, deps, timeout)
            except Exception as e:      # timeout etc.
                ok, lg = False, "coqc %s: %s\n" % (v, e)
        with cv:
            state[v] = ok
            if lg:
                logs.append(lg)
            cv.notify_all()

    # threads: one per file (they mostly wait); at most 16 compile at once
    sem = threading.Semaphore(16)

    def guarded(v):
        # wait for deps outside the semaphore, compile inside
        with cv:
            while any(d not in state for d in deps[v]):
                cv.wait()
        with sem:
            worker(v)
    ths = [threading.Thread(target=guarded, args=(v,)) for v in sorted(want)]
    for t in ths:
        t.start()
    for t in ths:
        t.join()
    ok = all(state.get(v, False) for v in want) and not missing
    out = "".join(logs)
    if missing:
        out += "unknown targets: %s\n" % " ".join(missing)
    return ok, out


def coqc_capture(vfile, timeout=900):
    """Output of coqc on one file (its dependencies are built): (ok, stdout).  The output saved
    when the current .vo was compiled is used if present, else coqc is re-run."""
    vo = os.path.join(COQDIR, vfile + "o")
    side = vo + ".out"
    a, b = _mtime(vo), _mtime(side)
    if a is not None and b is not None and b <= a and a - b < 600 * 10**9:
        try:
            txt = open(side).read()
            if "Closed under the global context" in txt or "Axioms:" in txt:
                return True, txt
        except OSError:
            pass
    tmpd = os.path.join(CACHE, "coqtmp-%d" % os.getpid())
    os.makedirs(tmpd, exist_ok=True)
    target = os.path.join(tmpd, os.path.basename(vfile) + "o")
    rc, out = run(["timeout", str(timeout), "coqc", "-Q", ".", "F8", "-w", "-all", "-o", target, vfile],
                  cwd=COQDIR, timeout=timeout + 30, check=False, quiet=True)
    shutil.rmtree(tmpd, ignore_errors=True)
    return rc == 0, out


def ocaml_driver(pid):
    """Build the extracted model + driver for property `pid` (e.g. 'C07').
    Extract/Extract_<pid>.v writes ocaml/gen/<pid>/model.ml(i) when compiled."""
    low = pid.lower()
    gendir = os.path.join(VERIF, "ocaml", "gen", pid)
    model = os.path.join(gendir, "model.ml")
    if not os.path.exists(model):
        raise BuildError("extracted model missing: " + model)
    prelude = os.path.join(VERIF, "ocaml", "prelude.ml")
    drv = os.path.join(VERIF, "ocaml", low + "_driver.ml")
    key = sha(read(model), read(prelude), read(drv))
    out = os.path.join(CACHE, "bin", "driver-%s-%s" % (pid, key))
    if os.path.exists(out):
        return _used(out)
    with Lock("ocaml-" + pid):
        if os.path.exists(out):
            return out
        bd = os.path.join(CACHE, "ocaml", pid + "-" + key)
        shutil.rmtree(bd, ignore_errors=True)
        os.makedirs(bd)
        shutil.copy(model, os.path.join(bd, "model.ml"))
        if os.path.exists(model + "i"):
            shutil.copy(model + "i", os.path.join(bd, "model.mli"))
        with open(os.path.join(bd, "driver.ml"), "wb") as f:
            f.write(read(prelude))
            f.write(b"\n# 1 \"%s\"\n" % drv.encode())
            f.write(read(drv))
        srcs = (["model.mli"] if os.path.exists(os.path.join(bd, "model.mli")) else []) + ["model.ml", "driver.ml"]
        os.makedirs(os.path.dirname(out), exist_ok=True)
        run(["ocamlfind", "ocamlopt", "-O3", "-w", "-a", "-package", "str", "-linkpkg"] + srcs + ["-o", out + ".tmp"], cwd=bd, check=False)
        if not os.path.exists(out + ".tmp"):
            run(["ocamlfind", "ocamlopt", "-w", "-a", "-package", "str", "-linkpkg"] + srcs + ["-o", out + ".tmp"], cwd=bd)
        os.rename(out + ".tmp", out)
        shutil.rmtree(bd, ignore_errors=True)
    return out


def gc_cache(max_gb=40, keep_hours=8):
    """Drop the least recently used cached objects when the cache grows beyond max_gb.  Entries used
    (built or returned from the cache: _used() refreshes their times) within the last keep_hours are
    never removed, so a check that is running cannot lose a binary it has just been handed."""
    files = []
    total = 0
    now = time.time()
    for sub in ("obj", "bin", "gen"):
        d = os.path.join(CACHE, sub)
        if not os.path.isdir(d):
            continue
        for e in os.listdir(d):
            p = os.path.join(d, e)
            try:
                st = os.stat(p)
            except OSError:
                continue
            sz = st.st_size
            if os.path.isdir(p):
                sz = sum(os.path.getsize(os.path.join(dp, f)) for dp, _, fn in os.walk(p) for f in fn)
            files.append((max(st.st_atime, st.st_mtime), sz, p))
            total += sz
    files.sort()
    while total > max_gb * 2**30 and files:
        used, sz, p = files.pop(0)
        if now - used < keep_hours * 3600:
            break
        if os.path.isdir(p):
            shutil.rmtree(p, ignore_errors=True)
        else:
            try:
                os.remove(p)
            except OSError:
                pass
        total -= sz
