(* C21 driver.  argv[1] = metadata dump of the harness (h_c21 --meta).
   case = a schedule line (coq/C21/TwoParty.v); impl result = the trace of the two REAL sessions.
   model result = c21_model_line schema case; oracle = c21_ok on the parsed trace of either side.
     driver <meta> --class : stdin "<case>\t<trace>" lines, stdout "<class>\t<exact 0|1>" (coq/C21/Loss.v, Spec_C21.c21_exact) *)
let nlist_of_string (s : string) : n list =
  let r = ref [] in
  for i = String.length s - 1 downto 0 do r := n_of_int (Char.code s.[i]) :: !r done; !r
let string_of_nlist (l : n list) : string =
  let b = Buffer.create 1024 in
  List.iter (fun x -> Buffer.add_char b (Char.chr ((int_of_n x) land 255))) l; Buffer.contents b

let load_schema (path : string) : schema =
  let ic = open_in path in
  let begin_s = ref "" and hdr = ref [] and hdrm = ref [] and msgs = ref [] and admin = Hashtbl.create 64
  and fe = ref "" and names = ref [] in
  let parse_mand ws = List.concat (List.map (fun w -> match split_on ':' w with
      | t :: _ :: _ :: "1" :: _ -> [n_of_int (int_of_string t)] | _ -> []) ws) in
  let parse_traits ws = List.map (fun w -> match split_on ':' w with
      | t :: p :: _ -> (n_of_int (int_of_string t), n_of_int (int_of_string p)) | _ -> failwith "meta") ws in
  (try while true do
    let line = input_line ic in
    match words line with
    | "V" :: v :: _ -> begin_s := v
    | "A" :: t :: a :: _ -> Hashtbl.replace admin t (a = "1")
    | "P" :: "header" :: ws -> hdr := parse_traits ws; hdrm := parse_mand ws
    | "F" :: t :: name :: _ -> names := (n_of_int (int_of_string t), nlist_of_string name) :: !names
    | "P" :: "trailer" :: _ -> ()
    | "P" :: t :: ws ->
      msgs := { d_type = nlist_of_string t; d_admin = (try Hashtbl.find admin t with Not_found -> false);
                d_pos = parse_traits ws; d_mand = parse_mand ws } :: !msgs
    | "E" :: "factory_empty" :: h :: _ -> fe := string_of_bytes (bytes_of_hex h)
    | _ -> ()
  done with End_of_file -> close_in ic);
  { sc_begin = nlist_of_string !begin_s; sc_hdr = !hdr; sc_hdr_mand = !hdrm; sc_names = !names; sc_msgs = List.rev !msgs;
    sc_routed = List.map nlist_of_string ["D"; "8"; "F"];
    sc_factory_empty = nlist_of_string !fe }

let () =
  let sc = load_schema Sys.argv.(1) in
  if Array.length Sys.argv > 2 && Sys.argv.(2) = "--class" then
    (try while true do
       let line = input_line stdin in
       let case, tr = match String.index_opt line '\t' with
         | Some i -> String.sub line 0 i, String.sub line (i+1) (String.length line - i - 1)
         | None -> line, "" in
       let c = nlist_of_string case and t = nlist_of_string tr in
       Printf.printf "%d\t%s\n" (int_of_n (c21_class_line c t)) (b01 (c21_exact_line c t))
     done with End_of_file -> ())
  else
    run_protocol (fun case impl ->
      let c = nlist_of_string case in
      let m = c21_model_line sc c in
      (string_of_nlist m, c21_ok_line c (nlist_of_string impl), c21_ok_line c m))
