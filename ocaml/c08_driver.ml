(* C08 driver.  Cases (see harness/h_c08.cpp for the implementation side):
     itoa <v>                 itoa<int>(v) then fast_atoi<int>(text)       -> "<text> <parsed>"
     utoa <v>                 itoa<unsigned>(v) then fast_atoi<unsigned>   -> "<text> <parsed>"
     atoi <i|u|s> <term> <hex text>   fast_atoi<T>(text, term)             -> "<value>"
     dtoa <p> <hex16 bits>    modp_dtoa(v, p) then fast_atof(text)         -> "<text> <hex16>" | "EXP"
     atof <hex text>          fast_atof(text)                              -> "<hex16>"
   Texts are shown with printable characters as they are and everything else as \xHH. *)

let show_text (l : z list) : string =
  if l = [] then "<>" else
  String.concat "" (List.map (fun c ->
    let c = int_of_z c in
    if c >= 0x21 && c <= 0x7e && c <> 92 then String.make 1 (Char.chr c)
    else Printf.sprintf "\\x%02x" (c land 255)) l)

let parse_text (s : string) : z list =
  if s = "<>" then [] else begin
    let out = ref [] and i = ref 0 and n = String.length s in
    while !i < n do
      if s.[!i] = '\\' && !i + 3 < n && s.[!i + 1] = 'x' then begin
        out := (hexval s.[!i + 2] * 16 + hexval s.[!i + 3]) :: !out; i := !i + 4 end
      else begin out := Char.code s.[!i] :: !out; incr i end
    done;
    List.rev_map z_of_int !out
  end

let two32 = z_of_string "4294967296"
let z_of_hex16 (s : string) : z =
  if String.length s <> 16 then failwith "hex16" else
  Z.add (Z.mul (z_of_int (int_of_string ("0x" ^ String.sub s 0 8))) two32)
        (z_of_int (int_of_string ("0x" ^ String.sub s 8 8)))
let hex16_of_z (b : z) : string =
  Printf.sprintf "%08x%08x" (int_of_z (Z.div b two32)) (int_of_z (Z.modulo b two32))

let is_nan_f (x : binary_float) = match x with B754_nan -> true | _ -> false
let show_f64 (x : binary_float) : string = if is_nan_f x then "nan" else hex16_of_z (bits_of_f64 x)
let read_f64 (s : string) : binary_float =
  if s = "nan" then B754_nan else f64_of_bits (z_of_hex16 s)

let ity_of s = match s with "i" -> (T_int, "-2147483648", "2147483647")
                          | "u" -> (T_uint, "0", "4294967295")
                          | "s" -> (T_ushort, "0", "65535")
                          | _ -> failwith "ity"

(* outcome of a parse: the value, or "OOB" (a non-NUL terminator that does not occur).  The model has no
   undefined operation any more (1965750): a sanitizer report inside fast_atoi ("UB" on the
   implementation side) is always a disagreement and always fails the oracle *)
let show_ar (r : atoi_result) : string = match r with AR_ok v -> string_of_z v | AR_oob -> "OOB"
let opt_ar (r : atoi_result) : z option = match r with AR_ok v -> Some v | _ -> None

let int_case (rt : z -> (z list * atoi_result) option) (v : z) (impl : string) =
  let r = rt v in
  let (ms, om) = (match r with
    | Some (t, AR_ok r) -> (show_text t ^ " " ^ string_of_z r, c08_int_strict_ok v t (Some r))
    | Some (t, a) -> (show_ar a, c08_int_strict_ok v t None)
    | None -> ("FUEL", false)) in
  let oi = (match words impl with
            | [t; p] -> (try c08_int_strict_ok v (parse_text t) (Some (z_of_string p)) with _ -> false)
            | _ -> false) in
  (ms, oi, om)

let () = run_protocol (fun case impl ->
  match words case with
  | ["itoa"; v] -> int_case int_roundtrip (z_of_string v) impl
  | ["utoa"; v] -> int_case uint_roundtrip (z_of_string v) impl
  | ["atoi"; ty; term; hx] ->
    let (t, lo, hi) = ity_of ty in
    let text = zlist_of_hex hx in
    let r = fast_atoi t (z_of_string term) text in
    let lo = z_of_string lo and hi = z_of_string hi in
    let ms = show_ar r in
    let om = c08_atoi_ok lo hi text (opt_ar r) in
    let iv = (try Some (z_of_string (if impl = "" || not (String.for_all (fun c -> c = '-' || (c >= '0' && c <= '9')) impl) then failwith "nan" else impl)) with _ -> None) in
    let oi = (match iv with Some _ -> c08_atoi_ok lo hi text iv | None -> false) in
    (ms, oi, om)
  | ["dtoa"; p; bits] ->
    let p = z_of_string p and v = read_f64 bits in
    let (r, d) = float_roundtrip v p in
    let (ms, mr) = (match r, d with
      | DT_text t, Some d -> (show_text t ^ " " ^ show_f64 d, Some (t, d))
      | DT_sprintf, _ -> ("EXP", None)
      | DT_overflow, _ -> ("UB-INT-OVERFLOW", None)
      | _, _ -> ("FUEL", None)) in
    let om = c08_float_ok v p mr in
    let ir = (match words impl with
              | [t; d] -> (try Some (parse_text t, read_f64 d) with _ -> None)
              | _ -> None) in
    let oi = (match ir with Some _ -> c08_float_ok v p ir | None -> (impl = "EXP" || impl = "UB-INT-OVERFLOW") && c08_float_ok v p None) in
    (ms, oi, om)
  | ["atof"; hx] ->
    let text = zlist_of_hex hx in
    let d = fast_atof text in
    let om = c08_atof_ok text d in
    let oi = (try c08_atof_ok text (read_f64 impl) with _ -> false) in
    (show_f64 d, oi, om)
  | _ -> ("BAD-CASE", false, false))
