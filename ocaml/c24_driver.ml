(* C24 driver.  Case lines (see harness/h_c24.cpp):
     D <hex>,<hex>,...
     S <start> <end|E> <utc_min> <sd> <ed> <prev0> <t0> <n> <gap>,<gap>,...
     X <start_time> <end_time> <utc_offset_mins> <duration> <start_day> <end_day>   (hex, - = empty, ~ = absent)
     W <the six X fields> <prev0> <t0> <n> <gap>,...
     C <t> *)
let zs = z_of_string
let sz = string_of_z
let ticks_of s = if s = "E" then errorticks else zs s
let show_ticks z = if z = errorticks then "E" else sz z

let rle (bits : bool list) : string =
  let buf = Buffer.create 64 in
  let flush b n = if n > 0 then begin
      if Buffer.length buf > 0 then Buffer.add_char buf ' ';
      Buffer.add_string buf (if b then "1*" else "0*"); Buffer.add_string buf (string_of_int n) end in
  let rec go cur n = function
    | [] -> flush cur n
    | b :: r -> if n > 0 && b <> cur then (flush cur n; go b 1 r) else go b (n + 1) r in
  go false 0 bits;
  if Buffer.length buf = 0 then "-" else Buffer.contents buf

let unrle (s : string) : bool list option =
  if s = "-" then Some [] else
  try
    let parts = words s in
    let acc = ref [] in
    List.iter (fun p ->
      match split_on '*' p with
      | [b; n] when (b = "0" || b = "1") ->
        let n = int_of_string n in
        if n <= 0 || n > 10000000 then failwith "rle";
        for _ = 1 to n do acc := (b = "1") :: !acc done
      | _ -> failwith "rle") parts;
    Some (List.rev !acc)
  with _ -> None

let instants (t0 : z) (n : int) (gaps : z list) : z list =
  let g = Array.of_list gaps in
  let k = Array.length g in
  let rec go i t acc = if i >= n then List.rev acc else go (i + 1) (Z.add t g.(i mod k)) (t :: acc) in
  go 0 t0 []

let opt_hex s = if s = "~" then None else Some (zlist_of_hex s)
let opt_num s = if s = "~" then None else
  Some (zs (string_of_bytes (bytes_of_hex s)))

let () = run_protocol (fun case impl ->
  match words case with
  | ["D"; all] ->
    let strs = List.map (fun h -> zlist_of_hex h) (split_on ',' all) in
    let ms = List.map decode_dow strs in
    let mstr = String.concat "," (List.map sz ms) in
    let om = List.for_all2 c24_ok_dow strs ms in
    let oi = (try
                let is = List.map zs (split_on ',' impl) in
                List.length is = List.length strs && List.for_all2 c24_ok_dow strs is
              with _ -> false) in
    (mstr, oi, om)
  | ["S"; st; en; utc; sd; ed; prev0; t0; n; gaps] ->
    let c = { s_start = ticks_of st; s_end = ticks_of en; s_duration = Z0; s_utc = zs utc;
              s_sd = zs sd; s_ed = zs ed } in
    let ts = instants (zs t0) (int_of_string n) (List.map zs (split_on ',' gaps)) in
    let r = run_o c (prev0 <> "0") ts in
    let mstr = (match r with None -> "UB-OVERFLOW" | Some bits -> rle bits) in
    let eno = if en = "E" then None else Some (zs en) in
    let ok res = c24_ok_run (zs utc) (zs sd) (zs ed) (zs st) eno ts res in
    let om = ok r in
    ((mstr, (if impl = mstr then om else ok (unrle impl)), om))
  | ["X"; st; en; utc; dur; sd; ed] ->
    let x = { x_start = opt_hex st; x_end = opt_hex en; x_utc = opt_num utc; x_dur = opt_num dur;
              x_sd = opt_hex sd; x_ed = opt_hex ed } in
    let r = create_schedule x in
    let mstr = (match r with
      | CS_ub -> "UB"
      | CS_invalid -> "INVALID"
      | CS_error -> "EXC ConfigurationError"
      | CS_ok s -> String.concat " " [show_ticks s.s_start; show_ticks s.s_end; sz s.s_duration;
                                      sz s.s_utc; sz s.s_sd; sz s.s_ed; sz (toffset s)]) in
    let parse str = (match words str with
      | ["INVALID"] -> R_invalid
      | ["EXC"; "ConfigurationError"] -> R_rejected
      | [a; b; _; u; d1; d2; _] ->
        (try R_sched (zs a, (if b = "E" then None else Some (zs b)), zs u, zs d1, zs d2) with _ -> R_crash)
      | _ -> R_crash) in
    let ok str = c24_ok_cfg x.x_start x.x_end x.x_utc x.x_dur x.x_sd x.x_ed (parse str) in
    (mstr, ok impl, ok mstr)
  | ["W"; st; en; utc; dur; sd; ed; prev0; t0; n; gaps] ->
    let x = { x_start = opt_hex st; x_end = opt_hex en; x_utc = opt_num utc; x_dur = opt_num dur;
              x_sd = opt_hex sd; x_ed = opt_hex ed } in
    let ts = instants (zs t0) (int_of_string n) (List.map zs (split_on ',' gaps)) in
    let r = configured_run x (prev0 <> "0") ts in
    let mstr = (match r with
      | CR_ub -> "UB-OVERFLOW" | CR_invalid -> "INVALID" | CR_error -> "EXC ConfigurationError"
      | CR_bits b -> rle b) in
    let parse str = (match str with
      | "INVALID" -> W_invalid
      | "EXC ConfigurationError" -> W_rejected
      | _ -> (match unrle str with Some b -> W_bits b | None -> W_crash)) in
    let ok str = c24_ok_cfgrun x.x_start x.x_end x.x_utc x.x_dur x.x_sd x.x_ed ts (parse str) in
    let om = ok mstr in
    (mstr, (if impl = mstr then om else ok impl), om)
  | ["C"; t] ->
    let t = zs t in
    let mstr = String.concat " " [sz t; sz (wday_of t); sz (Z.quot t billion)] in
    (mstr, impl = mstr, true)
  | _ -> ("BAD-CASE", false, false))
