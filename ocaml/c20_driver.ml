(* C20 driver.  argv[1] = metadata dump of the harness (h_sess --meta).
   case = a SCENARIO line (coq/C20/Scenario.v): the session's own operations and what the counterparty does.
   The extracted counterparty specification (coq/C20/Peer.v) is run against the session model; that yields the
   history (the operations incl. the IN operations with the counterparty's bytes) and the model's trace.
     driver <meta> --hist    : stdin scenario lines, stdout "<history line for h_sess>\t<class>\t<exact 0|1>"
                               (class: 0 / 1 = Logon above expected / 2 = gap not closed by a GapFill)
     driver <meta>           : line protocol "<scenario>\t<trace of the REAL session on that history>" ->
                               "<model trace>\t<c20_ok real>\t<c20_ok model>" *)
let nlist_of_string (s : string) : n list =
  let r = ref [] in
  for i = String.length s - 1 downto 0 do r := n_of_int (Char.code s.[i]) :: !r done; !r
let string_of_nlist (l : n list) : string =
  let b = Buffer.create 1024 in
  List.iter (fun x -> Buffer.add_char b (Char.chr ((int_of_n x) land 255))) l; Buffer.contents b

let load_schema (path : string) : schema =
  let ic = open_in path in
  let begin_s = ref "" and hdr = ref [] and hdrm = ref [] and msgs = ref [] and admin = Hashtbl.create 64
  and fe = ref "" and names = ref [] in
  let parse_mand ws = List.concat (List.map (fun w -> match split_on ':' w with
      | t :: _ :: _ :: "1" :: _ -> [n_of_int (int_of_string t)] | _ -> []) ws) in
  let parse_traits ws = List.map (fun w -> match split_on ':' w with
      | t :: p :: _ -> (n_of_int (int_of_string t), n_of_int (int_of_string p)) | _ -> failwith "meta") ws in
  (try while true do
    let line = input_line ic in
    match words line with
    | "V" :: v :: _ -> begin_s := v
    | "A" :: t :: a :: _ -> Hashtbl.replace admin t (a = "1")
    | "P" :: "header" :: ws -> hdr := parse_traits ws; hdrm := parse_mand ws
    | "F" :: t :: name :: _ -> names := (n_of_int (int_of_string t), nlist_of_string name) :: !names
    | "P" :: "trailer" :: _ -> ()
    | "P" :: t :: ws ->
      msgs := { d_type = nlist_of_string t; d_admin = (try Hashtbl.find admin t with Not_found -> false);
                d_pos = parse_traits ws; d_mand = parse_mand ws } :: !msgs
    | "E" :: "factory_empty" :: h :: _ -> fe := string_of_bytes (bytes_of_hex h)
    | _ -> ()
  done with End_of_file -> close_in ic);
  { sc_begin = nlist_of_string !begin_s; sc_hdr = !hdr; sc_hdr_mand = !hdrm; sc_names = !names; sc_msgs = List.rev !msgs;
    sc_routed = List.map nlist_of_string ["D"; "8"; "F"];
    sc_factory_empty = nlist_of_string !fe }

let () =
  let sc = load_schema Sys.argv.(1) in
  let run case =
    let c = nlist_of_string case in
    let r = c20_run sc c in
    (parse_scenario c, r, List.rev (List.map snd (r_ops r)), List.rev (r_tr r)) in
  if Array.length Sys.argv > 2 && Sys.argv.(2) = "--hist" then
    (try while true do
       let case = input_line stdin in
       let (acts, r, ops, tr) = run case in
       Printf.printf "%s\t%d\t%s\n" (string_of_nlist (history_text r)) (int_of_n (c20_class ops tr)) (b01 (c20_exact sc acts tr))
     done with End_of_file -> ())
  else
    run_protocol (fun case impl ->
      let (acts, _, ops, tr) = run case in
      let m = render_trace tr in
      (string_of_nlist m, c20_ok sc acts ops (parse_trace (nlist_of_string impl)), c20_ok sc acts ops (parse_trace m)))
