(* C25 driver.  argv[1] = metadata dump of the harness (h_c25 --meta), argv[2] = side file written by the suite's
   run_impl: line k = the RAW trace line the harness printed for the k-th case of this run (it contains the wire
   in the order the OS happened to schedule the threads = the linearisation; the framework compares only the
   canonical summary, which is what arrives on stdin as the impl result).

   stdin  : "<case>\t<canonical impl result>"          (the canonical part may end in " RACE <site>" tokens put
                                                        there by the suite from the TSan reports)
   stdout : "<model result>\t<oracle(impl)>\t<oracle(model)>"
   model result = canon_line (render_trace (run_cops .. (parse_cline case) (fparse_trace impl_raw)))   -- the model run under the observed linearisation
                  followed by " TIE-DIFF ..." if the model's raw trace is not byte-identical to the implementation's,
                  by " CANON-DIFF" if the harness' canonical summary is not canon_line of its own raw trace,
                  by " FUNC-FAIL" if c25_ok rejects the implementation's raw trace, and by the RACE tokens of the
                  impl result (a data race is an implementation-only observable; the model has none).
   oracle(impl)  = c25_ok (parsed case) (parsed impl_raw) && no RACE token;   oracle(model) = c25_ok (parsed case) (model trace). *)
let nlist_of_string (s : string) : n list =
  let r = ref [] in
  for i = String.length s - 1 downto 0 do r := n_of_int (Char.code s.[i]) :: !r done; !r
let string_of_nlist (l : n list) : string =
  let b = Buffer.create 1024 in
  List.iter (fun x -> Buffer.add_char b (Char.chr ((int_of_n x) land 255))) l; Buffer.contents b

let load_schema (path : string) : schema =
  let ic = open_in path in
  let begin_s = ref "" and hdr = ref [] and hdrm = ref [] and msgs = ref [] and admin = Hashtbl.create 64
  and fe = ref "" and names = ref [] in
  let parse_mand ws = List.concat (List.map (fun w -> match split_on ':' w with
      | t :: _ :: _ :: "1" :: _ -> [n_of_int (int_of_string t)] | _ -> []) ws) in
  let parse_traits ws = List.map (fun w -> match split_on ':' w with
      | t :: p :: _ -> (n_of_int (int_of_string t), n_of_int (int_of_string p)) | _ -> failwith "meta") ws in
  (try while true do
    let line = input_line ic in
    match words line with
    | "V" :: v :: _ -> begin_s := v
    | "A" :: t :: a :: _ -> Hashtbl.replace admin t (a = "1")
    | "P" :: "header" :: ws -> hdr := parse_traits ws; hdrm := parse_mand ws
    | "F" :: t :: name :: _ -> names := (n_of_int (int_of_string t), nlist_of_string name) :: !names
    | "P" :: "trailer" :: _ -> ()
    | "P" :: t :: ws ->
      msgs := { d_type = nlist_of_string t; d_admin = (try Hashtbl.find admin t with Not_found -> false);
                d_pos = parse_traits ws; d_mand = parse_mand ws } :: !msgs
    | "E" :: "factory_empty" :: h :: _ -> fe := string_of_bytes (bytes_of_hex h)
    | _ -> ()
  done with End_of_file -> close_in ic);
  { sc_begin = nlist_of_string !begin_s; sc_hdr = !hdr; sc_hdr_mand = !hdrm; sc_names = !names; sc_msgs = List.rev !msgs;
    sc_routed = List.map nlist_of_string ["D"; "8"; "F"];
    sc_factory_empty = nlist_of_string !fe }

(* " RACE a~b RACE c~d" at the end of the canonical impl result *)
let split_races (s : string) : string * string =
  let key = " RACE " in
  let n = String.length s and k = String.length key in
  let rec find i = if i + k > n then None else if String.sub s i k = key then Some i else find (i + 1) in
  match find 0 with
  | Some i -> (String.sub s 0 i, String.sub s i (n - i))
  | None -> (s, "")

let first_diff (a : string) (b : string) : string =
  let n = min (String.length a) (String.length b) in
  let i = ref 0 in
  while !i < n && a.[!i] = b.[!i] do incr i done;
  let ctx s = let lo = max 0 (!i - 40) in String.sub s lo (min 100 (String.length s - lo)) in
  Printf.sprintf "at byte %d (impl %d bytes, model %d bytes): impl ..%s.. model ..%s.." !i (String.length a) (String.length b)
    (ctx a) (ctx b)

let () =
  let sc = load_schema Sys.argv.(1) in
  if not (wf_schema sc) then (prerr_endline "schema metadata does not satisfy wf_schema"; exit 3);
  let side = if Array.length Sys.argv > 2 then Some (open_in Sys.argv.(2)) else None in
  run_protocol (fun case impl ->
    let raw = match side with Some ic -> (try input_line ic with End_of_file -> "") | None -> "" in
    let (canon_impl, races) = split_races impl in
    let c = nlist_of_string case in
    let rawl = nlist_of_string raw in
    (* parse once; the oracle is applied to the parsed traces of both sides *)
    let ops = parse_cline c in
    let itr = fparse_trace rawl in
    let mtr = run_cops sc world0 false ops itr in
    let mraw = render_trace mtr in
    let mraw_s = string_of_nlist mraw in
    let m = string_of_nlist (canon_line c mraw) in
    let oi_f = c25_ok ops itr in
    let m = if mraw_s = raw then m else m ^ " TIE-DIFF " ^ first_diff raw mraw_s in
    let m = if string_of_nlist (canon_line c rawl) = canon_impl then m else m ^ " CANON-DIFF" in
    let m = if oi_f then m else m ^ " FUNC-FAIL" in
    (m ^ races, oi_f && races = "", c25_ok ops mtr))
