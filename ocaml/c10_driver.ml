(* C10 driver.
   case:  ("D4"/"P4" = the same on the FIX44 schema)
          "D <fnum> <v>..."          direct RealmBase::get_rlm_idx / is_valid on the realm of a schema field
          "P <fnum> <v>..."          the printer path (create_field, virtual get_rlm_idx, print_field, print)
          "S <r|s> <c|i|d|s> <n> <m1>..<mn> <v>..."   a synthetic realm built from the case; also through typed field
                                     objects Field<T,7777>(v, &realm) and Field<T,7778>(v) (no realm)
   impl:  "K=<s|r> T=<c|b|i|d|s> N=<name> M=<m,..> D=<hexdesc,..> R=<res,..>"   (D, P: realm dump first)
          "R=<res,..>"                                                          (S)
          res = idx:valid (D) | idx:valid:fieldidx:fieldvalid:bareidx:barevalid (S)
         | idx:fieldvalid:hextail1:hextail2 (P; fieldvalid "-" for Boolean fields; K=n for a field without a realm)
   values: c/b/i/d decimal integers (d = order-preserving key of the double), s hex ("-" = empty). *)
let csv s = if s = "" then [] else split_on ',' s
let zs_of_hexstr h = zlist_of_hex h            (* string as list of byte values 0..255 *)
let kv_fields impl =
  List.filter_map (fun w -> match String.index_opt w '=' with
    | Some i -> Some (String.sub w 0 i, String.sub w (i+1) (String.length w - i - 1))
    | None -> None) (words impl)
let idx_str = function None -> "-1" | Some k -> string_of_int (int_of_nat k)
let idx_of_str s = let i = int_of_string s in if i < 0 then None else Some (nat_of_int i)
let kind_of = function "s" -> Dt_set | "r" -> Dt_range | _ -> failwith "kind"
let strip_opt = function Some x -> x | None -> failwith "MODEL-ERROR"
let raw_of_hex h = string_of_bytes (bytes_of_hex h)

(* run one realm of element type 'a.  Returns (model R list orig, model R list fixed, oracle impl, oracle model orig, oracle model fixed) *)
let run_direct (lt : 'a -> 'a -> bool) (k : rkind) (mem : 'a list) (probes : 'a list) (impl_r : string list) (need_sorted : bool) (with_field : bool) =
  let sorted = (k = Dt_range) || sortedb lt mem in
  let rlm = Some (k, mem) in
  (* (realm idx, realm valid, field idx, field valid, bare-field idx, bare-field valid) *)
  let one fixed v =
    let idx = strip_opt (get_rlm_idx_gen lt fixed k mem v) in
    let valid = strip_opt (is_valid lt k mem v) in
    if with_field then
      (idx, valid, strip_opt (field_get_rlm_idx_gen lt fixed rlm v), strip_opt (field_is_valid lt rlm v),
       strip_opt (field_get_rlm_idx_gen lt fixed None v), strip_opt (field_is_valid lt None v))
    else (idx, valid, idx, valid, None, true) in
  let ok v (idx, valid, fidx, fvalid, nidx, nvalid) =
    (c10_field_idx_ok lt None v nidx && c10_field_valid_ok lt None v nvalid) &&
    ((not sorted && not need_sorted) ||
     (c10_valid_ok lt k mem v valid && c10_idx_ok lt mem v idx &&
      c10_field_valid_ok lt rlm v fvalid && c10_field_idx_ok lt rlm v fidx)) in
  let fmt (idx, valid, fidx, fvalid, nidx, nvalid) =
    idx_str idx ^ ":" ^ b01 valid ^
    (if with_field then ":" ^ idx_str fidx ^ ":" ^ b01 fvalid ^ ":" ^ idx_str nidx ^ ":" ^ b01 nvalid else "") in
  let mo = List.map (one false) probes and mf = List.map (one true) probes in
  let parse r = match split_on ':' r with
    | [i; v] when not with_field -> let i = idx_of_str i and v = (v = "1") in Some (i, v, i, v, None, true)
    | [i; v; fi; fv; ni; nv] when with_field -> Some (idx_of_str i, v = "1", idx_of_str fi, fv = "1", idx_of_str ni, nv = "1")
    | _ -> None in
  let oi = List.length impl_r = List.length probes &&
           List.for_all2 (fun v r -> match (try parse r with _ -> None) with Some x -> ok v x | None -> false) probes impl_r in
  (sorted, List.map fmt mo, List.map fmt mf, oi, List.for_all2 ok probes mo, List.for_all2 ok probes mf)

let choose _impl_r _ro rf _om omf =
  (* the model of the code is [get_rlm_idx_gen ... true] (equality test after lower_bound, commit 63dae2a);
     the original routine ([false]) only serves the Coq refutation witness *)
  (rf, omf)

let valstr ty (v : string) : string =      (* how the field prints its value *)
  match ty with
  | "c" -> String.make 1 (Char.chr ((int_of_string v) land 255))
  | "b" -> String.make 1 (Char.chr (int_of_z (boolean_field_char (z_of_string v))))
  | "i" -> v
  | "s" -> raw_of_hex v
  | _ -> failwith "valstr"

let () = run_protocol (fun case impl ->
  match words case with
  | "S" :: kd :: ty :: n :: rest ->
    let n = int_of_string n in
    let mem = List.filteri (fun i _ -> i < n) rest and probes = List.filteri (fun i _ -> i >= n) rest in
    let impl_r = (match kv_fields impl with [("R", r)] -> csv r | _ -> []) in
    let k = kind_of kd in
    let (_, ro, rf, oi, om, omf) =
      if ty = "s" then run_direct str_ltb k (List.map zs_of_hexstr mem) (List.map zs_of_hexstr probes) impl_r false true
      else run_direct Z.ltb k (List.map z_of_string mem) (List.map z_of_string probes) impl_r false true in
    let (r, om) = choose impl_r ro rf om omf in
    ("R=" ^ String.concat "," r, oi, om)
  | ("D" | "D4") :: fnum :: probes ->
    let f = kv_fields impl in
    let get k = try List.assoc k f with Not_found -> failwith "NO-DUMP" in
    let kd = get "K" and ty = get "T" and nm = get "N" and m = get "M" and d = get "D" in
    let impl_r = csv (get "R") in
    let k = kind_of kd in
    let mem = csv m and descs = csv d in
    let (sorted, ro, rf, oi, om, omf) =
      if ty = "s" then run_direct str_ltb k (List.map zs_of_hexstr mem) (List.map zs_of_hexstr probes) impl_r true false
      else run_direct Z.ltb k (List.map z_of_string mem) (List.map z_of_string probes) impl_r true false in
    let (r, om) = choose impl_r ro rf om omf in
    let wf = sorted && List.length descs = List.length mem in
    ((if wf then "" else "ILL-FORMED-REALM ") ^
     Printf.sprintf "K=%s T=%s N=%s M=%s D=%s R=%s" kd ty nm m d (String.concat "," r), oi && wf, om && wf)
  | ("P" | "P4") :: fnum :: probes ->
    let f = kv_fields impl in
    let get k = try List.assoc k f with Not_found -> failwith "NO-DUMP" in
    let kd = get "K" and ty = get "T" and nm = get "N" and m = get "M" and d = get "D" in
    let impl_r = csv (get "R") in
    let norealm = (kd = "n") in
    let k = if norealm then Dt_set else kind_of kd in
    let mem = csv m and descs = List.map raw_of_hex (csv d) in
    (* per probe: the value the field holds, the model's index, validity and description *)
    let eff v = if ty = "b" then string_of_z (boolean_field_char (z_of_string v)) else v in
    let run (type a) (lt : a -> a -> bool) (conv : string -> a) =
      let mem' = List.map conv mem in
      let sorted = norealm || (k = Dt_range) || sortedb lt mem' in
      let rlm = if norealm then None else Some (k, mem') in
      let one fixed v =
        let x = conv (eff v) in
        let idx = strip_opt (field_get_rlm_idx_gen lt fixed rlm x) in
        let desc = strip_opt (field_describe_gen lt fixed rlm descs x) in
        (* Field<Boolean, N> has no is_valid() *)
        let valid = if ty = "b" then None else Some (strip_opt (field_is_valid lt rlm x)) in
        (idx, valid, desc) in
      let tail v desc = let vs = valstr ty v in
        match desc with Some ds -> ds ^ " (" ^ vs ^ ")" | None -> vs in
      let vstr = function None -> "-" | Some b -> b01 b in
      let fmt v (idx, valid, desc) = let t = hex_of_bytes (bytes_of_string (tail v desc)) in
        idx_str idx ^ ":" ^ vstr valid ^ ":" ^ t ^ ":" ^ t in
      let ok v (idx, valid, desc) =
        let x = conv (eff v) in
        c10_field_idx_ok lt rlm x idx && c10_field_desc_ok lt (fun a b -> a = b) rlm descs x desc &&
        (match valid with None -> ty = "b" | Some b -> ty <> "b" && c10_field_valid_ok lt rlm x b) in
      (* read the description back from what the implementation printed *)
      let parse v r = match split_on ':' r with
        | [i; fv; t1; t2] when t1 = t2 ->
          let t = raw_of_hex t1 and vs = valstr ty v in
          let suffix = " (" ^ vs ^ ")" in
          let lt_, ls = String.length t, String.length suffix in
          let valid = (match fv with "-" -> None | "1" -> Some true | "0" -> Some false | _ -> failwith "valid") in
          if t = vs then Some (idx_of_str i, valid, None)
          else if lt_ >= ls && String.sub t (lt_ - ls) ls = suffix then Some (idx_of_str i, valid, Some (String.sub t 0 (lt_ - ls)))
          else None
        | _ -> None in
      let mo = List.map (one false) probes and mf = List.map (one true) probes in
      let oi = List.length impl_r = List.length probes &&
               List.for_all2 (fun v r -> match (try parse v r with _ -> None) with Some x -> ok v x | None -> false) probes impl_r in
      (sorted, List.map2 fmt probes mo, List.map2 fmt probes mf, oi, List.for_all2 ok probes mo, List.for_all2 ok probes mf) in
    let (sorted, ro, rf, oi, om, omf) =
      if ty = "s" then run str_ltb zs_of_hexstr else run Z.ltb z_of_string in
    let (r, om) = choose impl_r ro rf om omf in
    let wf = sorted && List.length descs = List.length mem in
    ((if wf then "" else "ILL-FORMED-REALM ") ^
     Printf.sprintf "K=%s T=%s N=%s M=%s D=%s R=%s" kd ty nm m d (String.concat "," r), oi && wf, om && wf)
  | _ -> ("BAD-CASE", false, false))
