(* C31 driver.  case: "<t0> <results> <ops>" (see harness/h_c31.cpp); impl result: the token trace.
   The model is run on the same script; its tie-breaking oracle is steered by the order in which the
   implementation ran the callbacks.  The oracle c31_ok is applied to the history rebuilt from the
   implementation's tokens (event id = callback number = index of the schedule call). *)
let parse_ops (s : string) : sop list =
  List.filter_map (fun o ->
    if o = "" then None
    else match o.[0] with
    | 'S' -> (match split_on ':' (String.sub o 1 (String.length o - 1)) with
              | [r; ms] -> Some (SSched (r = "1", z_of_string ms))
              | _ -> failwith "bad S")
    | 'A' -> Some (SAdv (z_of_string (String.sub o 1 (String.length o - 1))))
    | 'C' -> Some SClear
    | _ -> failwith "bad op") (split_on ',' s)

let parse_res (s : string) : string array =
  if s = "-" then [||] else Array.of_list (List.map (fun x -> if x = "-" then "" else x) (split_on ',' s))

let show_hist (h : hentry list) : string =
  String.concat " " (List.map (function
    | HSched _ -> "s1"
    | HFire (_, cb, t, r) -> "f" ^ string_of_z cb ^ "@" ^ string_of_z t ^ ":" ^ b01 r
    | HClear (_, n) -> "c" ^ string_of_int (int_of_nat n)
    | HQuiet _ -> "q") h)

(* implementation tokens -> history; None when the trace is not of the expected shape *)
let impl_hist (t0 : z) (sc : sop list) (impl : string) : (hentry list * z list) option =
  let toks = ref (words impl) in
  let next () = match !toks with [] -> None | x :: r -> toks := r; Some x in
  let peek () = match !toks with [] -> None | x :: _ -> Some x in
  let h = ref [] and pref = ref [] and now = ref t0 and k = ref 0 and ok = ref true in
  List.iter (fun o ->
    if !ok then begin
      (match o with
       | SSched (rep, ms) ->
           (match next () with
            | Some "s1" -> h := HSched (nat_of_int !k, z_of_int !k, rep, ms, !now) :: !h; incr k
            | _ -> ok := false)
       | SAdv d -> now := Z.add !now d
       | SClear ->
           (match next () with
            | Some c when String.length c > 1 && c.[0] = 'c' ->
                h := HClear (!now, nat_of_int (int_of_string (String.sub c 1 (String.length c - 1)))) :: !h
            | _ -> ok := false));
      let continue = ref !ok in
      while !continue do
        match peek () with
        | Some f when String.length f > 1 && f.[0] = 'f' ->
            ignore (next ());
            (try
              let at = String.index f '@' and col = String.index f ':' in
              let cb = int_of_string (String.sub f 1 (at - 1)) in
              let t = z_of_string (String.sub f (at + 1) (col - at - 1)) in
              let r = String.sub f (col + 1) (String.length f - col - 1) = "1" in
              h := HFire (nat_of_int cb, z_of_int cb, t, r) :: !h;
              pref := z_of_int cb :: !pref
            with _ -> ok := false; continue := false)
        | _ -> continue := false
      done;
      if !ok then (match next () with
        | Some "q" -> h := HQuiet !now :: !h
        | _ -> ok := false)
    end) sc;
  if !ok && !toks = [] then Some (List.rev !h, List.rev !pref) else None

let () = run_protocol (fun case impl ->
  match words case with
  | [t0; rs; ops] ->
    let t0 = z_of_string t0 and resv = parse_res rs and sc = parse_ops ops in
    let res (cb : z) (n : nat) : bool =
      let c = int_of_z cb and n = int_of_nat n in
      c >= 0 && c < Array.length resv && n < String.length resv.(c) && resv.(c).[n] = 'T' in
    let ih = (try impl_hist t0 sc impl with _ -> None) in
    let pref = (match ih with Some (_, p) -> p | None -> []) in
    let (((s, _), _), fin) = run_script res t0 pref sc in
    let ms = (let t = show_hist (hist s) in (if t = "" then "-" else t) ^ (if fin then "" else " FUEL")) in
    let om = fin && c31_ok (hist s) in
    let oi = (match ih with Some (h, _) -> c31_ok h | None -> false) in
    (ms, oi, om)
  | _ -> ("BAD-CASE", false, false))
